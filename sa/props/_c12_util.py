"""Generic facilities for C12 (candidates for sa/engine): decide *what a predicate computes*, not how it is spelt.

  single_defs / deref      single-assignment locals of a function and their substitution into an expression
  Folder.ret_expr          symbolic return expression of a (pure, loop-free) function: locals substituted in
                           program order, if/else / early-return / ternary / assignment diamonds folded into
                           conditional expressions, calls of private helpers (same class, module, nested def)
                           replaced by the helper's own return expression with the arguments bound
  resolve_callable         a callable *value* (nested def, lambda, local bound to either, bound method
                           reference) as (expression over the placeholder `%1`)
  bcanon                   canonical boolean form: flattened and/or, De Morgan, constants folded, ternaries,
                           `all`/`any` over one generator as quantifiers with the bound variable
                           alpha-normalised (`?0`, `?1`, ...), `len(x) > 0` family as ("nonempty", x),
                           membership in a literal collection as a set
  edge_facts / edges_establishing   atoms known to hold on the true/false edge of a CFG test node

Everything is analysis-only and works on copies; anything that cannot be interpreted raises AnalysisError
(fail closed).
"""
from __future__ import annotations

import ast
import copy
import itertools
from typing import Any, Callable, Iterable

from ..engine.cfg import CFG
from ..engine.normalize import ANCHOR_NAMES
from ..engine.report import AnalysisError
from ..engine.resolver import FuncInfo, FuncNode, Program, walk_no_nested

_FuncTypes = (ast.FunctionDef, ast.AsyncFunctionDef)
_fresh = itertools.count()


def txt(node: ast.AST | None) -> str:
    return "" if node is None else " ".join(ast.unparse(node).split())


# ------------------------------------------------------------------ names and substitution
def _params_of(node: FuncNode | ast.Lambda) -> list[str]:
    a = node.args
    return [x.arg for x in a.posonlyargs + a.args + a.kwonlyargs]


def freshen(root: ast.AST) -> ast.AST:
    """Rename comprehension variables and lambda parameters to unique names (in place) so that later
    substitutions can never capture them."""
    for n in ast.walk(root):
        if isinstance(n, (ast.GeneratorExp, ast.ListComp, ast.SetComp, ast.DictComp)):
            ren: dict[str, str] = {}
            for g in n.generators:
                for t in ast.walk(g.target):
                    if isinstance(t, ast.Name) and "#" not in t.id:
                        ren[t.id] = f"{t.id}#{next(_fresh)}"
            if ren:
                for x in ast.walk(n):
                    if isinstance(x, ast.Name) and x.id in ren:
                        x.id = ren[x.id]
        elif isinstance(n, ast.Lambda):
            ren = {}
            for a in n.args.posonlyargs + n.args.args + n.args.kwonlyargs:
                if "#" not in a.arg:
                    ren[a.arg] = f"{a.arg}#{next(_fresh)}"
                    a.arg = ren[a.arg]
            for x in ast.walk(n.body):
                if isinstance(x, ast.Name) and x.id in ren:
                    x.id = ren[x.id]
    return root


class _Subst(ast.NodeTransformer):
    def __init__(self, env: dict[str, ast.AST]) -> None:
        self.env = env

    def visit_Name(self, node: ast.Name) -> ast.AST:  # noqa: N802
        if isinstance(node.ctx, ast.Load) and node.id in self.env:
            return ast.copy_location(copy.deepcopy(self.env[node.id]), node)
        return node


def subst(expr: ast.AST, env: dict[str, ast.AST]) -> ast.AST:
    """Substitute names (on a copy).  Comprehension variables / lambda parameters must be fresh."""
    if not env:
        return copy.deepcopy(expr)
    return _Subst(env).visit(copy.deepcopy(expr))


def rename(expr: ast.AST, mapping: dict[str, str]) -> ast.AST:
    expr = copy.deepcopy(expr)
    for n in ast.walk(expr):
        if isinstance(n, ast.Name) and n.id in mapping:
            n.id = mapping[n.id]
    return expr


def alias(expr: ast.AST, texts: Iterable[str], to: str) -> ast.AST:
    """Replace every sub-expression whose text is one of `texts` by the name `to` (on a copy)."""
    tset = set(texts)

    class A(ast.NodeTransformer):
        def generic_visit(self, node: ast.AST) -> ast.AST:
            if isinstance(node, ast.expr) and txt(node) in tset:
                return ast.copy_location(ast.Name(id=to, ctx=ast.Load()), node)
            return super().generic_visit(node)

    return A().visit(copy.deepcopy(expr))


def sole_unpack(s: ast.stmt) -> tuple[str, ast.AST] | None:
    """`(x,) = S` / `[x] = S` as (x, `next(iter(S))`): the only element of a one-element collection (the statement
    raises for any other size; as a *value* it is the element a `pop()` / `next(iter())` of that collection gives)."""
    if isinstance(s, ast.Assign) and len(s.targets) == 1 and isinstance(s.targets[0], (ast.Tuple, ast.List)) \
            and len(s.targets[0].elts) == 1 and isinstance(s.targets[0].elts[0], ast.Name):
        it = ast.Call(func=ast.Name(id="iter", ctx=ast.Load()), args=[s.value], keywords=[])
        nx = ast.Call(func=ast.Name(id="next", ctx=ast.Load()), args=[it], keywords=[])
        return s.targets[0].elts[0].id, ast.fix_missing_locations(ast.copy_location(nx, s.value))
    return None


def single_defs(fn: FuncNode) -> dict[str, ast.AST]:
    """name -> value for the locals bound exactly once in `fn` (by a plain or annotated assignment)."""
    count: dict[str, int] = {}
    vals: dict[str, ast.AST] = {}
    for p in _params_of(fn):
        count[p] = 1
    for a in (fn.args.vararg, fn.args.kwarg):
        if a is not None:
            count[a.arg] = 1
    for stmt in fn.body:
        for n in walk_no_nested(stmt):
            if isinstance(n, _FuncTypes + (ast.ClassDef,)):
                count[n.name] = count.get(n.name, 0) + 1
            elif isinstance(n, ast.Name) and isinstance(n.ctx, (ast.Store, ast.Del)):
                count[n.id] = count.get(n.id, 0) + 1
            elif isinstance(n, ast.ExceptHandler) and n.name:
                count[n.name] = count.get(n.name, 0) + 1
            elif isinstance(n, (ast.Global, ast.Nonlocal)):
                for nm in n.names:
                    count[nm] = 99
            elif isinstance(n, (ast.GeneratorExp, ast.ListComp, ast.SetComp, ast.DictComp)):
                # comprehension targets are their own scope: undo the count made by the Name visit
                for g in n.generators:
                    for t in ast.walk(g.target):
                        if isinstance(t, ast.Name):
                            count[t.id] = count.get(t.id, 0) - 1
            if isinstance(n, ast.Assign) and len(n.targets) == 1 and isinstance(n.targets[0], ast.Name):
                vals[n.targets[0].id] = n.value
            elif isinstance(n, ast.AnnAssign) and isinstance(n.target, ast.Name) and n.value is not None:
                vals[n.target.id] = n.value
            elif isinstance(n, ast.Assign) and sole_unpack(n) is not None:
                vals[sole_unpack(n)[0]] = sole_unpack(n)[1]  # type: ignore[index]
    out: dict[str, ast.AST] = {}
    for k, v in vals.items():
        if count.get(k, 0) == 1 and not any(isinstance(x, (ast.Await, ast.Yield, ast.YieldFrom)) for x in ast.walk(v)) \
                and not any(isinstance(x, ast.Name) and x.id == k for x in ast.walk(v)):
            out[k] = freshen(copy.deepcopy(v))
    return out


def is_fresh_container(v: ast.AST) -> bool:
    """A value whose identity matters (it may be filled / mutated after the assignment)."""
    if isinstance(v, (ast.Dict, ast.Set, ast.List, ast.ListComp, ast.SetComp, ast.DictComp, ast.GeneratorExp)):
        return True
    return isinstance(v, ast.Call) and isinstance(v.func, ast.Name) and v.func.id in ("set", "dict", "list", "frozenset", "defaultdict")


def deref(expr: ast.AST, defs: dict[str, ast.AST], containers: bool = False, rounds: int = 8) -> ast.AST:
    """Substitute single-assignment locals into `expr` until nothing changes (on a copy).  Locals bound to
    a fresh container keep their name (identity matters) unless `containers` is set."""
    use = defs if containers else {k: v for k, v in defs.items() if not is_fresh_container(v)}
    cur = freshen(copy.deepcopy(expr))
    for _ in range(rounds):
        if not any(isinstance(n, ast.Name) and isinstance(n.ctx, ast.Load) and n.id in use for n in ast.walk(cur)):
            break
        cur = _Subst(use).visit(cur)
    return beta(cur)


def beta(expr: ast.AST) -> ast.AST:
    """Reduce immediately applied lambdas `(lambda x: e)(a)` -> e[a/x] (lambda parameters must be fresh)."""
    class B(ast.NodeTransformer):
        def visit_Call(self, node: ast.Call) -> ast.AST:  # noqa: N802
            self.generic_visit(node)
            f = node.func
            if isinstance(f, ast.Lambda) and not f.args.vararg and not f.args.kwarg and not f.args.kwonlyargs:
                binds = call_args(node, [a.arg for a in f.args.posonlyargs + f.args.args])
                if binds is not None and len(binds) == len(f.args.posonlyargs + f.args.args):
                    return ast.copy_location(_Subst(binds).visit(copy.deepcopy(f.body)), node)
            return node

    return B().visit(expr)


def pmap(fi: FuncInfo) -> dict[str, str]:
    """Parameters -> positional placeholders `%1`, `%2`, ... (self/cls is not numbered)."""
    ps = _params_of(fi.node)
    if fi.cls is not None and fi.outer is None and ps and ps[0] in ("self", "cls"):
        ps = ps[1:]
    return {p: f"%{i + 1}" for i, p in enumerate(ps)}


def call_args(call: ast.Call, params: list[str]) -> dict[str, ast.AST] | None:
    """Arguments keyed by parameter name (keyword and positional forms coincide); None if not decidable."""
    if any(isinstance(a, ast.Starred) for a in call.args) or any(k.arg is None for k in call.keywords) \
            or len(call.args) > len(params):
        return None
    out: dict[str, ast.AST] = dict(zip(params, call.args))
    for k in call.keywords:
        if k.arg in out:
            return None
        out[k.arg] = k.value  # type: ignore[index]
    return out


# ------------------------------------------------------------------ symbolic return expression
class _Raise:
    pass


RAISE = _Raise()


class Folder:
    """Return expression of loop-free functions, private helpers expanded (depth-limited)."""

    def __init__(self, prog: Program, keep: Iterable[str] = (), max_depth: int = 4) -> None:
        self.prog = prog
        self.keep = set(keep) | set(ANCHOR_NAMES)  # callees the rules bind to by name: never expanded
        self.max_depth = max_depth
        self.read: dict[str, FuncInfo] = {}  # every helper whose body was read as part of a caller's value
        self.mark_raise = False  # keep `if c: raise` guards as `RAISE if c else ...` instead of dropping them

    # -- helper resolution (same policy as engine.normalize: private, not an anchored function, not overridden)
    def _helper(self, fi: FuncInfo, call: ast.Call, nested: dict[str, FuncNode]) -> FuncInfo | None:
        f = call.func
        if isinstance(f, ast.Name):
            if f.id in nested:
                return FuncInfo(f.id, fi.module, nested[f.id], None, fi)
            if f.id.startswith("_") and f.id in fi.module.functions:
                return fi.module.functions[f.id]
            return None
        cls = fi.cls if fi.cls is not None else (fi.outer.cls if fi.outer is not None else None)
        if isinstance(f, ast.Attribute) and isinstance(f.value, ast.Name) and cls is not None \
                and f.attr.startswith("_") and not f.attr.startswith("__") and f.attr not in self.keep \
                and (f.value.id in ("self", "cls") or f.value.id == cls.name):
            m = self.prog.resolve_method(cls, f.attr)
            if m is not None and not any(f.attr in sub.methods for sub in self.prog.subclasses(cls)):
                return m
        return None

    def expr(self, e: ast.AST, env: dict[str, ast.AST], fi: FuncInfo, nested: dict[str, FuncNode], depth: int) -> ast.AST:
        folder = self

        class X(ast.NodeTransformer):
            def visit_Name(self, node: ast.Name) -> ast.AST:  # noqa: N802
                if isinstance(node.ctx, ast.Load) and node.id in env:
                    return ast.copy_location(copy.deepcopy(env[node.id]), node)
                return node

            def visit_Call(self, node: ast.Call) -> ast.AST:  # noqa: N802
                h = folder._helper(fi, node, nested) if depth < folder.max_depth else None
                self.generic_visit(node)
                if isinstance(node.func, ast.Lambda):
                    return beta(node)
                if h is None or h.name in folder.keep or h.node is fi.node:
                    return node
                ps = _params_of(h.node)
                if h.cls is not None and h.outer is None and ps and ps[0] in ("self", "cls") and not any(
                        isinstance(d, ast.Name) and d.id == "staticmethod" for d in h.node.decorator_list):
                    ps = ps[1:]
                binds = call_args(node, ps)
                if binds is None:
                    return node
                a = h.node.args
                pos = a.posonlyargs + a.args
                defaults: dict[str, ast.AST] = dict(zip([x.arg for x in pos][len(pos) - len(a.defaults):], a.defaults))
                defaults.update({x.arg: d for x, d in zip(a.kwonlyargs, a.kw_defaults) if d is not None})
                for p in ps:
                    if p not in binds:
                        if p not in defaults:
                            return node
                        binds[p] = copy.deepcopy(defaults[p])
                try:
                    clo = env if h.outer is not None else None  # a nested def sees the caller's locals
                    return ast.copy_location(folder.ret_expr(h, binds=binds, closure=clo, depth=depth + 1), node)
                except AnalysisError:
                    return node

        return X().visit(freshen(copy.deepcopy(e)))

    def ret_expr(self, fi: FuncInfo, binds: dict[str, ast.AST] | None = None,
                 closure: dict[str, ast.AST] | None = None, depth: int = 0) -> ast.AST:
        if depth > 0:
            # only helpers that merely *compute a value* are read through: bindings, branches, returns
            for s in fi.node.body:
                for n in walk_no_nested(s):
                    if isinstance(n, ast.For) and not n.orelse and all(
                            isinstance(x, (ast.Assign, ast.If, ast.Return)) or (isinstance(x, ast.Expr) and isinstance(x.value, ast.Constant))
                            for b in n.body for x in [b]):
                        continue  # a search loop (`if C: return K`): read as a quantifier
                    if isinstance(n, (ast.For, ast.AsyncFor, ast.While, ast.Try, ast.With, ast.AsyncWith, ast.Delete, ast.AugAssign)) \
                            or (isinstance(n, ast.Assign) and any(not isinstance(t, ast.Name) for t in n.targets) and sole_unpack(n) is None) \
                            or (isinstance(n, ast.Expr) and not (isinstance(n.value, ast.Constant) or (
                                isinstance(n.value, ast.Call) and txt(n.value.func).split(".")[0] in ("_logger", "logging", "_log")))):
                        raise AnalysisError(f"{fi.qual} is not a pure value helper")
        if depth > 0 or binds is not None:
            self.read[fi.qual] = fi
        node = freshen(copy.deepcopy(fi.node))
        if isinstance(node, ast.AsyncFunctionDef):
            raise AnalysisError(f"cannot fold async function {fi.qual}")
        nested = {n.name: n for s in node.body for n in walk_no_nested(s) if isinstance(n, _FuncTypes)}
        own = set(_params_of(node)) | {n.id for n in ast.walk(node) if isinstance(n, ast.Name) and isinstance(n.ctx, ast.Store)}
        env: dict[str, ast.AST] = {k: v for k, v in (closure or {}).items() if k not in own}
        env.update(binds or {})
        fi2 = FuncInfo(fi.name, fi.module, node, fi.cls, fi.outer)
        res = self._block(node.body, env, fi2, nested, depth)
        if res is None or res is RAISE:
            raise AnalysisError(f"{fi.qual} has no return value to fold")
        return res  # type: ignore[return-value]

    def _block(self, stmts: list[ast.stmt], env: dict[str, ast.AST], fi: FuncInfo,
               nested: dict[str, FuncNode], depth: int, cont: list[ast.stmt] | None = None) -> Any:
        """Value returned by executing `stmts` and then `cont` (the statements that follow the enclosing block):
        a branch that falls off its own block goes on there, not at the function's end."""
        cont = cont or []
        for i, s in enumerate(stmts):
            if isinstance(s, (ast.Expr, ast.Pass, ast.Assert, ast.Import, ast.ImportFrom, ast.ClassDef) + _FuncTypes):
                continue
            if isinstance(s, ast.Assign) and len(s.targets) == 1 and isinstance(s.targets[0], ast.Name):
                env[s.targets[0].id] = self.expr(s.value, env, fi, nested, depth)
                continue
            if isinstance(s, ast.AnnAssign) and isinstance(s.target, ast.Name):
                if s.value is not None:
                    env[s.target.id] = self.expr(s.value, env, fi, nested, depth)
                continue
            if sole_unpack(s) is not None:
                name, only = sole_unpack(s)  # type: ignore[misc]
                env[name] = self.expr(only, env, fi, nested, depth)
                continue
            if isinstance(s, ast.AugAssign) and isinstance(s.target, ast.Name):
                left = env.get(s.target.id, ast.Name(id=s.target.id, ctx=ast.Load()))
                env[s.target.id] = ast.BinOp(left=copy.deepcopy(left), op=s.op, right=self.expr(s.value, env, fi, nested, depth))
                continue
            if isinstance(s, (ast.Assign, ast.AnnAssign, ast.AugAssign, ast.Delete)):
                # other targets (attributes, subscripts, tuples): the names involved become opaque
                for n in ast.walk(s):
                    if isinstance(n, ast.Name) and isinstance(n.ctx, (ast.Store, ast.Del)):
                        env.pop(n.id, None)
                continue
            if isinstance(s, ast.Return):
                return self.expr(s.value, env, fi, nested, depth) if s.value is not None else ast.Constant(None)
            if isinstance(s, ast.Raise):
                return RAISE
            if isinstance(s, ast.If):
                t = self.expr(s.test, env, fi, nested, depth)
                e1, e2 = dict(env), dict(env)
                leaves = any(isinstance(n, (ast.Return, ast.Raise)) for b in s.body + s.orelse for n in walk_no_nested(b))
                if not leaves:
                    # a diamond: both arms rejoin, their bindings are merged
                    self._block(s.body, e1, fi, nested, depth)
                    self._block(s.orelse, e2, fi, nested, depth)
                    for k in set(e1) | set(e2):
                        v1 = e1.get(k, ast.Name(id=k, ctx=ast.Load()))
                        v2 = e2.get(k, ast.Name(id=k, ctx=ast.Load()))
                        env[k] = v1 if ast.dump(v1) == ast.dump(v2) else ast.IfExp(test=copy.deepcopy(t), body=v1, orelse=v2)
                    continue
                rest = stmts[i + 1:] + cont
                r1 = self._block(s.body, e1, fi, nested, depth, rest)
                r2 = self._block(s.orelse, e2, fi, nested, depth, rest)
                if self.mark_raise and (r1 is RAISE) != (r2 is RAISE):
                    mark = ast.Name(id="RAISE", ctx=ast.Load())
                    other = r2 if r1 is RAISE else r1
                    other = ast.Constant(None) if other is None else other
                    return ast.IfExp(test=t, body=mark if r1 is RAISE else other, orelse=other if r1 is RAISE else mark)
                if r1 is RAISE:
                    return r2
                if r2 is RAISE:
                    return r1
                r1 = ast.Constant(None) if r1 is None else r1
                r2 = ast.Constant(None) if r2 is None else r2
                if ast.dump(r1) == ast.dump(r2):
                    return r1
                return ast.IfExp(test=t, body=r1, orelse=r2)
            if isinstance(s, (ast.With,)):
                return self._block(s.body, env, fi, nested, depth, stmts[i + 1:] + cont)
            # `for x in S: if C: return K` followed by `return not K`  ==  any / all over S
            q = self._quantifier_loop(s, stmts[i + 1:] + cont, env, fi, nested, depth)
            if q is not None:
                return q
            # loops / try / match: not folded; a return inside cannot be expressed
            if any(isinstance(n, ast.Return) for n in walk_no_nested(s)):
                raise AnalysisError(f"{fi.qual}: return inside a compound statement cannot be folded")
            for n in walk_no_nested(s):
                if isinstance(n, ast.Name) and isinstance(n.ctx, (ast.Store, ast.Del)):
                    env.pop(n.id, None)
        if cont:
            return self._block(cont, env, fi, nested, depth)
        return None


def _bool_const(e: ast.AST | None) -> bool | None:
    return e.value if isinstance(e, ast.Constant) and isinstance(e.value, bool) else None


def _quantifier_loop(self: Folder, s: ast.stmt, rest: list[ast.stmt], env: dict[str, ast.AST], fi: FuncInfo,
                     nested: dict[str, FuncNode], depth: int) -> ast.AST | None:
    """A search loop as the quantifier it computes (None if `s` is not one)."""
    if not (isinstance(s, ast.For) and _plain_target(s.target) and not s.orelse and rest and isinstance(rest[0], ast.Return)):
        return None
    after = _bool_const(rest[0].value)
    *binds, last = s.body
    if isinstance(last, ast.If) and not last.orelse and len(last.body) == 1 and isinstance(last.body[0], ast.Return) \
            and last.body[0].value is not None and (after is None or _bool_const(last.body[0].value) is None):
        return _search_loop(self, s, rest, env, fi, nested, depth)
    if after is None or not isinstance(last, ast.If) or last.orelse or len(last.body) != 1 or not isinstance(last.body[0], ast.Return) \
            or _bool_const(last.body[0].value) is not (not after):
        return None
    local: dict[str, ast.AST] = {}
    for b in binds:
        if isinstance(b, ast.Expr) and isinstance(b.value, ast.Constant):
            continue
        if not (isinstance(b, ast.Assign) and len(b.targets) == 1 and isinstance(b.targets[0], ast.Name)):
            return None
        local[b.targets[0].id] = subst(b.value, local)
    # (the loop target may be a name or a tuple of names: `for is_device, is_meter in PAIRS`)
    names = _target_names(s.target)
    ren = {n: f"{n}#{next(_fresh)}" for n in sorted(names)}
    cond = rename(subst(last.test, local), ren)
    if after:  # found a counter-example -> False, else True: all(not C)
        cond = ast.UnaryOp(op=ast.Not(), operand=cond)
    comp = ast.GeneratorExp(elt=cond, generators=[ast.comprehension(target=rename(s.target, ren), iter=s.iter, ifs=[], is_async=0)])
    call = ast.Call(func=ast.Name(id="all" if after else "any", ctx=ast.Load()), args=[comp], keywords=[])
    inner_env = {k: v for k, v in env.items() if k not in names}
    return self.expr(ast.fix_missing_locations(ast.copy_location(call, s)), inner_env, fi, nested, depth)


def _search_loop(self: Folder, s: ast.For, rest: list[ast.stmt], env: dict[str, ast.AST], fi: FuncInfo,
                 nested: dict[str, FuncNode], depth: int) -> Any:
    """`for x in S: if C(x): return K` (K the same whichever x is found) followed by `rest`  ==
    `K if any(C(x) for x in S) else <value of rest>`; None if `s` is not of that shape."""
    *binds, last = s.body
    local: dict[str, ast.AST] = {}
    for b in binds:
        if isinstance(b, ast.Expr) and isinstance(b.value, ast.Constant):
            continue
        if not (isinstance(b, ast.Assign) and len(b.targets) == 1 and isinstance(b.targets[0], ast.Name)):
            return None
        local[b.targets[0].id] = subst(b.value, local)
    names = _target_names(s.target)
    found = last.body[0].value  # type: ignore[attr-defined]
    if any(isinstance(n, ast.Name) and (n.id in names or n.id in local) for n in ast.walk(found)):
        return None  # the result depends on which element was found: not a quantifier
    ren = {n: f"{n}#{next(_fresh)}" for n in sorted(names)}
    cond = rename(subst(last.test, local), ren)  # type: ignore[attr-defined]
    comp = ast.GeneratorExp(elt=cond, generators=[ast.comprehension(target=rename(s.target, ren), iter=s.iter, ifs=[], is_async=0)])
    call = ast.Call(func=ast.Name(id="any", ctx=ast.Load()), args=[comp], keywords=[])
    inner_env = {k: v for k, v in env.items() if k not in names}
    test = self.expr(ast.fix_missing_locations(ast.copy_location(call, s)), inner_env, fi, nested, depth)
    hit = self.expr(found, inner_env, fi, nested, depth)
    env_rest = {k: v for k, v in env.items() if k not in names and k not in local}
    miss = self._block(rest, env_rest, fi, nested, depth)
    if miss is RAISE:
        return ast.IfExp(test=test, body=hit, orelse=ast.Name(id="RAISE", ctx=ast.Load())) if self.mark_raise else hit
    miss = ast.Constant(None) if miss is None else miss
    return hit if ast.dump(hit) == ast.dump(miss) else ast.IfExp(test=test, body=hit, orelse=miss)


Folder._quantifier_loop = _quantifier_loop  # type: ignore[attr-defined]


def closure_env(outer: FuncNode) -> dict[str, ast.AST]:
    """What a nested function sees of its enclosing function's single-assignment locals."""
    defs = single_defs(outer)
    return {k: deref(v, defs) for k, v in defs.items()}


def resolve_callable(folder: Folder, fi: FuncInfo, expr: ast.AST, defs: dict[str, ast.AST]) -> ast.AST:
    """A one-argument callable value as an expression over the placeholder name `%1`."""
    e = expr
    for _ in range(6):
        if isinstance(e, ast.Name) and e.id in defs:
            e = defs[e.id]
        else:
            break
    clo = closure_env(fi.node)
    ph = ast.Name(id="%1", ctx=ast.Load())
    if isinstance(e, ast.Call) and txt(e.func) in ("functools.partial", "partial") and e.args \
            and not any(isinstance(a, ast.Starred) for a in e.args) and not any(k.arg is None for k in e.keywords):
        # partial(f, a, k=v): f with its leading parameters / keywords bound, the one left over is the argument
        target = e.args[0]
        callee: FuncInfo | None = None
        is_nested = False
        if isinstance(target, ast.Name):
            for s in fi.node.body:
                for n in walk_no_nested(s):
                    if isinstance(n, _FuncTypes) and n.name == target.id:
                        callee, is_nested = FuncInfo(n.name, fi.module, n, None, fi), True
            if callee is None and target.id in fi.module.functions:
                callee = fi.module.functions[target.id]
            ps = _params_of(callee.node) if callee is not None else []
        elif isinstance(target, ast.Attribute) and isinstance(target.value, ast.Name) and target.value.id in ("self", "cls"):
            cls = fi.cls if fi.cls is not None else (fi.outer.cls if fi.outer is not None else None)
            callee = folder.prog.resolve_method(cls, target.attr) if cls is not None else None
            ps = _params_of(callee.node) if callee is not None else []
            if callee is not None and not any(isinstance(d, ast.Name) and d.id == "staticmethod" for d in callee.node.decorator_list):
                ps = ps[1:]
        if callee is None:
            raise AnalysisError(f"cannot resolve the function bound by `{txt(expr)}` in {fi.qual}")
        binds: dict[str, ast.AST] = {p: deref(a, defs) for p, a in zip(ps, e.args[1:])}
        for k in e.keywords:
            binds[k.arg] = deref(k.value, defs)  # type: ignore[index]
        rest = [p for p in ps if p not in binds]
        if len(e.args) - 1 > len(ps) or len(rest) != 1:
            raise AnalysisError(f"callable `{txt(expr)}` does not take exactly one argument")
        binds[rest[0]] = ph
        return folder.ret_expr(callee, binds=binds, closure=clo if is_nested else None)
    if isinstance(e, ast.Lambda):
        lam = freshen(copy.deepcopy(e))
        ps = _params_of(lam)
        if len(ps) != 1 or lam.args.vararg or lam.args.kwarg:
            raise AnalysisError(f"callable `{txt(expr)}` does not take exactly one argument")
        nested = {n.name: n for s in fi.node.body for n in walk_no_nested(s) if isinstance(n, _FuncTypes)}
        env = dict(clo)
        env[ps[0]] = ph
        return folder.expr(lam.body, env, fi, nested, 0)
    if isinstance(e, ast.Name):
        for s in fi.node.body:
            for n in walk_no_nested(s):
                if isinstance(n, _FuncTypes) and n.name == e.id:
                    ps = _params_of(n)
                    if len(ps) != 1:
                        raise AnalysisError(f"callable `{e.id}` does not take exactly one argument")
                    nf = FuncInfo(n.name, fi.module, n, None, fi)
                    return folder.ret_expr(nf, binds={ps[0]: ph}, closure=clo)
        if e.id in fi.module.functions:
            mf = fi.module.functions[e.id]
            ps = _params_of(mf.node)
            if len(ps) != 1:
                raise AnalysisError(f"callable `{e.id}` does not take exactly one argument")
            return folder.ret_expr(mf, binds={ps[0]: ph})
        raise AnalysisError(f"cannot resolve callable `{txt(expr)}` in {fi.qual}")
    if isinstance(e, ast.Attribute):
        recv = deref(e, defs)
        call = ast.Call(func=recv, args=[ph], keywords=[])
        nested = {n.name: n for s in fi.node.body for n in walk_no_nested(s) if isinstance(n, _FuncTypes)}
        return folder.expr(call, {}, fi, nested, 0)
    raise AnalysisError(f"cannot resolve callable `{txt(expr)}` in {fi.qual}")


# ------------------------------------------------------------------ canonical boolean form
def _mk(op: str, kids: Iterable[Any]) -> Any:
    """Flattened, constant-folded n-ary and/or."""
    absorbing = ("const", op == "or")
    neutral = ("const", op == "and")
    out: set[Any] = set()
    for k in kids:
        if k == absorbing:
            return absorbing
        if k == neutral:
            continue
        if isinstance(k, tuple) and k and k[0] == op:
            out |= set(k[1])
        else:
            out.add(k)
    if not out:
        return neutral
    if len(out) == 1:
        return next(iter(out))
    return (op, frozenset(out))


def _neg_atom(c: Any) -> Any:
    if isinstance(c, tuple) and c and c[0] == "not":
        return c[1]
    return ("not", c)


def _literal_members(e: ast.AST) -> frozenset[str] | None:
    if isinstance(e, (ast.Set, ast.Tuple, ast.List)):
        return frozenset(txt(x) for x in e.elts)
    if isinstance(e, ast.Call) and isinstance(e.func, ast.Name) and e.func.id in ("set", "frozenset", "tuple", "list") \
            and len(e.args) == 1 and not e.keywords:
        return _literal_members(e.args[0])
    return None


def _int_const(e: ast.AST) -> int | None:
    if isinstance(e, ast.Constant) and isinstance(e.value, int) and not isinstance(e.value, bool):
        return e.value
    return None


def _len_arg(e: ast.AST) -> ast.AST | None:
    if isinstance(e, ast.Call) and isinstance(e.func, ast.Name) and e.func.id == "len" and len(e.args) == 1 and not e.keywords:
        return e.args[0]
    return None


def _cmp(left: ast.AST, op: ast.cmpop, right: ast.AST, neg: bool) -> Any:
    # len(x) against an integer constant: emptiness
    for a, b, flip in ((left, right, False), (right, left, True)):
        la, k = _len_arg(a), _int_const(b)
        if la is not None and k is not None:
            o = type(op)
            if flip:
                o = {ast.Lt: ast.Gt, ast.Gt: ast.Lt, ast.LtE: ast.GtE, ast.GtE: ast.LtE}.get(o, o)
            nonempty = None
            if (o, k) in ((ast.Gt, 0), (ast.GtE, 1), (ast.NotEq, 0)):
                nonempty = True
            elif (o, k) in ((ast.Eq, 0), (ast.Lt, 1), (ast.LtE, 0)):
                nonempty = False
            if nonempty is not None:
                base = ("nonempty", txt(la))
                return base if nonempty != neg else ("not", base)
    a, b = txt(left), txt(right)
    if isinstance(op, (ast.Is, ast.IsNot)):
        return ("is" if isinstance(op, ast.Is) != neg else "isnot", frozenset((a, b)))
    if isinstance(op, (ast.Eq, ast.NotEq)):
        return ("==" if isinstance(op, ast.Eq) != neg else "!=", frozenset((a, b)))
    if isinstance(op, (ast.In, ast.NotIn)):
        members = _literal_members(right)
        return ("in" if isinstance(op, ast.In) != neg else "notin", a, members if members is not None else b)
    if isinstance(op, ast.Lt):
        base: Any = ("<", a, b)
    elif isinstance(op, ast.Gt):
        base = ("<", b, a)
    elif isinstance(op, ast.LtE):
        base = ("<=", a, b)
    elif isinstance(op, ast.GtE):
        base = ("<=", b, a)
    else:
        base = ("cmp", type(op).__name__, a, b)
    return ("not", base) if neg else base


def _plain_target(t: ast.AST) -> bool:
    """A binding target made of names only: `x`, `a, b`, `(a, (b, c))`."""
    if isinstance(t, ast.Name):
        return True
    return isinstance(t, (ast.Tuple, ast.List)) and bool(t.elts) and all(_plain_target(x) for x in t.elts)


def _destructure(target: ast.AST, item: ast.AST) -> dict[str, ast.AST] | None:
    """Names of `target` bound to the matching parts of the literal `item`; None if `item` is not a literal of
    the target's shape (or a name would be bound twice)."""
    if isinstance(target, ast.Name):
        return {target.id: item}
    if not (isinstance(target, (ast.Tuple, ast.List)) and isinstance(item, (ast.Tuple, ast.List))
            and len(target.elts) == len(item.elts) and not any(isinstance(x, ast.Starred) for x in item.elts)):
        return None
    out: dict[str, ast.AST] = {}
    for t, v in zip(target.elts, item.elts):
        sub = _destructure(t, v)
        if sub is None or set(sub) & set(out):
            return None
        out.update(sub)
    return out


def _literal_items(e: ast.AST, ordered: bool = False) -> list[ast.AST] | None:
    """The elements an iteration over `e` yields, if `e` is written out: a tuple / list / set display, a dict
    display (its keys; `.items()` pairs; `.values()`), `zip` of written-out sequences, or a `tuple` / `list` /
    `iter` / `set` / `frozenset` wrapper of one.  Only used for the truth value of all/any, where order and
    repetition do not matter; `ordered`: only displays whose written order is the iteration order."""
    if isinstance(e, (ast.Tuple, ast.List)) or (isinstance(e, ast.Set) and not ordered):
        return None if any(isinstance(x, ast.Starred) for x in e.elts) else list(e.elts)
    d = e if isinstance(e, ast.Dict) else None
    view = "keys"
    if isinstance(e, ast.Call) and not e.keywords and not e.args and isinstance(e.func, ast.Attribute) and isinstance(e.func.value, ast.Dict):
        d, view = e.func.value, e.func.attr
    if d is not None:
        # (a repeated key keeps its first position and its last value: not read)
        if any(k is None for k in d.keys) or len({txt(k) for k in d.keys}) != len(d.keys):
            return None
        if view == "items":
            return [ast.Tuple(elts=[k, v], ctx=ast.Load()) for k, v in zip(d.keys, d.values)]  # type: ignore[list-item]
        return list(d.keys) if view == "keys" else list(d.values) if view == "values" else None  # type: ignore[arg-type]
    if isinstance(e, ast.Call) and not e.keywords and isinstance(e.func, ast.Name):
        f = e.func.id
        if f in ("tuple", "list", "iter") and len(e.args) == 1:
            return _literal_items(e.args[0], ordered)
        if f in ("set", "frozenset") and len(e.args) == 1 and not ordered:
            return _literal_items(e.args[0])
        if f == "zip" and e.args:
            cols = [_literal_items(a, ordered=True) for a in e.args]
            if any(c is None for c in cols):
                return None
            n = min(len(c) for c in cols)  # type: ignore[arg-type]
            return [ast.Tuple(elts=[c[i] for c in cols], ctx=ast.Load()) for i in range(n)]  # type: ignore[index]
    return None


def bcanon(expr: ast.AST, neg: bool = False, depth: int = 0) -> Any:
    """Canonical form of `expr` read as a truth value (two-valued logic; order comparisons are not
    complemented, see `totalise`)."""
    if isinstance(expr, ast.BoolOp):
        is_and = isinstance(expr.op, ast.And) != neg
        return _mk("and" if is_and else "or", [bcanon(v, neg, depth) for v in expr.values])
    if isinstance(expr, ast.UnaryOp) and isinstance(expr.op, ast.Not):
        return bcanon(expr.operand, not neg, depth)
    if isinstance(expr, ast.IfExp):
        t, nt = bcanon(expr.test, False, depth), bcanon(expr.test, True, depth)
        a, b = bcanon(expr.body, neg, depth), bcanon(expr.orelse, neg, depth)
        # `True if t else b` == t or b, `a if t else False` == t and a, ... (so early `return True/False`
        # guards read like the and/or chain they abbreviate)
        if a == ("const", True):
            return _mk("or", [t, b])
        if a == ("const", False):
            return _mk("and", [nt, b])
        if b == ("const", True):
            return _mk("or", [nt, a])
        if b == ("const", False):
            return _mk("and", [t, a])
        return _mk("or", [_mk("and", [t, a]), _mk("and", [nt, b])])
    if isinstance(expr, ast.Compare) and len(expr.ops) == 1 and (isinstance(expr.left, ast.IfExp) or isinstance(expr.comparators[0], ast.IfExp)):
        # `(a if t else b) is None`  ==  `(a is None) if t else (b is None)`
        side = expr.left if isinstance(expr.left, ast.IfExp) else expr.comparators[0]
        def cmp_with(v: ast.AST) -> ast.AST:
            return ast.Compare(left=v, ops=expr.ops, comparators=expr.comparators) if side is expr.left \
                else ast.Compare(left=expr.left, ops=expr.ops, comparators=[v])
        return bcanon(ast.IfExp(test=side.test, body=cmp_with(side.body), orelse=cmp_with(side.orelse)), neg, depth)
    if isinstance(expr, ast.Compare) and len(expr.ops) == 1 and isinstance(expr.ops[0], (ast.Is, ast.IsNot, ast.Eq, ast.NotEq)) \
            and txt(expr.left) == txt(expr.comparators[0]) and isinstance(expr.left, (ast.Constant, ast.Name)):
        return ("const", isinstance(expr.ops[0], (ast.Is, ast.Eq)) != neg)
    if isinstance(expr, ast.Compare):
        parts = []
        left = expr.left
        for op, right in zip(expr.ops, expr.comparators):
            parts.append(_cmp(left, op, right, neg))
            left = right
        return _mk("or" if neg else "and", parts)
    if isinstance(expr, ast.Constant) and isinstance(expr.value, bool):
        return ("const", expr.value != neg)
    if isinstance(expr, ast.Call) and isinstance(expr.func, ast.Name) and not expr.keywords and len(expr.args) == 1:
        if expr.func.id == "bool":
            return bcanon(expr.args[0], neg, depth)
        if expr.func.id in ("all", "any") and isinstance(expr.args[0], (ast.GeneratorExp, ast.ListComp, ast.SetComp)) \
                and len(expr.args[0].generators) == 1 and not expr.args[0].generators[0].is_async \
                and _plain_target(expr.args[0].generators[0].target):
            comp = expr.args[0]
            g = comp.generators[0]
            items = _literal_items(g.iter)
            envs = [_destructure(g.target, item) for item in items] if items is not None else [None]
            if all(env is not None for env in envs):
                # a quantifier over a literal collection is the and/or of its instances (the target may be a
                # tuple of names bound to the components of literal tuples: a table of (leaf, meter) predicate pairs)
                is_all = (expr.func.id == "all") != neg
                insts = []
                for env in envs:
                    parts = [bcanon(beta(subst(c, env)), is_all, depth) for c in g.ifs] + [bcanon(beta(subst(comp.elt, env)), neg, depth)]  # type: ignore[arg-type]
                    insts.append(_mk("or" if is_all else "and", parts))
                return _mk("and" if is_all else "or", insts)
            if not isinstance(g.target, ast.Name):
                base = ("truthy", txt(expr))
                return ("not", base) if neg else base
            var = f"?{depth}"
            ren = {g.target.id: var}  # type: ignore[union-attr]
            is_all = (expr.func.id == "all") != neg
            elt = bcanon(rename(comp.elt, ren), neg, depth + 1)
            # all(P for x in S if Q) == for all x in S: not Q or P;  any(...) == exists x in S: Q and P
            guards = [bcanon(rename(c, ren), is_all, depth + 1) for c in g.ifs]
            body = _mk("or" if is_all else "and", guards + [elt])
            return ("all" if is_all else "any", txt(g.iter), body)
    base = ("truthy", txt(expr))
    return ("not", base) if neg else base


def totalise(c: Any) -> Any:
    """For totally ordered operands (ints): `not a < b` == `b <= a`."""
    if isinstance(c, tuple) and c and c[0] == "not":
        inner = c[1]
        if isinstance(inner, tuple) and inner[0] == "<":
            return ("<=", inner[2], inner[1])
        if isinstance(inner, tuple) and inner[0] == "<=":
            return ("<", inner[2], inner[1])
        return ("not", totalise(inner))
    if isinstance(c, tuple) and c and c[0] in ("and", "or"):
        return (c[0], frozenset(totalise(k) for k in c[1]))
    return c


def facts(c: Any) -> set[Any]:
    """Atoms that certainly hold when the canonical form `c` holds."""
    if isinstance(c, tuple) and c and c[0] == "and":
        return set(c[1])
    return {c}


# ------------------------------------------------------------------ CFG conveniences
def normal(_a: int, _b: int, lab: str) -> bool:
    return not lab.startswith("exc:")


Edge = tuple[int, int, str]


def test_edges(cfg: CFG, within: set[int] | None = None) -> list[tuple[Edge, ast.AST, bool]]:
    """(edge, test expression, negated?) for the true/false edges of `if`/`while` tests."""
    out = []
    for n in cfg.nodes:
        if n.ast is None or n.kind not in ("test", "while") or (within is not None and n.id not in within):
            continue
        test = n.ast if n.kind == "test" else n.ast.test  # type: ignore[attr-defined]
        for m, lab in cfg.succ[n.id]:
            if lab in ("true", "false"):
                out.append(((n.id, m, lab), test, lab == "false"))
    # `match S: case V: ...` — a value (or or-of-values) pattern without guard is the test `S == V` / `S in (..)`
    subjects = {id(c): n.ast.subject for n in cfg.nodes if n.kind == "match" and n.ast is not None for c in n.ast.cases}  # type: ignore[attr-defined]
    for n in cfg.nodes:
        if n.kind != "case" or n.ast is None or (within is not None and n.id not in within) or id(n.ast) not in subjects:
            continue
        case = n.ast
        pat = case.pattern  # type: ignore[attr-defined]
        values = [pat] if isinstance(pat, ast.MatchValue) else (list(pat.patterns) if isinstance(pat, ast.MatchOr) else [])
        if case.guard is not None or not values or not all(isinstance(v, ast.MatchValue) for v in values):  # type: ignore[attr-defined]
            continue
        subj = subjects[id(case)]
        if len(values) == 1:
            test = ast.Compare(left=subj, ops=[ast.Eq()], comparators=[values[0].value])
        else:
            test = ast.Compare(left=subj, ops=[ast.In()], comparators=[ast.Tuple(elts=[v.value for v in values], ctx=ast.Load())])
        test = ast.fix_missing_locations(ast.copy_location(test, case.pattern))  # type: ignore[attr-defined]
        for m, lab in cfg.succ[n.id]:
            if lab in ("case", "nocase"):
                out.append(((n.id, m, lab), test, lab == "nocase"))
    return out


def edges_establishing(cfg: CFG, atom_ok: Callable[[Any], bool], prep: Callable[[ast.AST], ast.AST],
                       within: set[int] | None = None, total: bool = False) -> list[Edge]:
    """Edges of test nodes on which some atom accepted by `atom_ok` is known to hold."""
    out = []
    for edge, test, neg in test_edges(cfg, within):
        c = bcanon(prep(test), neg)
        if total:
            c = totalise(c)
        if any(atom_ok(a) for a in facts(c)):
            out.append(edge)
    return out


def path_avoiding_edges(cfg: CFG, srcs: Iterable[int], dsts: Iterable[int], edges: Iterable[Edge],
                        avoid: Iterable[int] = ()) -> bool:
    """Is there a normal path from one of `srcs` to one of `dsts` that takes none of `edges`?"""
    es = set(edges)
    dst = set(dsts)
    ok = lambda a, b, lab: normal(a, b, lab) and (a, b, lab) not in es  # noqa: E731
    for s in srcs:
        if s in dst:
            return True
        if cfg.path(s, dst, avoid=avoid, edge_ok=ok) is not None:
            return True
    return False


def emptiness(c: Any) -> tuple[str, bool] | None:
    """(collection text, is-empty?) if the canonical atom states the truthiness / non-emptiness of something."""
    empty = False
    if isinstance(c, tuple) and c and c[0] == "not":
        empty, c = True, c[1]
    if isinstance(c, tuple) and len(c) == 2 and c[0] in ("truthy", "nonempty") and isinstance(c[1], str):
        return c[1], empty
    return None


def size_subject(c: Any) -> str | None:
    """X if the canonical atom compares `len(X)` with something (any size test other than emptiness)."""
    if isinstance(c, tuple) and c and c[0] == "not":
        return size_subject(c[1])
    if not isinstance(c, tuple):
        return None
    for part in c[1:]:
        for x in (part if isinstance(part, frozenset) else [part]):
            if isinstance(x, str) and x.startswith("len(") and x.endswith(")") and x.count("(") == x.count(")"):
                return x[4:-1]
    return None


def literals(test: ast.AST, neg: bool = False) -> list[tuple[ast.AST, bool]]:
    """(expression, holds?) for the literals that certainly hold when `test` (negated if `neg`) holds."""
    if isinstance(test, ast.UnaryOp) and isinstance(test.op, ast.Not):
        return literals(test.operand, not neg)
    if isinstance(test, ast.BoolOp) and isinstance(test.op, ast.And) != neg:
        return [x for v in test.values for x in literals(v, neg)]
    return [(test, not neg)]


# ------------------------------------------------------------------ duplicate-free by construction
_SETLIKE = {"set", "frozenset", "Set", "AbstractSet", "MutableSet", "FrozenSet", "dict", "Dict", "Mapping", "MutableMapping",
            "KeysView", "ItemsView", "OrderedDict", "defaultdict"}


def ann_is_setlike(ann: ast.AST | None) -> bool:
    """The annotation declares a set or a mapping (possibly `| None`)."""
    if ann is None:
        return False
    if isinstance(ann, ast.Constant) and isinstance(ann.value, str):
        try:
            ann = ast.parse(ann.value, mode="eval").body
        except SyntaxError:
            return False
    if isinstance(ann, ast.BinOp) and isinstance(ann.op, ast.BitOr):
        parts = [p for p in (ann.left, ann.right) if not (isinstance(p, ast.Constant) and p.value is None)]
        return bool(parts) and all(ann_is_setlike(p) for p in parts)
    if isinstance(ann, ast.Subscript):
        base = ann.value
        if isinstance(base, (ast.Name, ast.Attribute)) and (base.id if isinstance(base, ast.Name) else base.attr) == "Optional":
            return ann_is_setlike(ann.slice)
        return ann_is_setlike(base)
    if isinstance(ann, ast.Name):
        return ann.id in _SETLIKE
    if isinstance(ann, ast.Attribute):
        return ann.attr in _SETLIKE
    return False


class DupFree:
    """Is a collection duplicate-free *by construction*?  True / False / None (cannot tell).

    Sets, dicts and their views are; so are order-only wrappers (`sorted`, `list`, `tuple`, `enumerate`,
    `filter`) and comprehensions with an injective element (`x` or `x.component_id`) over such a collection; a
    list is only if every element appended to it is the loop variable (or its id) of a loop over such a
    collection, once per iteration.  Locals are followed through all their bindings, parameters to the
    call sites in the same class (else their annotation), `self._x(...)` / module helpers into every return
    of the callee (overriding subclasses included), public methods and attributes by their declared type."""

    def __init__(self, prog: Program, public_api: dict[str, FuncInfo], receiver_is_api: Callable[[FuncInfo, ast.AST], bool]) -> None:
        self.prog = prog
        self.public_api = public_api            # method name -> declaration, for receivers accepted by receiver_is_api
        self.receiver_is_api = receiver_is_api
        self._ret: dict[str, bool | None] = {}
        self._active: set[tuple[int, str]] = set()
        self.followed: list[FuncInfo] = []      # helpers whose body decided a verdict

    # -- helpers
    @staticmethod
    def _all(vs: Iterable[bool | None]) -> bool | None:
        vs = list(vs)
        if any(v is False for v in vs):
            return False
        if not vs or any(v is None for v in vs):
            return None
        return True

    def returns(self, callee: FuncInfo, depth: int) -> bool | None:
        if callee.qual in self._ret:
            return self._ret[callee.qual]
        self._ret[callee.qual] = True if ann_is_setlike(callee.node.returns) else None  # recursion: the declared type
        rets = [n.value for s in callee.node.body for n in walk_no_nested(s) if isinstance(n, ast.Return) and n.value is not None]
        verdict = self._all(self.of(callee, v, depth + 1) for v in rets) if rets and depth < 5 else None
        if rets and verdict is not None:
            if not any(f.qual == callee.qual for f in self.followed):
                self.followed.append(callee)
        if verdict is None and ann_is_setlike(callee.node.returns):
            verdict = True
        self._ret[callee.qual] = verdict
        return verdict

    def _class_of(self, fn: FuncInfo) -> Any:
        return fn.cls if fn.cls is not None else (fn.outer.cls if fn.outer is not None else None)

    def _param(self, fn: FuncInfo, name: str, depth: int) -> bool | None:
        cls = self._class_of(fn)
        a = fn.node.args
        arg = next((x for x in a.posonlyargs + a.args + a.kwonlyargs if x.arg == name), None)
        verdicts: list[bool | None] = []
        if cls is not None and fn.outer is None and depth < 5:
            ps = _params_of(fn.node)[1:]
            for c in [cls] + self.prog.subclasses(cls):
                for m in c.methods.values():
                    for n in ast.walk(m.node):
                        if isinstance(n, ast.Call) and isinstance(n.func, ast.Attribute) and n.func.attr == fn.name \
                                and isinstance(n.func.value, ast.Name) and n.func.value.id in ("self", "cls"):
                            args = call_args(n, ps)
                            if args is not None and name in args:
                                verdicts.append(self.of(m, args[name], depth + 1))
        if verdicts:
            return self._all(verdicts)
        return True if (arg is not None and ann_is_setlike(arg.annotation)) else None

    def _name(self, fn: FuncInfo, name: str, depth: int) -> bool | None:
        key = (id(fn.node), name)
        if key in self._active:
            return True  # `x = x.union(...)`: inductively, x is what its other bindings make it
        self._active.add(key)
        try:
            return self._name1(fn, name, depth)
        finally:
            self._active.discard(key)

    def _name1(self, fn: FuncInfo, name: str, depth: int) -> bool | None:
        if name in _params_of(fn.node) and not any(
                isinstance(n, ast.Name) and n.id == name and isinstance(n.ctx, ast.Store) for n in ast.walk(fn.node)):
            return self._param(fn, name, depth)
        values: list[ast.AST] = []
        verdicts: list[bool | None] = []
        parents = None
        for s in fn.node.body:
            for n in walk_no_nested(s):
                if isinstance(n, ast.Assign) and any(isinstance(t, ast.Name) and t.id == name for t in n.targets):
                    values.append(n.value)
                elif isinstance(n, ast.AnnAssign) and isinstance(n.target, ast.Name) and n.target.id == name and n.value is not None:
                    values.append(n.value)
                elif isinstance(n, ast.AugAssign) and isinstance(n.target, ast.Name) and n.target.id == name:
                    if not isinstance(n.op, (ast.BitOr, ast.BitAnd, ast.Sub, ast.BitXor)):
                        return False
                elif isinstance(n, (ast.For, ast.comprehension, ast.withitem, ast.NamedExpr)) and any(
                        isinstance(t, ast.Name) and t.id == name and isinstance(t.ctx, ast.Store)
                        for t in ast.walk(n.target if not isinstance(n, ast.withitem) else (n.optional_vars or ast.Constant(None)))):
                    if not isinstance(n, ast.comprehension):
                        return None  # bound by something this analysis does not follow
                elif isinstance(n, ast.Call) and isinstance(n.func, ast.Attribute) and isinstance(n.func.value, ast.Name) \
                        and n.func.value.id == name and n.func.attr in ("append", "extend", "insert"):
                    if n.func.attr != "append" or len(n.args) != 1:
                        return False
                    if parents is None:
                        parents = {c: p for p in ast.walk(fn.node) for c in ast.iter_child_nodes(p)}
                    loop = parents.get(n)
                    while loop is not None and not isinstance(loop, (ast.For, ast.While, ast.AsyncFor)):
                        loop = parents.get(loop)
                    defs = single_defs(fn.node)
                    v = txt(deref(n.args[0], defs))
                    if not (isinstance(loop, ast.For) and isinstance(loop.target, ast.Name)
                            and v in (loop.target.id, f"{loop.target.id}.component_id")):
                        return False  # not the loop variable itself: a many-to-one map may repeat elements
                    verdicts.append(self.of(fn, loop.iter, depth + 1))
        if not values:
            return None
        for v in values:
            if isinstance(v, ast.List) and not v.elts or (isinstance(v, ast.Call) and txt(v) == "list()"):
                verdicts.append(True)  # an empty list: decided by what is appended
            else:
                verdicts.append(self.of(fn, v, depth + 1))
        return self._all(verdicts)

    def _attribute(self, fn: FuncInfo, e: ast.Attribute) -> bool | None:
        cls = self._class_of(fn)
        if cls is None or not (isinstance(e.value, ast.Attribute) and isinstance(e.value.value, ast.Name) and e.value.value.id == "self"):
            return None
        owners = self.prog.attr_classes(cls).get(e.value.attr, set())
        verdicts: list[bool | None] = []
        for c in self.prog.all_classes():
            if c.name in owners:
                for s in c.node.body:
                    if isinstance(s, ast.AnnAssign) and isinstance(s.target, ast.Name) and s.target.id == e.attr:
                        verdicts.append(True if ann_is_setlike(s.annotation) else None)
        return self._all(verdicts)

    # -- the judgement
    def of(self, fn: FuncInfo, e: ast.AST, depth: int = 0) -> bool | None:
        if depth > 8:
            return None
        if isinstance(e, (ast.Set, ast.SetComp, ast.Dict, ast.DictComp)):
            return True
        if isinstance(e, (ast.List, ast.Tuple)):
            return True if len(e.elts) <= 1 else False
        if isinstance(e, (ast.ListComp, ast.GeneratorExp)):
            if len(e.generators) != 1 or not isinstance(e.generators[0].target, ast.Name):
                return False
            t = e.generators[0].target.id
            if txt(e.elt) not in (t, f"{t}.component_id"):
                return False
            return self.of(fn, e.generators[0].iter, depth + 1)
        if isinstance(e, ast.IfExp):
            return self._all([self.of(fn, e.body, depth + 1), self.of(fn, e.orelse, depth + 1)])
        if isinstance(e, ast.BinOp):
            if isinstance(e.op, ast.BitOr):
                return self._all([self.of(fn, e.left, depth + 1), self.of(fn, e.right, depth + 1)])
            if isinstance(e.op, (ast.BitAnd, ast.Sub, ast.BitXor)):
                return self.of(fn, e.left, depth + 1)
            return False if isinstance(e.op, (ast.Add, ast.Mult)) else None
        if isinstance(e, ast.Name):
            return self._name(fn, e.id, depth)
        if isinstance(e, ast.Attribute):
            return self._attribute(fn, e)
        if isinstance(e, ast.Call):
            f = e.func
            if isinstance(f, ast.Name):
                if f.id in ("set", "frozenset", "dict"):
                    return True
                if f.id in ("sorted", "list", "tuple", "reversed", "enumerate", "iter") and e.args:
                    return self.of(fn, e.args[0], depth + 1)
                if f.id == "filter" and len(e.args) == 2:
                    return self.of(fn, e.args[1], depth + 1)
                if f.id == "map":
                    return False
                if f.id in fn.module.functions:
                    return self.returns(fn.module.functions[f.id], depth)
                return None
            if txt(f) in ("functools.reduce", "reduce") and len(e.args) == 3 and txt(e.args[2]) in ("set()", "frozenset()") \
                    and txt(e.args[0]) in ("set.union", "frozenset.union", "operator.or_", "or_"):
                return True  # folding set union from an empty set yields a set
            if isinstance(f, ast.Attribute):
                if f.attr in ("keys", "items") and not e.args and not e.keywords:
                    return True  # views of a mapping: its keys are unique whatever it was built from
                if f.attr == "values":
                    return False
                if f.attr in ("union", "intersection", "difference", "symmetric_difference", "copy"):
                    return self.of(fn, f.value, depth + 1)
                cls = self._class_of(fn)
                if isinstance(f.value, ast.Name) and f.value.id in ("self", "cls") and cls is not None:
                    m = self.prog.resolve_method(cls, f.attr)
                    impls = ([m] if m is not None else []) + [s.methods[f.attr] for s in self.prog.subclasses(cls) if f.attr in s.methods]
                    if not impls:
                        return None
                    if not f.attr.startswith("_"):
                        return self._all(True if ann_is_setlike(i.node.returns) else None for i in impls)
                    return self._all(self.returns(i, depth) for i in impls)
                if f.attr in self.public_api and self.receiver_is_api(fn, f.value):
                    return True if ann_is_setlike(self.public_api[f.attr].node.returns) else None
            return None
        return None


def simplify_under(expr: ast.AST, known: set[Any], also: Callable[[Any], bool] | None = None) -> ast.AST:
    """Resolve the conditional expressions in `expr` whose test (or its negation) follows from the canonical
    facts `known` (or accepted by `also`) (on a copy)."""
    def holds(fs: set[Any]) -> bool:
        return all(f in known or (also is not None and also(f)) for f in fs)

    class S(ast.NodeTransformer):
        def visit_IfExp(self, node: ast.IfExp) -> ast.AST:  # noqa: N802
            self.generic_visit(node)
            if holds(facts(bcanon(node.test))):
                return node.body
            if holds(facts(bcanon(node.test, True))):
                return node.orelse
            return node

    return S().visit(copy.deepcopy(expr))


# ------------------------------------------------------------------ block helpers that define a closure
def splice_closure_helpers(prog: Program, fn: FuncInfo, exclude: Iterable[str] = ()) -> FuncNode | None:
    """`x = self._h(a, ..)` / `return self._h(..)` / `self._h(..)` where the private, not overridden method `_h` is a
    straight block (no return of its own but one trailing `return E`) that *defines nested functions* (a named
    predicate handed to a graph search, ...): the block is executed in line, like engine.normalize.inline_helpers does
    for blocks without nested definitions (there a nested function's `return` counts as the helper's own).  The
    helper's locals and nested function names get a suffix; parameters are replaced by the arguments, which must
    be plain names / attribute chains / constants (so nothing is re-evaluated or reordered).  Returns the rewritten
    copy of `fn.node`, or None if there is nothing of that kind."""
    if fn.cls is None:
        return None
    excl = set(exclude) | set(ANCHOR_NAMES)
    root = copy.deepcopy(fn.node)
    changed = False

    def own_nodes(stmts: list[ast.stmt]) -> Iterable[ast.AST]:
        for st in stmts:
            if isinstance(st, _FuncTypes + (ast.ClassDef,)):
                continue
            yield from walk_no_nested(st)

    def target(call: ast.Call) -> FuncNode | None:
        f = call.func
        if not (isinstance(f, ast.Attribute) and isinstance(f.value, ast.Name) and f.value.id in ("self", "cls")
                and f.attr.startswith("_") and not f.attr.startswith("__") and f.attr not in excl):
            return None
        m = prog.resolve_method(fn.cls, f.attr)
        if m is None or m.cls is None or m.node is fn.node or any(f.attr in sub.methods for sub in prog.subclasses(fn.cls)):
            return None
        h = m.node
        body = h.body[1:] if h.body and isinstance(h.body[0], ast.Expr) and isinstance(h.body[0].value, ast.Constant) else h.body
        if isinstance(h, ast.AsyncFunctionDef) or h.decorator_list or not body or len(body) > 25 \
                or not any(isinstance(st, _FuncTypes) for st in body) or h.args.vararg or h.args.kwarg:
            return None
        rets = [n for n in own_nodes(body) if isinstance(n, ast.Return)]
        if len(rets) > 1 or (rets and rets[0] is not body[-1]) or any(isinstance(n, (ast.Yield, ast.YieldFrom, ast.Await, ast.Global, ast.Nonlocal))
                                                                       for st in body for n in ast.walk(st)):
            return None
        return h

    def rename_scoped(node: ast.AST, ren: dict[str, str]) -> None:
        """Rename the helper-level names in `node`, not entering nested scopes that bind the same name."""
        if isinstance(node, _FuncTypes + (ast.Lambda,)):
            a = node.args
            bound = {x.arg for x in a.posonlyargs + a.args + a.kwonlyargs} | ({a.vararg.arg} if a.vararg else set()) | ({a.kwarg.arg} if a.kwarg else set())
            if isinstance(node, _FuncTypes):
                bound |= {n.id for st in node.body for n in walk_no_nested(st) if isinstance(n, ast.Name) and isinstance(n.ctx, ast.Store)}
                if node.name in ren:
                    node.name = ren[node.name]
            for d in list(a.defaults) + [k for k in a.kw_defaults if k is not None]:
                rename_scoped(d, ren)
            inner = {k: v for k, v in ren.items() if k not in bound}
            for child in (node.body if isinstance(node.body, list) else [node.body]):
                rename_scoped(child, inner)
            return
        if isinstance(node, ast.Name) and node.id in ren:
            node.id = ren[node.id]
        for child in ast.iter_child_nodes(node):
            rename_scoped(child, ren)

    def subst_scoped(node: ast.AST, mapping: dict[str, ast.AST]) -> ast.AST:
        class Sub(ast.NodeTransformer):
            def __init__(self, m: dict[str, ast.AST]) -> None:
                self.m = m

            def visit_Name(self, n: ast.Name) -> ast.AST:  # noqa: N802
                if isinstance(n.ctx, ast.Load) and n.id in self.m:
                    return ast.copy_location(copy.deepcopy(self.m[n.id]), n)
                return n

            def _scope(self, n: Any) -> ast.AST:
                a = n.args
                bound = {x.arg for x in a.posonlyargs + a.args + a.kwonlyargs}
                inner = Sub({k: v for k, v in self.m.items() if k not in bound})
                if isinstance(n.body, list):
                    n.body = [inner.visit(st) for st in n.body]
                else:
                    n.body = inner.visit(n.body)
                return n

            visit_FunctionDef = visit_AsyncFunctionDef = visit_Lambda = _scope  # noqa: N815

        return Sub(mapping).visit(node)

    for _round in range(2):
        again = False
        for suite in [b for n in ast.walk(root) for fld in ("body", "orelse", "finalbody")
                      for b in [getattr(n, fld, None)] if isinstance(b, list) and b and isinstance(b[0], ast.stmt)]:
            i = 0
            while i < len(suite):
                st = suite[i]
                i += 1
                if not (isinstance(st, (ast.Expr, ast.Assign, ast.AnnAssign, ast.Return)) and isinstance(getattr(st, "value", None), ast.Call)):
                    continue
                call = st.value  # type: ignore[union-attr]
                h = target(call)
                if h is None:
                    continue
                ps = _params_of(h)[1:]
                binds = call_args(call, ps)
                if binds is None or set(binds) != set(ps) or not all(
                        dotted(v) is not None or isinstance(v, ast.Constant) for v in binds.values()):
                    continue
                hb = copy.deepcopy(h.body[1:] if isinstance(h.body[0], ast.Expr) and isinstance(h.body[0].value, ast.Constant) else h.body)
                own = {n.id for n in own_nodes(hb) if isinstance(n, ast.Name) and isinstance(n.ctx, (ast.Store, ast.Del))} \
                    | {x.name for x in hb if isinstance(x, _FuncTypes)}
                if own & set(ps):
                    continue  # the helper re-binds a parameter
                ren = {n: f"{n}__{h.name.strip('_')}" for n in own}
                for x in hb:
                    rename_scoped(x, ren)
                hb = [subst_scoped(x, dict(binds)) for x in hb]
                tail = hb[-1] if isinstance(hb[-1], ast.Return) else None
                stmts = hb[:-1] if tail is not None else hb
                if not isinstance(st, ast.Expr):
                    st2 = copy.copy(st)
                    st2.value = tail.value if tail is not None and tail.value is not None else ast.Constant(None)  # type: ignore[union-attr]
                    stmts = stmts + [st2]
                for x in stmts:
                    for n in ast.walk(x):
                        if not hasattr(n, "lineno") and isinstance(n, (ast.stmt, ast.expr)):
                            ast.copy_location(n, st)
                suite[i - 1:i] = stmts or [ast.copy_location(ast.Pass(), st)]
                i += len(stmts) - 1
                changed = again = True
        if not again:
            break
    if not changed:
        return None
    return ast.fix_missing_locations(root)


# ------------------------------------------------------------------ "A is a subset of B" as a canonical fact
_SET_COPIES = ("set", "frozenset", "sorted", "list", "tuple")
_QVAR = "QVAR_"


def _parse_text(text: Any) -> ast.AST | None:
    if not isinstance(text, str):
        return None
    try:
        # `?0`: the alpha-normalised quantifier variable; `s#7`: a freshened comprehension variable
        return ast.parse(text.replace("?", _QVAR).replace("#", "_FRESH_"), mode="eval").body
    except SyntaxError:
        return None


def _strip_copies(e: ast.AST) -> ast.AST:
    """`set(x)`, `frozenset(x)`, `sorted(x)`, ... -> x: same elements."""
    while isinstance(e, ast.Call) and isinstance(e.func, ast.Name) and e.func.id in _SET_COPIES and len(e.args) == 1 \
            and not e.keywords and not isinstance(e.args[0], (ast.GeneratorExp, ast.Starred)):
        e = e.args[0]
    return e


def _projection(e: ast.AST) -> tuple[ast.AST, str] | None:
    """`{v.attr for v in X}` / `set(v.attr for v in X)` / `[v.attr for v in X]`  ->  (X, attr)."""
    if isinstance(e, ast.Call) and isinstance(e.func, ast.Name) and e.func.id in _SET_COPIES and len(e.args) == 1 and not e.keywords \
            and isinstance(e.args[0], (ast.GeneratorExp, ast.ListComp, ast.SetComp)):
        e = e.args[0]
    if isinstance(e, (ast.SetComp, ast.ListComp, ast.GeneratorExp)) and len(e.generators) == 1:
        g = e.generators[0]
        if isinstance(g.target, ast.Name) and not g.ifs and not g.is_async and isinstance(e.elt, ast.Attribute) \
                and isinstance(e.elt.value, ast.Name) and e.elt.value.id == g.target.id:
            return g.iter, e.elt.attr
    return None


def subset_fact(atom: Any, is_sub: Callable[[str], bool], is_super: Callable[[str], bool],
                key_attrs: tuple[str, ...] = ("component_id",), expand: Callable[[ast.AST], ast.AST] | None = None) -> bool | None:
    """True / False if the canonical atom says that the collection accepted by `is_sub` is / is not contained in the
    one accepted by `is_super` (both given the text of an expression, copies such as `set(x)` peeled off); None if the
    atom says nothing of that kind.  Spellings read: `A.issubset(B)`, `B.issuperset(A)`, `A <= B`, `B >= A`,
    `all(a in B for a in A)`, `not any(a not in B for a in A)`, `not (A - B)`, `not A.difference(B)`,
    `len(A - B) == 0`, `A & B == A`, `A | B == B`; and the same over both sides projected on an attribute that
    identifies the element (`{a.component_id for a in A} <= {b.component_id for b in B}`,
    `all(a.component_id in {b.component_id for b in B} for a in A)`).  `expand` resolves what the caller knows to be
    a name for a collection built once and never changed (`ids = {c.component_id for c in B}`, `wanted = set(B)`)."""
    def ex(e: ast.AST) -> ast.AST:
        e = _strip_copies(e)
        return _strip_copies(expand(e)) if expand is not None else e

    def pair(a: ast.AST | None, b: ast.AST | None) -> bool:
        if a is None or b is None:
            return False
        a, b = ex(a), ex(b)
        if is_sub(txt(a)) and is_super(txt(b)):
            return True
        pa, pb = _projection(a), _projection(b)
        return pa is not None and pb is not None and pa[1] == pb[1] and pa[1] in key_attrs \
            and is_sub(txt(ex(pa[0]))) and is_super(txt(ex(pb[0])))

    def difference(e: ast.AST | None) -> tuple[ast.AST, ast.AST] | None:
        if isinstance(e, ast.BinOp) and isinstance(e.op, ast.Sub):
            return e.left, e.right
        if isinstance(e, ast.Call) and isinstance(e.func, ast.Attribute) and e.func.attr == "difference" and len(e.args) == 1 and not e.keywords:
            return e.func.value, e.args[0]
        return None

    if not isinstance(atom, tuple) or not atom:
        return None
    if atom[0] == "not" and len(atom) == 2:
        inner = subset_fact(atom[1], is_sub, is_super, key_attrs, expand)
        return None if inner is None else not inner
    if atom[0] in ("truthy", "nonempty") and len(atom) == 2:
        e = _parse_text(atom[1])
        if atom[0] == "truthy" and isinstance(e, ast.Call) and isinstance(e.func, ast.Attribute) and len(e.args) == 1 and not e.keywords:
            if e.func.attr == "issubset" and pair(e.func.value, e.args[0]):
                return True
            if e.func.attr == "issuperset" and pair(e.args[0], e.func.value):
                return True
        d = difference(e)
        if d is not None and pair(d[0], d[1]):
            return False  # something of A is left once B is taken away
        return None
    if atom[0] == "<=" and len(atom) == 3:
        return True if pair(_parse_text(atom[1]), _parse_text(atom[2])) else None
    if atom[0] in ("all", "any") and len(atom) == 3 and isinstance(atom[2], tuple) and len(atom[2]) == 3 \
            and atom[2][0] == ("in" if atom[0] == "all" else "notin") and isinstance(atom[2][2], str):
        member, coll, it = _parse_text(atom[2][1]), _parse_text(atom[2][2]), _parse_text(atom[1])
        if it is None or coll is None or member is None:
            return None
        ok = False
        if isinstance(member, ast.Name) and member.id.startswith(_QVAR):
            ok = pair(it, coll)
        elif isinstance(member, ast.Attribute) and isinstance(member.value, ast.Name) and member.value.id.startswith(_QVAR) \
                and member.attr in key_attrs:
            pb = _projection(ex(coll))
            ok = pb is not None and pb[1] == member.attr and is_sub(txt(ex(it))) and is_super(txt(ex(pb[0])))
        return (atom[0] == "all") if ok else None
    if atom[0] in ("==", "!=") and len(atom) == 2 and isinstance(atom[1], frozenset) and len(atom[1]) == 2:
        sides = [_parse_text(t) for t in atom[1]]
        if any(s is None for s in sides):
            return None
        for op_side, plain in (sides, sides[::-1]):
            if isinstance(op_side, ast.BinOp) and isinstance(op_side.op, (ast.BitAnd, ast.BitOr)):
                for a, b in ((op_side.left, op_side.right), (op_side.right, op_side.left)):
                    # A & B == A  /  A | B == B
                    same = txt(plain) == txt(a if isinstance(op_side.op, ast.BitAnd) else b)
                    if same and pair(a, b):
                        return atom[0] == "=="
        return None
    return None


# ------------------------------------------------------------------------------------------------
# per-iteration dataflow: where the value of an expression evaluated inside a loop iteration comes from.
# "Places" are dotted texts rooted at a local name (`ids`, `self._seen`); two places conflict when one is a
# component-wise prefix of the other.
MUTATORS = frozenset({"add", "update", "append", "extend", "insert", "remove", "discard", "pop", "popitem", "clear",
                      "setdefault", "sort", "reverse", "intersection_update", "difference_update",
                      "symmetric_difference_update", "appendleft", "extendleft", "__setitem__", "__delitem__"})
EAGER_CONSUMERS = frozenset({"set", "frozenset", "list", "tuple", "dict", "sorted", "sum", "any", "all", "max", "min", "len",
                             "next", "str", "repr"})


def dotted(e: ast.AST) -> str | None:
    parts: list[str] = []
    while isinstance(e, ast.Attribute):
        parts.append(e.attr)
        e = e.value
    if isinstance(e, ast.Name):
        parts.append(e.id)
        return ".".join(reversed(parts))
    return None


def places_conflict(a: str, b: str) -> bool:
    pa, pb = a.split("."), b.split(".")
    k = min(len(pa), len(pb))
    return pa[:k] == pb[:k]


def _target_names(t: ast.AST) -> set[str]:
    return {n.id for n in ast.walk(t) if isinstance(n, ast.Name)}


def places_read(e: ast.AST | None, bound: frozenset[str] = frozenset(), lazy_only: bool = False) -> set[str]:
    """Places an expression reads from its enclosing function scope (lambda parameters and comprehension
    variables are not).  `lazy_only`: only what a lambda / generator expression `e` reads when it is *run*
    (for a generator expression everything but the first iterable, which is evaluated where it is written)."""
    out: set[str] = set()

    def go(n: ast.AST | None, b: frozenset[str]) -> None:
        if n is None:
            return
        if isinstance(n, (ast.Name, ast.Attribute)):
            d = dotted(n)
            if d is not None:
                if d.split(".")[0] not in b and not isinstance(getattr(n, "ctx", None), (ast.Store, ast.Del)):
                    out.add(d)
                return
        if isinstance(n, ast.Lambda):
            for dflt in list(n.args.defaults) + [k for k in n.args.kw_defaults if k is not None]:
                go(dflt, b)
            go(n.body, b | frozenset(_params_of(n)))
            return
        if isinstance(n, _FuncTypes):
            inner = frozenset(_params_of(n)) | {x.id for s in n.body for x in ast.walk(s)
                                                if isinstance(x, ast.Name) and isinstance(x.ctx, ast.Store)}
            for s in n.body:
                go(s, b | inner)
            return
        if isinstance(n, (ast.ListComp, ast.SetComp, ast.GeneratorExp, ast.DictComp)):
            bb = b
            for g in n.generators:
                go(g.iter, bb)
                bb = bb | frozenset(_target_names(g.target))
                for i in g.ifs:
                    go(i, bb)
            if isinstance(n, ast.DictComp):
                go(n.key, bb)
                go(n.value, bb)
            else:
                go(n.elt, bb)
            return
        if isinstance(n, ast.NamedExpr):
            go(n.value, b)
            return
        for c in ast.iter_child_nodes(n):
            go(c, b)

    if lazy_only and isinstance(e, ast.GeneratorExp):
        g0 = e.generators[0]
        bb = bound | frozenset(_target_names(g0.target))
        res: set[str] = set()
        for i in g0.ifs:
            res |= places_read(i, bb)
        for g in e.generators[1:]:
            res |= places_read(g.iter, bb)
            bb = bb | frozenset(_target_names(g.target))
            for i in g.ifs:
                res |= places_read(i, bb)
        return res | places_read(e.elt, bb)
    if lazy_only and isinstance(e, ast.Lambda):
        return places_read(e.body, bound | frozenset(_params_of(e)))
    go(e, bound)
    return out


class Effect:
    """One write performed by a CFG node: `place` gets a new value computed from `deps`; `updates`: the old
    value of the place is part of the new one (augmented assignment, in-place mutation, item / attribute store)."""
    __slots__ = ("place", "updates", "deps", "node")

    def __init__(self, place: str, updates: bool, deps: list[ast.AST], node: ast.AST) -> None:
        self.place, self.updates, self.deps, self.node = place, updates, deps, node


def _target_effects(t: ast.AST, value: list[ast.AST], at: ast.AST, out: list[Effect]) -> None:
    if isinstance(t, (ast.Tuple, ast.List)):
        for x in t.elts:
            _target_effects(x, value, at, out)
    elif isinstance(t, ast.Starred):
        _target_effects(t.value, value, at, out)
    elif isinstance(t, ast.Name):
        out.append(Effect(t.id, False, value, at))
    elif isinstance(t, ast.Subscript):
        d = dotted(t.value)
        if d is not None:
            out.append(Effect(d, True, value + [t.slice], at))
    elif isinstance(t, ast.Attribute):
        d = dotted(t)
        if d is not None:
            out.append(Effect(d, False, value, at))


def node_effects(cfg: CFG, nid: int) -> list[Effect]:
    from ..engine.cfg import own_parts
    n = cfg.nodes[nid]
    out: list[Effect] = []
    a = n.ast
    if a is None or n.kind == "handler":
        if a is not None and getattr(a, "name", None):
            out.append(Effect(a.name, False, [], a))  # type: ignore[attr-defined]
        return out
    if n.kind == "for":
        _target_effects(a.target, [a.iter], a, out)  # type: ignore[attr-defined]
        parts: list[ast.AST] = [a.iter]  # type: ignore[attr-defined]
    elif n.kind == "with":
        if getattr(a, "optional_vars", None) is not None:
            _target_effects(a.optional_vars, [a.context_expr], a, out)  # type: ignore[attr-defined]
        parts = [a.context_expr]  # type: ignore[attr-defined]
    else:
        parts = list(own_parts(n))
    for part in parts:
        if isinstance(part, _FuncTypes + (ast.ClassDef,)):
            out.append(Effect(part.name, False, [part], part))
            continue
        for x in walk_no_nested(part):
            if isinstance(x, ast.Assign):
                for t in x.targets:
                    _target_effects(t, [x.value], x, out)
            elif isinstance(x, ast.AnnAssign) and x.value is not None:
                _target_effects(x.target, [x.value], x, out)
            elif isinstance(x, ast.AugAssign):
                d = dotted(x.target.value) if isinstance(x.target, ast.Subscript) else dotted(x.target)
                if d is not None:
                    out.append(Effect(d, True, [x.value] + ([x.target.slice] if isinstance(x.target, ast.Subscript) else []), x))
            elif isinstance(x, ast.Delete):
                for t in x.targets:
                    d = dotted(t.value) if isinstance(t, ast.Subscript) else dotted(t)
                    if d is not None:
                        out.append(Effect(d, isinstance(t, ast.Subscript), [], x))
            elif isinstance(x, ast.NamedExpr):
                out.append(Effect(x.target.id, False, [x.value], x))
            elif isinstance(x, ast.Call) and isinstance(x.func, ast.Attribute) and x.func.attr in MUTATORS:
                d = dotted(x.func.value)
                if d is not None:
                    out.append(Effect(d, True, list(x.args) + [k.value for k in x.keywords], x))
    return out


def name_aliases(fn: FuncNode) -> dict[str, set[str]]:
    """Locals that may name the same object because one was assigned the other (`a = b`), transitively."""
    parent: dict[str, str] = {}

    def find(x: str) -> str:
        while parent.setdefault(x, x) != x:
            parent[x] = parent[parent[x]]
            x = parent[x]
        return x

    for s in fn.body:
        for n in walk_no_nested(s):
            v = n.value if isinstance(n, (ast.Assign, ast.AnnAssign, ast.NamedExpr)) else None
            if isinstance(v, ast.Name):
                ts = n.targets if isinstance(n, ast.Assign) else [n.target]
                for t in ts:
                    if isinstance(t, ast.Name):
                        parent[find(t.id)] = find(v.id)
    groups: dict[str, set[str]] = {}
    for x in list(parent):
        groups.setdefault(find(x), set()).add(x)
    return {x: g for g in groups.values() for x in g}


class IterationSlice:
    """Backward slice of an expression evaluated at a node of a loop body, cut at the loop header.

      inputs    places whose value, on some path of the iteration, is the one they had when the iteration began
                (made before the loop or by an earlier iteration) — the loop's own targets are not inputs;
      reads     every place the value is computed from;
      exprs     the expressions that were followed (the sink and the right-hand sides of the writers);
      carried   inputs that the loop body writes (rebinds on some path, updates in place, stores into) — under one
                of their names: state that is carried from one iteration into the next and into the value."""

    def __init__(self, cfg: CFG, header: int, body: set[int], fresh: Iterable[str], aliases: dict[str, set[str]]) -> None:
        self.cfg, self.h, self.body = cfg, header, body
        self.fresh = set(fresh)
        self.aliases = aliases
        self.inputs: dict[str, None] = {}
        self.reads: set[str] = set()
        self.exprs: list[ast.AST] = []
        self.writers: list[Effect] = []
        self._fx: dict[int, list[Effect]] = {}
        self._seen: set[tuple[str, int]] = set()

    def effects(self, nid: int) -> list[Effect]:
        if nid not in self._fx:
            self._fx[nid] = node_effects(self.cfg, nid)
        return self._fx[nid]

    def follow(self, expr: ast.AST, at: int, bound: frozenset[str] = frozenset()) -> None:
        self.exprs.append(expr)
        for p in sorted(places_read(expr, bound)):
            self.reads.add(p)
            self._resolve(p, at)

    def nearest(self, place: str, at: int) -> tuple[list[tuple[int, Effect]], bool]:
        """The writes of `place` that can be the last ones before node `at` starts executing (within this
        iteration), and whether `at` can be reached from the loop header without a write that replaces it."""
        hits: list[tuple[int, Effect]] = []
        from_header = False
        stack = [p for p, _lab in self.cfg.pred[at]]
        seen: set[int] = set()
        while stack:
            p = stack.pop()
            if p in seen:
                continue
            seen.add(p)
            if p == self.h:
                from_header = True
                continue
            if p not in self.body:
                continue
            killed = False
            for e in self.effects(p):
                if places_conflict(e.place, place):
                    hits.append((p, e))
                    if not e.updates and len(e.place.split(".")) <= len(place.split(".")):
                        killed = True
            if not killed:
                stack.extend(q for q, _lab in self.cfg.pred[p])
        return hits, from_header

    def _resolve(self, place: str, at: int) -> None:
        """Follow the value `place` has when node `at` starts executing."""
        if (place, at) in self._seen:
            return
        self._seen.add((place, at))
        hits, from_header = self.nearest(place, at)
        if from_header and place.split(".")[0] not in self.fresh:
            self.inputs[place] = None
        for p, e in hits:
            self.writers.append(e)
            for d in e.deps:
                self.follow(d, p)

    def carried(self) -> list[tuple[str, Effect]]:
        out: list[tuple[str, Effect]] = []
        for place in self.inputs:
            root, _, rest = place.partition(".")
            names = [place] + [a + ("." + rest if rest else "") for a in sorted(self.aliases.get(root, ())) if a != root]
            for nid in sorted(self.body):
                for e in self.effects(nid):
                    # (under another name only a mutation reaches the input's object; rebinding the alias does not)
                    if places_conflict(e.place, place) or (e.updates and any(places_conflict(e.place, nm) for nm in names[1:])):
                        out.append((place, e))
        return out


# ------------------------------------------------------------------ a loop and the collection it walks
# A `for` statement makes ONE iterator when it is entered; every later step reads the live object.  Changing the
# size / order of that object between two steps is never "visit every element once": a list silently skips (or
# repeats) the element that slides under the cursor, a set / dict raises RuntimeError.
SHRINKERS = frozenset({"remove", "discard", "pop", "popitem", "popleft", "clear", "insert", "sort", "reverse",
                       "intersection_update", "difference_update", "symmetric_difference_update", "appendleft",
                       "extendleft", "rotate", "__delitem__"})
GROWERS = frozenset({"add", "update", "append", "extend", "setdefault", "__setitem__"})
LAZY_WRAPPERS = frozenset({"enumerate", "reversed", "iter", "zip", "filter", "map", "chain", "from_iterable", "islice",
                           "zip_longest", "starmap", "takewhile", "dropwhile", "accumulate", "pairwise", "cycle", "tee"})
VIEWS = frozenset({"items", "keys", "values", "__iter__"})


def walked_places(it: ast.AST) -> set[str]:
    """The places (`name`, `self.attr`) whose own object the iterator made from `it` steps through lazily:
    the collection itself, a dict view of it, a lazy wrapper (`enumerate`, `reversed`, `zip`, `filter`, `chain`, a
    generator expression, ...) around it.  A copy (`list(x)`, `sorted(x)`, `x[:]`, `x.copy()`, a list / set
    comprehension) walks a new object: nothing of it is returned."""
    out: set[str] = set()

    def go(e: ast.AST | None, depth: int = 0) -> None:
        if e is None or depth > 8:
            return
        d = dotted(e)
        if d is not None:
            out.add(d)
        elif isinstance(e, ast.Call):
            f = e.func
            if isinstance(f, ast.Attribute) and f.attr in VIEWS and not e.args:
                go(f.value, depth + 1)
            name = f.id if isinstance(f, ast.Name) else (f.attr if isinstance(f, ast.Attribute) else None)
            if name in LAZY_WRAPPERS:
                for a in e.args:
                    go(a.value if isinstance(a, ast.Starred) else a, depth + 1)
        elif isinstance(e, ast.GeneratorExp):
            for g in e.generators:
                go(g.iter, depth + 1)
        elif isinstance(e, ast.IfExp):
            go(e.body, depth + 1)
            go(e.orelse, depth + 1)
        elif isinstance(e, ast.BoolOp):
            for v in e.values:
                go(v, depth + 1)
        elif isinstance(e, ast.NamedExpr):
            out.add(e.target.id)
            go(e.value, depth + 1)

    go(it)
    return out


def place_aliases(fn: FuncNode) -> dict[str, set[str]]:
    """Places of `fn` that may name the same object because one was assigned the other (`a = b`, `a = self.x`,
    `a = b or c`, `a = b if t else c`), transitively and flow-insensitively."""
    parent: dict[str, str] = {}

    def find(x: str) -> str:
        while parent.setdefault(x, x) != x:
            parent[x] = parent[parent[x]]
            x = parent[x]
        return x

    def same(v: ast.AST | None) -> list[str]:
        if v is None:
            return []
        d = dotted(v)
        if d is not None:
            return [d]
        if isinstance(v, ast.IfExp):
            return same(v.body) + same(v.orelse)
        if isinstance(v, ast.BoolOp):
            return [x for k in v.values for x in same(k)]
        if isinstance(v, ast.NamedExpr):
            return [v.target.id] + same(v.value)
        return []

    for s in fn.body:
        for n in walk_no_nested(s):
            if isinstance(n, (ast.Assign, ast.AnnAssign, ast.NamedExpr)):
                ts = n.targets if isinstance(n, ast.Assign) else [n.target]
                for t in ts:
                    td = dotted(t)
                    if td is not None:
                        for v in same(n.value):
                            parent[find(td)] = find(v)
    groups: dict[str, set[str]] = {}
    for x in list(parent):
        groups.setdefault(find(x), set()).add(x)
    return {x: g for g in groups.values() for x in g}


def _is_list_value(v: ast.AST | None) -> bool:
    return isinstance(v, (ast.List, ast.ListComp)) or (
        isinstance(v, ast.Call) and isinstance(v.func, ast.Name) and v.func.id in ("list", "sorted"))


def resizes(x: ast.AST, places: set[str], lists: set[str]) -> tuple[str, str] | None:
    """(place, how) if the AST node `x` changes the number / order of the elements of the object at one of `places`
    in place.  Tail growth of a *list* (`append`, `extend`, `+=`) is not counted: the running loop then also
    visits the new elements, which is defined behaviour (work-list idiom).  Storing to an existing index / key
    (`x[k] = v`, `x[k] += v`) does not resize and is not counted either."""
    if isinstance(x, ast.Call) and isinstance(x.func, ast.Attribute):
        d = dotted(x.func.value)
        a = x.func.attr
        if d in places:
            if a in SHRINKERS:
                return d, f".{a}()"
            if a in GROWERS and not (d in lists and a in ("append", "extend")):
                return d, f".{a}()"
    elif isinstance(x, ast.AugAssign) and not isinstance(x.target, ast.Subscript):
        d = dotted(x.target)
        if d in places and not (d in lists and isinstance(x.op, ast.Add)):
            return d, f"`{txt(x)[:40]}` (in place)"  # type: ignore[return-value]
    elif isinstance(x, ast.Delete):
        for t in x.targets:
            if isinstance(t, ast.Subscript) and dotted(t.value) in places:
                return dotted(t.value), "`del ...[...]`"  # type: ignore[return-value]
    elif isinstance(x, ast.Assign):
        for t in x.targets:
            if isinstance(t, ast.Subscript) and isinstance(t.slice, ast.Slice) and dotted(t.value) in places:
                return dotted(t.value), "slice assignment"  # type: ignore[return-value]
    return None


class LoopMutation:
    """What a `for` loop of `fn` does to the collection it is walking (see `walked_places`): every statement in
    the loop body — also inside an inner loop / comprehension, under an alias, or in a private method / nested
    function / module function that is handed the collection (or reaches it as `self.<attr>` / a closure
    variable), followed up to `max_depth` calls — that resizes it in place."""

    def __init__(self, prog: Program, max_depth: int = 3) -> None:
        self.prog = prog
        self.max_depth = max_depth

    @staticmethod
    def _close(places: set[str], aliases: dict[str, set[str]]) -> set[str]:
        out = set(places)
        for p in places:
            out |= aliases.get(p, set())
        return out

    @staticmethod
    def _lists(fn: FuncNode, places: set[str], known: set[str] = frozenset()) -> set[str]:  # type: ignore[assignment]
        """Places every definition of which in `fn` makes a list (or copies the reference of one): tail growth
        of these is defined behaviour.  `known`: places that hold a list when `fn` is entered (parameters)."""
        vals: dict[str, list[ast.AST | None]] = {}
        stores: dict[str, int] = {}
        for s in fn.body:
            for n in walk_no_nested(s):
                if isinstance(n, (ast.Assign, ast.AnnAssign)):
                    for t in (n.targets if isinstance(n, ast.Assign) else [n.target]):
                        d = dotted(t)
                        if d in places:
                            vals.setdefault(d, []).append(n.value)  # type: ignore[arg-type]
                if isinstance(n, ast.AugAssign):
                    d = dotted(n.target)
                    if d is not None and d in places:
                        stores[d] = stores.get(d, 0) - 1  # (`+=` keeps a list a list; any other operator is reported)
                if isinstance(n, (ast.Name, ast.Attribute)) and isinstance(n.ctx, ast.Store):
                    d = dotted(n)
                    if d is not None and d in places:
                        stores[d] = stores.get(d, 0) + 1
        # (bound by something else than a plain assignment — loop / with / unpacking target: not known to be a list)
        cand = {d for d in places if (d in known or vals.get(d)) and stores.get(d, 0) == len(vals.get(d, []))}
        changed = True
        while changed:
            changed = False
            for d in sorted(cand):
                if not all(_is_list_value(v) or (v is not None and dotted(v) in cand) for v in vals.get(d, [])):
                    cand.discard(d)
                    changed = True
        return cand

    def _callees(self, fn: FuncInfo, call: ast.Call) -> list[FuncInfo]:
        out: list[FuncInfo] = []
        if isinstance(call.func, ast.Name):
            scope: FuncInfo | None = fn
            while scope is not None and not out:
                for n in ast.walk(scope.node):
                    if isinstance(n, _FuncTypes) and n.name == call.func.id and n is not scope.node:
                        out.append(FuncInfo(n.name, scope.module, n, None, scope))
                        break
                scope = scope.outer
        if not out:
            try:
                out = [c for c in self.prog.resolve_call(fn, call) if isinstance(c, FuncInfo)]
            except AnalysisError:
                out = []
        return out

    def in_nodes(self, fn: FuncInfo, stmts: Iterable[ast.AST], places: set[str], lists: set[str], depth: int = 0,
                 seen: frozenset[str] = frozenset()) -> list[tuple[ast.AST, str, str]]:
        """[(node of `fn` at which it happens, place, how)] for the statements `stmts` of `fn`."""
        hits: list[tuple[ast.AST, str, str]] = []
        for s in stmts:
            for x in walk_no_nested(s):
                r = resizes(x, places, lists)
                if r is not None:
                    hits.append((x, r[0], r[1]))
                if isinstance(x, ast.Call) and depth < self.max_depth:
                    for callee in self._callees(fn, x):
                        if callee.qual in seen:
                            continue
                        inner = self._handed_over(x, callee, places)
                        if not inner:
                            continue
                        closed = self._close(set(inner), place_aliases(callee.node))
                        sub = self.in_nodes(callee, callee.node.body, closed,
                                            self._lists(callee.node, closed, {q for q, p in inner.items() if p in lists}),
                                            depth + 1, seen | {callee.qual})
                        for _n, p, how in sub:
                            hits.append((x, p, f"{how} inside `{callee.name}` (called at line {getattr(x, 'lineno', 0)})"))
        return hits

    @staticmethod
    def _handed_over(call: ast.Call, callee: FuncInfo, places: set[str]) -> dict[str, str]:
        """name under which the callee sees an object at one of `places` -> that place in the caller."""
        out: dict[str, str] = {}
        params = callee.params
        if callee.cls is not None and callee.outer is None and isinstance(call.func, ast.Attribute) and params:
            if dotted(call.func.value) == "self":
                out.update({p: p for p in places if p.startswith("self.")})
            params = params[1:]
        args = call_args(call, params)
        if args is not None:
            for q, a in args.items():
                d = dotted(a)
                if d in places:
                    out[q] = d  # type: ignore[assignment]
        if callee.outer is not None:
            # a nested function reads the enclosing function's variables unless it binds the name itself
            own = set(callee.params) | {n.id for s in callee.node.body for n in walk_no_nested(s)
                                        if isinstance(n, ast.Name) and isinstance(n.ctx, ast.Store)}
            own -= {nm for s in callee.node.body for n in walk_no_nested(s) if isinstance(n, ast.Nonlocal) for nm in n.names}
            out.update({p: p for p in places if p.split(".")[0] not in own and p not in out})
        return out

    def of_loop(self, fn: FuncInfo, loop: ast.For | ast.AsyncFor, cfg: CFG) -> tuple[set[str], list[tuple[ast.AST, str, str]]]:
        """(the places walked, the resizing statements after which the same iterator is stepped again)."""
        walked = walked_places(loop.iter)
        if not walked:
            return walked, []
        places = self._close(walked, place_aliases(fn.node))
        hits = self.in_nodes(fn, loop.body, places, self._lists(fn.node, places))
        hs = cfg.nodes_of(loop)
        if not hits or not hs:
            return walked, hits
        live: list[tuple[ast.AST, str, str]] = []
        for h in hs:
            back = {n for n, t in cfg.back_edges if t == h}
            inside = cfg.co_reachable(back, avoid=[h], edge_ok=lambda a, b, lab: normal(a, b, lab))
            for x, p, how in hits:
                at = set(cfg.nodes_of(x)) | set(cfg.node_containing(x))
                # (a node that cannot be located is kept: fail towards the report)
                if (not at or at & inside) and not any(x is y for y, _p, _h in live):
                    live.append((x, p, how))
        return walked, live
