"""C17 helpers: aggregation expressions read up to behaviour-preserving surface differences.

Small facilities the engine does not have, all analysis-only and purely syntactic on expressions in
which the symbolic walker (engine/sympath) has already substituted every local:

  prepared(prog, fn)    engine/normalize.inline_helpers, plus (a) calls of straight-line private helpers
                        (`x = …; return e`) replaced by `e` wherever they stand, e.g. inside a
                        comprehension (inline_straightline), and (b) calls of block-shaped helpers that
                        stand inside a larger expression hoisted in front of their statement so that
                        the statement-level splicing applies (hoist_block_helpers);

  elem_of(e)            the expression denoting a *generic element* of the iterable expression `e`:
                        generator / list comprehensions (any number of generators), `map(lambda…)`,
                        `list/tuple/iter/sorted(…)` wrappers and `is not None` filters are looked
                        through and the bound variables are substituted away, so the result does not
                        depend on the names of comprehension variables, on tuple-unpacking vs
                        indexing, or on a helper the comprehension was extracted into.  A root iterable
                        `X` contributes the symbol `<elem of X>`.  Deduplicating containers (sets) and
                        filters other than None-filters are never looked through.
  fold_loops(fn, e, g)  `acc = 0; for T in IT: …; acc += inc` is read as `sum(inc for T in IT)`:
                        the placeholders `<acc@loopN>` the symbolic walker leaves for names bound in
                        a loop are replaced by that sum (initial value added unless it is zero), for
                        additive accumulators: every pass of the body either leaves the name alone or
                        re-binds it to itself + one and the same increment.  The conditions of the
                        adding passes (the negation of a `continue` guard, an enclosing `if`) are
                        handed back in `g` for the caller to judge; without `g` only unguarded
                        accumulators are folded.
  project_records(e, …) what a parametrised helper leaves behind once it is spliced in is evaluated on literals:
                        `(lambda b: b.f)(x)` -> `x.f`, `attrgetter("f")(x)` / `getattr(x, "f")` -> `x.f`, strings built
                        from literals (f-string, +, %, .format) and `{…}[literal]` table look-ups are folded, so
                        four look-alike aggregates merged into one closure `total(pick, field)` read like the originals.
  agg_term(e, side)     normal form of an aggregate over battery groups:
                           ('sum_g', op, parts)   Σ_g op(part, part)      part = ('leaf', (kind, field))
                                                                                | ('sum_i', (kind, field))
                           (op, parts)            op(Σ_g leaf, Σ_all leaf) part = ('sum_gleaf', …) | ('sum_all', …)
                           ('other', text)
                        where the leaves are recognised by the `Side` (which data object they read),
                        not by variable names.
"""
from __future__ import annotations

import ast
import copy
import re
from dataclasses import dataclass, field
from typing import Any, Callable

from ..engine.normalize import ANCHOR_NAMES, _bind, _helper_target, _simple_helper, _suite_lists, inline_helpers
from ..engine.report import AnalysisError
from ..engine.resolver import FuncInfo, FuncNode, Program, algebraic_view
from ..engine.sympath import Path, SymUnsupported, _Subst, follower, sym_block, sym_paths
from ..engine.util import canon, u

FIELDS = {"inclusion_lower": "il", "exclusion_lower": "el", "exclusion_upper": "eu", "inclusion_upper": "iu"}
GROUP = "<g>"


# --------------------------------------------------------------------------------------------- basics
def name(text: str) -> ast.Name:
    return ast.Name(id=text, ctx=ast.Load())


def subst(e: ast.AST, env: dict[str, ast.AST]) -> ast.AST:
    e = copy.deepcopy(e)
    return _Subst(env).visit(e) if env else e


def is_name(e: ast.AST | None, ident: str) -> bool:
    return isinstance(e, ast.Name) and e.id == ident


def simple_call(e: ast.AST, names: tuple[str, ...], nargs: int | None = None) -> list[ast.AST] | None:
    """positional arguments of `f(...)` for a plain-named f in `names` (no keywords / stars)."""
    if isinstance(e, ast.Call) and isinstance(e.func, ast.Name) and e.func.id in names and not e.keywords \
            and not any(isinstance(a, ast.Starred) for a in e.args) and (nargs is None or len(e.args) == nargs):
        return list(e.args)
    return None


def strip_doc(body: list[ast.stmt]) -> list[ast.stmt]:
    if body and isinstance(body[0], ast.Expr) and isinstance(body[0].value, ast.Constant) \
            and isinstance(body[0].value.value, str):
        return body[1:]
    return body


def record_fields(prog: Program, module: str, cls: str) -> list[str]:
    """Field names of a dataclass / NamedTuple in declaration order."""
    ci = prog.cls(f"{module}:{cls}")
    out: list[str] = []
    for c in reversed(prog.mro(ci)):                  # inherited dataclass fields come first
        out += [s.target.id for s in c.node.body if isinstance(s, ast.AnnAssign) and isinstance(s.target, ast.Name)
                and s.target.id not in out]
    if not out:
        raise AnalysisError(f"{ci.qual}: no declared fields")
    return out


def prepared(prog: Program, fn: FuncInfo, fold_lists: bool = True) -> FuncNode:
    """Copy of the function with its simple private helpers (methods, module functions, closures) spliced in.
    `fold_lists=False` leaves lists filled in a loop to the caller (loop_sums reads them with helpers followed)."""
    node = inline_straightline(prog, fn, inline_helpers(prog, fn))
    if hoist_block_helpers(prog, fn, node):
        node = inline_straightline(prog, fn, inline_helpers(prog, fn, node=node))
    algebraic_view(node)      # a reduction handed to a helper as a parameter (`reduce=math.fsum`) is a call only now
    dewalrus_comprehensions(node)
    # fold_lists=False: only the top-level loops are left to the caller; a list filled by a loop standing *inside* one
    # (a list-building closure the engine spliced into the body of the loop over the groups) is read here
    fold_list_loops(node, nested_only=not fold_lists)
    fold_sum_loops(node)
    return node


def dewalrus_comprehensions(node: ast.AST) -> None:
    """`[b for c in ids if (b := f(c)) is not None]` -> `[f(c) for c in ids if f(c) is not None]`: a walrus in
    a comprehension condition binds per element, so the name is replaced by its value in the later
    conditions, the later generators and the element expression (analysis-only: the call is written
    twice, it is evaluated once).  In place."""
    class T(ast.NodeTransformer):
        def comp(self, n: Any) -> ast.AST:
            self.generic_visit(n)
            if not any(isinstance(w, ast.NamedExpr) for g in n.generators for c in g.ifs for w in ast.walk(c)):
                return n
            env: dict[str, ast.AST] = {}
            for g in n.generators:
                g.iter = subst(g.iter, env)
                conds = []
                for c in g.ifs:
                    c = subst(c, env)
                    while True:
                        ws = [w for w in ast.walk(c) if isinstance(w, ast.NamedExpr) and isinstance(w.target, ast.Name)
                              and not any(isinstance(m, ast.NamedExpr) for m in ast.walk(w.value))]
                        if not ws:
                            break
                        env[ws[0].target.id] = ws[0].value
                        c = _replace(c, ws[0], copy.deepcopy(ws[0].value))
                    conds.append(c)
                g.ifs = conds
            if isinstance(n, ast.DictComp):
                n.key, n.value = subst(n.key, env), subst(n.value, env)
            else:
                n.elt = subst(n.elt, env)
            return n
        visit_ListComp = visit_GeneratorExp = visit_SetComp = visit_DictComp = comp  # noqa: N815
    T().visit(node)
    ast.fix_missing_locations(node)


def path_follower(prog: Program, fn: FuncInfo, stop: tuple[str, ...] = ()) -> Any:
    """`follow` callback for engine/sympath: private helpers (methods, module functions) called on a path
    are executed in line, on copies in which list-accumulation loops are read as comprehensions
    (fold_list_loops) — helpers of any shape: several returns, tuple results, helpers calling helpers.
    Anchored names and the names in `stop` stay opaque calls."""
    base = follower(prog, fn, stop)
    cache: dict[int, Any] = {}

    def follow(call: ast.Call) -> Any:
        t = base(call)
        if t is None:
            return None
        if id(t) not in cache:
            c = copy.deepcopy(t)
            dewalrus_comprehensions(c)
            fold_list_loops(c)
            fold_sum_loops(c)
            cache[id(t)] = c
        return cache[id(t)]
    return follow


def _child_suites(s: ast.stmt) -> list[list[ast.stmt]]:
    """The statement lists directly owned by a compound statement."""
    out = [getattr(s, f) for f in ("body", "orelse", "finalbody") if isinstance(getattr(s, f, None), list)
           and getattr(s, f) and isinstance(getattr(s, f)[0], ast.stmt)]
    out += [h.body for h in getattr(s, "handlers", [])]
    out += [c.body for c in getattr(s, "cases", [])]
    return out


def _empty_list(v: ast.AST) -> bool:
    return isinstance(v, ast.List) and not v.elts or simple_call(v, ("list",), 0) is not None


def _zero(v: ast.AST) -> bool:
    return isinstance(v, ast.Constant) and isinstance(v.value, (int, float)) and not isinstance(v.value, bool) and v.value == 0


def _fresh_before(fn: FuncNode, stmt: ast.stmt, a: str, is_value: Callable[[ast.AST], bool]) -> bool:
    """`a` is bound to a fresh value (`is_value`: an empty list, a zero) by a statement of the suite holding
    `stmt` or of an enclosing suite, executed before `stmt`, with no other mention of `a` in between."""
    def is_init(s: ast.stmt) -> bool:
        return isinstance(s, (ast.Assign, ast.AnnAssign)) and s.value is not None \
            and is_name(s.targets[0] if isinstance(s, ast.Assign) else s.target, a) and is_value(s.value)

    def chain(suite: list[ast.stmt]) -> list[tuple[list[ast.stmt], int]] | None:
        """(suite, index) pairs from this suite down to the one holding `stmt`."""
        for k, s in enumerate(suite):
            if s is stmt:
                return [(suite, k)]
            for sub in _child_suites(s):
                if any(x is stmt for y in sub for x in ast.walk(y)):
                    inner = chain(sub)
                    if inner is not None:
                        return [(suite, k)] + inner
        return None

    for suite, k in reversed(chain(strip_doc(fn.body)) or []):     # innermost suite first
        for j in range(k - 1, -1, -1):
            if is_init(suite[j]):
                return True
            if any(is_name(n, a) for n in ast.walk(suite[j])):
                return False
    return False


def _appends_only(node: ast.AST) -> None:
    """`a += [x]`, `a = a + [x]`, `a.extend([x])` are `a.append(x)` (in place)."""
    class T(ast.NodeTransformer):
        def _one(self, v: ast.AST) -> ast.AST | None:
            return v.elts[0] if isinstance(v, (ast.List, ast.Tuple)) and len(v.elts) == 1 and not isinstance(v.elts[0], ast.Starred) else None

        def _app(self, at: ast.stmt, a: str, x: ast.AST) -> ast.stmt:
            return ast.copy_location(ast.Expr(value=ast.Call(func=ast.Attribute(value=name(a), attr="append", ctx=ast.Load()),
                                                             args=[x], keywords=[])), at)

        def visit_AugAssign(self, n: ast.AugAssign) -> ast.AST:  # noqa: N802
            x = self._one(n.value)
            if isinstance(n.op, ast.Add) and isinstance(n.target, ast.Name) and x is not None:
                return self._app(n, n.target.id, x)
            return n

        def visit_Assign(self, n: ast.Assign) -> ast.AST:  # noqa: N802
            if len(n.targets) == 1 and isinstance(n.targets[0], ast.Name) and isinstance(n.value, ast.BinOp) \
                    and isinstance(n.value.op, ast.Add) and is_name(n.value.left, n.targets[0].id):
                x = self._one(n.value.right)
                if x is not None:
                    return self._app(n, n.targets[0].id, x)
            return n

        def visit_Expr(self, n: ast.Expr) -> ast.AST:  # noqa: N802
            c = n.value
            if isinstance(c, ast.Call) and isinstance(c.func, ast.Attribute) and c.func.attr == "extend" \
                    and isinstance(c.func.value, ast.Name) and len(c.args) == 1 and not c.keywords:
                x = self._one(c.args[0])
                if x is not None:
                    return self._app(n, c.func.value.id, x)
            return n
    T().visit(node)
    ast.fix_missing_locations(node)


def fold_sum_loops(node: FuncNode) -> None:
    """`t = 0; for T in IT: …; t += inc` with EVERY pass of the body adding the same `inc` is read as
    `t = sum(inc for T in IT)`, bound right after the loop — for loops at any depth (an inverter sum written
    as a loop inside the loop over the groups).  Guarded accumulations (a pass that adds nothing) are left
    to fold_loops, whose caller judges the guards.  In place (analysis-only copy)."""
    for suite in reversed(list(_suite_lists(node))):      # innermost suites first
        i = 0
        while i < len(suite):
            st = suite[i]
            i += 1
            if not isinstance(st, ast.For) or st.orelse or getattr(st, "_sums_folded", False):
                continue
            st._sums_folded = True  # type: ignore[attr-defined]
            cands = sorted(_stored(st) - _stored(st.target))
            if not cands:
                continue
            try:
                passes = sym_block(st.body)
            except SymUnsupported:
                continue
            if any(status not in ("next", "continue", "raise") for _p, status in passes):
                continue
            live = [p for p, status in passes if status != "raise" and p.exit != "raise"]
            new: list[ast.stmt] = []
            for a in cands:
                incs = []
                for p in live:
                    v = p.env.get(a)
                    inc = None
                    if isinstance(v, ast.BinOp) and isinstance(v.op, ast.Add):
                        inc = v.right if is_name(v.left, a) else v.left if is_name(v.right, a) else None
                    if inc is None or any(is_name(n, a) for n in ast.walk(inc)):
                        incs = []
                        break
                    incs.append(inc)
                if not incs or len({u(x) for x in incs}) != 1 or not _fresh_before(node, st, a, _zero):
                    continue
                total = ast.Call(func=name("sum"), args=[ast.GeneratorExp(elt=copy.deepcopy(incs[0]), generators=[
                    ast.comprehension(target=copy.deepcopy(st.target), iter=copy.deepcopy(st.iter), ifs=[], is_async=0)])],
                    keywords=[])
                new.append(ast.copy_location(ast.Assign(targets=[ast.Name(id=a, ctx=ast.Store())], value=total), st))
            if new:
                suite[i:i] = new
                i += len(new)
    ast.fix_missing_locations(node)


def fold_list_loops(node: FuncNode, nested_only: bool = False) -> None:
    """`a = []; for T in IT: …; a.append(X)` is read as `a = [X for T in IT if <the pass appends>]`: the
    comprehension is bound to `a` right after the loop (the loop itself stays, it may do other things).
    `nested_only`: the loops of the function's own top-level suite are left alone.

    Done for a list that is initialised empty earlier in the same suite, is only touched by one
    `.append(X)` per pass of the loop, and when the passes that append are exactly those satisfying a
    conjunction of the loop body's conditions.  X has the loop body's locals substituted; a name the loop
    carries from one iteration to the next (a threaded timestamp) stays free in X, i.e. the reading is
    exact only for rules that do not look at such operands.  Works in place (analysis-only copy)."""
    _appends_only(node)
    for suite in reversed(list(_suite_lists(node))):      # innermost suites first
        if nested_only and suite is node.body:
            continue
        i = 0
        while i < len(suite):
            st = suite[i]
            i += 1
            if not isinstance(st, ast.For) or st.orelse or getattr(st, "_lists_folded", False):
                continue
            st._lists_folded = True  # type: ignore[attr-defined]

            def appends(c: ast.Call, a: str | None = None) -> bool:
                return isinstance(c.func, ast.Attribute) and c.func.attr == "append" and isinstance(c.func.value, ast.Name) \
                    and (a is None or c.func.value.id == a) and len(c.args) == 1 and not c.keywords
            names = sorted({c.func.value.id for n in ast.walk(st) if isinstance(n, ast.Call) and appends(n)  # type: ignore[attr-defined]
                            for c in [n]})
            if not names:
                continue
            try:
                passes = sym_block(st.body)
            except SymUnsupported:
                continue
            if any(status not in ("next", "continue", "raise") for _p, status in passes):
                continue
            live = [p for p, status in passes if status != "raise" and p.exit != "raise"]
            new: list[ast.stmt] = []
            for a in names:
                uses = [n for n in ast.walk(st) if is_name(n, a)]
                n_app = sum(1 for n in ast.walk(st) if isinstance(n, ast.Call) and appends(n, a))
                if a in _stored(st) or len(uses) != n_app or not _fresh_before(node, st, a, _empty_list):
                    continue
                adding, skipping, vals = [], [], []
                for p in live:
                    hits = [c.node.args[0] for c in p.calls(lambda c: appends(c, a))]
                    if len(hits) > 1:
                        vals = []
                        break
                    (adding if hits else skipping).append(p)
                    vals += hits
                if not vals or len({u(v) for v in vals}) != 1 or any(is_name(n, a) for n in ast.walk(vals[0])):
                    continue
                # the conjunction of conditions every appending pass shares, and that each skipping pass breaks
                common: dict[str, tuple[ast.AST, bool]] | None = None
                for p in adding:
                    mine = {u(t): (t, o) for _k, _ko, t, _ln, o in p.conds}
                    common = mine if common is None else {k: v for k, v in common.items() if k in mine and mine[k][1] == v[1]}
                common = common or {}
                if not all(any(u(t) in common and common[u(t)][1] != o for _k, _ko, t, _ln, o in p.conds) for p in skipping):
                    continue
                ifs = [copy.deepcopy(t) if o else ast.UnaryOp(op=ast.Not(), operand=copy.deepcopy(t)) for t, o in common.values()]
                comp = ast.ListComp(elt=copy.deepcopy(vals[0]), generators=[ast.comprehension(
                    target=copy.deepcopy(st.target), iter=copy.deepcopy(st.iter), ifs=ifs, is_async=0)])
                new.append(ast.copy_location(ast.Assign(targets=[ast.Name(id=a, ctx=ast.Store())], value=comp), st))
            if new:
                suite[i:i] = new
                i += len(new)
    ast.fix_missing_locations(node)


def hoist_block_helpers(prog: Program, fn: FuncInfo, node: FuncNode) -> bool:
    """`return F(a, self._h(x))` -> `__h0 = self._h(x); return F(a, __h0)` for calls of block-shaped simple
    private helpers standing inside a top-level statement's expression (outside comprehensions and
    lambdas), so that the statement-level splicing can then put the helper's body in front of the
    statement.  Analysis-only: the helper is pure as far as the aggregates read from it are concerned,
    its position among the other operands does not matter.  Works in place; True if anything moved."""
    nested = {n.name: n for n in ast.walk(node) if isinstance(n, (ast.FunctionDef, ast.AsyncFunctionDef)) and n is not node}
    moved = False
    body = node.body
    i = 0
    counter = 0
    while i < len(body):
        st = body[i]
        if not isinstance(st, (ast.Return, ast.Assign, ast.AnnAssign, ast.Expr)) or getattr(st, "value", None) is None:
            i += 1
            continue
        hits: list[ast.Call] = []

        def scan(e: ast.AST, top: bool) -> None:
            if isinstance(e, (ast.Lambda, ast.GeneratorExp, ast.ListComp, ast.SetComp, ast.DictComp, ast.Await)):
                return
            if isinstance(e, ast.Call) and not top:
                h = _helper_target(prog, fn, e, nested)
                if h is not None and h.name not in ANCHOR_NAMES and h is not node and h.name != fn.name \
                        and _simple_helper(h) == "block" and _bind(h, e) is not None:
                    hits.append(e)
                    return
            for c in ast.iter_child_nodes(e):
                scan(c, False)

        scan(st.value, True)  # type: ignore[arg-type]
        if not hits:
            i += 1
            continue
        pre: list[ast.stmt] = []
        repl: dict[int, ast.AST] = {}
        for c in hits:
            tmp = f"__h{counter}"
            counter += 1
            pre.append(ast.copy_location(ast.Assign(targets=[ast.Name(id=tmp, ctx=ast.Store())], value=c), st))
            repl[id(c)] = ast.copy_location(name(tmp), c)

        class T(ast.NodeTransformer):
            def visit_Call(self, n: ast.Call) -> ast.AST:  # noqa: N802
                return repl[id(n)] if id(n) in repl else self.generic_visit(n)
        st.value = T().visit(st.value)  # type: ignore[attr-defined]
        body[i:i] = pre
        i += len(pre) + 1
        moved = True
    if moved:
        ast.fix_missing_locations(node)
    return moved


def inline_straightline(prog: Program, fn: FuncInfo, node: FuncNode, depth: int = 2) -> FuncNode:
    """Calls of private helpers whose body is straight-line code ending in `return e` (locals, no
    branches, no writes, no loops) are replaced by `e` with locals and parameters substituted —
    wherever the call stands (inside a comprehension, an argument, …), which the statement-level
    splicing of engine/normalize cannot do.  Works in place on `node` (already a private copy)."""
    for _ in range(depth):
        nested = {n.name: n for n in ast.walk(node)
                  if isinstance(n, (ast.FunctionDef, ast.AsyncFunctionDef)) and n is not node}
        repl: dict[int, ast.AST] = {}
        for call in [n for n in ast.walk(node) if isinstance(n, ast.Call)]:
            h = _helper_target(prog, fn, call, nested)
            if h is None or h.name in ANCHOR_NAMES or h is node or isinstance(h, ast.AsyncFunctionDef) \
                    or h.name == fn.name:
                continue
            binds = _bind(h, call)
            if binds is None:
                continue
            try:
                paths = sym_paths(h)
            except SymUnsupported:
                continue
            if len(paths) != 1 or paths[0].exit != "return" or paths[0].ret is None \
                    or any(e.kind != "call" for e in paths[0].effects):
                continue
            repl[id(call)] = ast.copy_location(subst(paths[0].ret, binds), call)
        if not repl:
            break

        class T(ast.NodeTransformer):
            def visit_Call(self, n: ast.Call) -> ast.AST:  # noqa: N802
                if id(n) in repl:
                    return repl[id(n)]          # outermost first; inner helper calls are met next round
                return self.generic_visit(n)
        T().visit(node)
        ast.fix_missing_locations(node)
    return node


def bind_target(t: ast.AST, src: ast.AST) -> dict[str, ast.AST] | None:
    if isinstance(t, ast.Name):
        return {t.id: src}
    if isinstance(t, (ast.Tuple, ast.List)):
        out: dict[str, ast.AST] = {}
        for i, x in enumerate(t.elts):
            if isinstance(x, ast.Starred):
                return None
            sub = bind_target(x, ast.Subscript(value=copy.deepcopy(src), slice=ast.Constant(i), ctx=ast.Load()))
            if sub is None:
                return None
            out.update(sub)
        return out
    return None


def index_fields(e: ast.AST, owner: str, fields: list[str]) -> ast.AST:
    """`<owner>.<field>` -> `<owner>[i]` for the record symbol `owner` (NamedTuple access by name == by index)."""
    class T(ast.NodeTransformer):
        def visit_Attribute(self, node: ast.Attribute) -> ast.AST:  # noqa: N802
            self.generic_visit(node)
            if is_name(node.value, owner) and node.attr in fields:
                return ast.copy_location(
                    ast.Subscript(value=node.value, slice=ast.Constant(fields.index(node.attr)), ctx=ast.Load()), node)
            return node
    return T().visit(copy.deepcopy(e))


# --------------------------------------------------------------------------------------------- elements
def _none_filter(c: ast.AST) -> bool:
    k = canon(c)
    return isinstance(k, tuple) and len(k) == 2 and k[0] == "isnot" and "None" in k[1] and len(k[1]) == 2


def elem_of(e: ast.AST, roots: list[ast.AST] | None = None, root_symbol: str | None = None,
            norm: Callable[[ast.AST], ast.AST] | None = None, keep_order: bool = False) -> ast.AST | None:
    """Generic element of the iterable `e` (None: not an element-wise view of its roots).

    `roots` collects the root iterables (after `norm`) in binding order; the first root's element is
    named `root_symbol` when given, every other `<elem of TEXT>`.  With `keep_order` only views that keep
    the order of the root are looked through (no sorted / reversed)."""
    roots = roots if roots is not None else []
    args = simple_call(e, ("list", "tuple", "iter") if keep_order else ("list", "tuple", "iter", "reversed"), 1)
    if args is None and not keep_order and isinstance(e, ast.Call) and is_name(e.func, "sorted") and len(e.args) == 1 \
            and all(k.arg in ("key", "reverse") for k in e.keywords):
        args = list(e.args)
    if args is not None:
        return elem_of(args[0], roots, root_symbol, norm, keep_order)
    if isinstance(e, ast.Call) and is_name(e.func, "filter") and len(e.args) == 2 and not e.keywords:
        f = e.args[0]
        if isinstance(f, ast.Constant) and f.value is None:
            return elem_of(e.args[1], roots, root_symbol, norm, keep_order)
        if isinstance(f, ast.Lambda) and len(f.args.args) == 1 and _none_filter(f.body):
            return elem_of(e.args[1], roots, root_symbol, norm, keep_order)
        return None
    if isinstance(e, ast.Call) and is_name(e.func, "map") and len(e.args) == 2 and not e.keywords:
        f = e.args[0]
        src = elem_of(e.args[1], roots, root_symbol, norm, keep_order)
        if src is None:
            return None
        if isinstance(f, ast.Lambda):
            a = f.args
            if len(a.args) != 1 or a.posonlyargs or a.kwonlyargs or a.vararg or a.kwarg or a.defaults:
                return None
            return subst(f.body, {a.args[0].arg: src})
        if isinstance(f, (ast.Name, ast.Attribute, ast.Call)):     # a named function, or one built by a call (attrgetter(…))
            return ast.Call(func=copy.deepcopy(f), args=[src], keywords=[])
        return None
    if isinstance(e, (ast.GeneratorExp, ast.ListComp)):
        env: dict[str, ast.AST] = {}
        for g in e.generators:
            if g.is_async:
                return None
            src = elem_of(subst(g.iter, env), roots, root_symbol, norm, keep_order)
            if src is None:
                return None
            b = bind_target(g.target, src)
            if b is None:
                return None
            env.update(b)
            for c in g.ifs:
                c2 = subst(c, env)
                # `(name := expr) is not None`: the filter tests expr and the element may use name
                for w in [n for n in ast.walk(c2) if isinstance(n, ast.NamedExpr)]:
                    if not isinstance(w.target, ast.Name) or any(isinstance(n, ast.NamedExpr) for n in ast.walk(w.value)):
                        return None
                    env[w.target.id] = w.value
                    c2 = _replace(c2, w, w.value)
                if not _none_filter(c2):
                    return None
        return subst(e.elt, env)
    if isinstance(e, (ast.Constant, ast.Lambda)):
        return None
    # anything else (a name, an attribute, a call, a set / dict display or comprehension) is a root
    if norm is not None:
        e = norm(e)
    sym = root_symbol if root_symbol is not None and not roots else f"<elem of {u(e)}>"
    roots.append(e)
    return name(sym)


def _replace(root: ast.AST, old: ast.AST, new: ast.AST) -> ast.AST:
    """`root` with the node `old` (by identity) replaced by `new` (in place; returns the new root)."""
    if root is old:
        return new

    class T(ast.NodeTransformer):
        def visit(self, n: ast.AST) -> ast.AST:
            return new if n is old else super().visit(n)
    return T().visit(root)


def _const_str(e: ast.AST) -> str | None:
    return e.value if isinstance(e, ast.Constant) and isinstance(e.value, str) else None


def _beta(lam: ast.Lambda, call: ast.Call) -> ast.AST | None:
    """`(lambda a, b: body)(x, y)` -> body[a := x, b := y] for a lambda of plain positional parameters applied to as
    many plain positional arguments; None when a binder inside the body (a nested lambda, a comprehension variable, a
    walrus) could capture a name of an argument."""
    a = lam.args
    if a.kwonlyargs or a.vararg or a.kwarg or a.defaults or a.kw_defaults:
        return None
    params = [x.arg for x in a.posonlyargs + a.args]
    if call.keywords or len(call.args) != len(params) or any(isinstance(x, ast.Starred) for x in call.args):
        return None
    inner: set[str] = set()
    for n in ast.walk(lam.body):
        if isinstance(n, ast.Lambda):
            inner |= {x.arg for x in n.args.posonlyargs + n.args.args + n.args.kwonlyargs}
        elif isinstance(n, ast.comprehension):
            inner |= {t.id for t in ast.walk(n.target) if isinstance(t, ast.Name)}
        elif isinstance(n, ast.NamedExpr):
            inner |= {t.id for t in ast.walk(n.target) if isinstance(t, ast.Name)}
    free = {n.id for x in call.args for n in ast.walk(x) if isinstance(n, ast.Name)}
    if inner & (free | set(params)):
        return None
    return ast.copy_location(subst(lam.body, dict(zip(params, call.args))), call)


def project_records(e: ast.AST, records: dict[str, list[str]]) -> ast.AST:
    """`Rec(a=x, b=y).a` -> `x` for the record constructors in `records` (class name -> field order):
    reading a field of a freshly built record is reading the argument it was built from; and
    `getattr(x, "name")` with a literal name -> `x.name`.

    What a parametrised helper leaves behind once its parameters are substituted is evaluated first (pure, on
    literals only): an immediately applied lambda `(lambda b: b.f)(x)` -> `x.f`; `operator.attrgetter("f")(x)` -> `x.f`;
    a string built from literals (f-string, `+`, `%`, `.format`) -> the literal; `{"k": v, …}["k"]` -> `v`."""
    class T(ast.NodeTransformer):
        depth = 0

        def visit_JoinedStr(self, node: ast.JoinedStr) -> ast.AST:  # noqa: N802
            self.generic_visit(node)
            parts: list[str] = []
            for v in node.values:
                if isinstance(v, ast.FormattedValue):
                    t = _const_str(v.value)
                    if t is None or v.conversion not in (-1, 115) or v.format_spec is not None:
                        return node
                    parts.append(t)
                else:
                    t = _const_str(v)
                    if t is None:
                        return node
                    parts.append(t)
            return ast.copy_location(ast.Constant("".join(parts)), node)

        def visit_BinOp(self, node: ast.BinOp) -> ast.AST:  # noqa: N802
            self.generic_visit(node)
            left = _const_str(node.left)
            if left is not None and isinstance(node.op, ast.Add) and _const_str(node.right) is not None:
                return ast.copy_location(ast.Constant(left + _const_str(node.right)), node)  # type: ignore[operator]
            if left is not None and isinstance(node.op, ast.Mod):
                r = node.right
                vals = [_const_str(x) for x in r.elts] if isinstance(r, ast.Tuple) else [_const_str(r)]
                if all(v is not None for v in vals):
                    try:
                        return ast.copy_location(ast.Constant(left % tuple(vals)), node)
                    except (TypeError, ValueError):
                        return node
            return node

        def visit_Subscript(self, node: ast.Subscript) -> ast.AST:  # noqa: N802
            self.generic_visit(node)
            d, k = node.value, node.slice
            if isinstance(d, ast.Dict) and isinstance(k, ast.Constant) and isinstance(node.ctx, ast.Load) \
                    and all(isinstance(x, ast.Constant) for x in d.keys):
                hits = [v for x, v in zip(d.keys, d.values) if type(x.value) is type(k.value) and x.value == k.value]  # type: ignore[union-attr]
                if hits:
                    return hits[-1]
            return node

        def visit_Call(self, node: ast.Call) -> ast.AST:  # noqa: N802
            self.generic_visit(node)
            f = node.func
            if isinstance(f, ast.Lambda) and self.depth < 8:
                new = _beta(f, node)
                if new is not None:
                    self.depth += 1
                    try:
                        return self.visit(new)
                    finally:
                        self.depth -= 1
            if isinstance(f, ast.Call) and u(f.func) in ("operator.attrgetter", "attrgetter") and len(f.args) == 1 \
                    and not f.keywords and not node.keywords and len(node.args) == 1 and not isinstance(node.args[0], ast.Starred):
                path = _const_str(f.args[0])
                if path is not None and all(x.isidentifier() for x in path.split(".")):
                    out: ast.AST = node.args[0]
                    for x in path.split("."):
                        out = self.visit_Attribute(ast.copy_location(ast.Attribute(value=out, attr=x, ctx=ast.Load()), node),
                                                   visited=True)
                    return out
            if isinstance(f, ast.Attribute) and f.attr == "format" and _const_str(f.value) is not None \
                    and not any(isinstance(x, ast.Starred) for x in node.args) and all(k.arg is not None for k in node.keywords):
                pos = [_const_str(x) for x in node.args]
                kws = {k.arg: _const_str(k.value) for k in node.keywords}
                if all(v is not None for v in pos) and all(v is not None for v in kws.values()):
                    try:
                        return ast.copy_location(ast.Constant(_const_str(f.value).format(*pos, **kws)), node)  # type: ignore[union-attr,arg-type]
                    except (IndexError, KeyError, ValueError, AttributeError):
                        return node
            a = simple_call(node, ("getattr",), 2)      # getattr(x, "name") is x.name
            if a is not None and isinstance(a[1], ast.Constant) and isinstance(a[1].value, str) and a[1].value.isidentifier():
                return self.visit_Attribute(ast.copy_location(ast.Attribute(value=a[0], attr=a[1].value, ctx=ast.Load()), node),
                                            visited=True)
            return node

        def visit_Attribute(self, node: ast.Attribute, visited: bool = False) -> ast.AST:  # noqa: N802
            if not visited:
                self.generic_visit(node)
            v = node.value
            if isinstance(v, ast.Call) and not any(isinstance(a, ast.Starred) for a in v.args) \
                    and all(k.arg is not None for k in v.keywords):
                fields = records.get(u(v.func).split(".")[-1])
                if fields is not None and node.attr in fields and len(v.args) <= len(fields):
                    args = dict(zip(fields, v.args))
                    args.update({k.arg: k.value for k in v.keywords})  # type: ignore[misc]
                    if node.attr in args:
                        return args[node.attr]
            return node
    return T().visit(copy.deepcopy(e))


def set_elem(e: ast.AST) -> ast.AST | None:
    """Element of a *deduplicating* collection expression (`{…}` / `set(…)` / `frozenset(…)`), else None."""
    if isinstance(e, ast.SetComp):
        return elem_of(ast.GeneratorExp(elt=e.elt, generators=e.generators))
    args = simple_call(e, ("set", "frozenset"), 1)
    if args is not None:
        inner = args[0]
        if isinstance(inner, ast.SetComp):
            return set_elem(inner)
        return elem_of(inner)
    return None


# --------------------------------------------------------------------------------------------- loops
_LOOPNAME = re.compile(r"^<(\w+)@loop(\d+)>$")


def _stored(node: ast.AST) -> set[str]:
    return {n.id for n in ast.walk(node) if isinstance(n, ast.Name) and isinstance(n.ctx, (ast.Store, ast.Del))}


def env_before(fn: FuncNode, stmt: ast.stmt, follow: Any = None) -> dict[str, ast.AST] | None:
    """Environment (local -> defining expression) on entry to the top-level statement `stmt`; None when
    `stmt` is not top-level or the paths reaching it disagree on a binding."""
    body = strip_doc(fn.body)
    idx = next((i for i, s in enumerate(body) if s is stmt), None)
    if idx is None:
        return None
    try:
        nexts = [p for p, st in sym_block(body[:idx], follow=follow) if st == "next"]
    except SymUnsupported:
        return None
    if not nexts:
        return None
    first = nexts[0].env
    for p in nexts[1:]:
        if set(p.env) != set(first) or any(u(p.env[k]) != u(first[k]) for k in first):
            return None
    return first


def loop_passes(fn: FuncNode, loop: ast.For, symbolic: tuple[str, ...] = (), follow: Any = None
                ) -> tuple[ast.AST, dict[str, ast.AST], list[Path], list[Path]] | None:
    """(resolved iterable, environment on entry without the names the loop binds, complete passes of
    the body, all passes incl. those ending in `continue` or raising); None if the loop is not a plain
    top-level `for` whose body neither breaks nor returns."""
    env = env_before(fn, loop, follow)
    if env is None or loop.orelse:
        return None
    bound = _stored(loop)
    env_in = {k: v for k, v in env.items() if k not in bound and k not in symbolic}   # `symbolic`: mutated in place
    try:
        res = sym_block(loop.body, env_in, follow=follow)
    except SymUnsupported:
        return None
    if any(st not in ("next", "continue", "raise") for _p, st in res):
        return None  # break / return: later elements would be skipped
    return subst(loop.iter, env), env, [p for p, st in res if st == "next"], [p for p, _st in res]


Guard = tuple[ast.AST, bool]     # (condition atom with locals substituted, its outcome)


def loop_sums(fn: FuncNode, loop: ast.For, follow: Any = None) -> dict[str, tuple[ast.AST, list[Guard]]]:
    """accumulator -> (its value after the loop as `init + sum(inc for T in IT)` (init dropped when 0),
    the conditions under which a pass of the body adds the increment).

    An accumulator is a name bound before the loop that every pass of the body either leaves alone or
    re-binds to `itself + inc` with one and the same `inc`; the passes that leave it alone (a
    `continue`, an untaken `if`) are exactly those excluded by the returned guards, which the caller
    must judge (an unguarded sum has none)."""
    filled = tuple(sorted({n.func.value.id for n in ast.walk(loop) if isinstance(n, ast.Call) and isinstance(n.func, ast.Attribute)  # type: ignore[attr-defined]
                           and n.func.attr == "append" and isinstance(n.func.value, ast.Name)}))
    lp = loop_passes(fn, loop, symbolic=filled, follow=follow)
    if lp is None:
        return {}
    it, env, _full, passes = lp
    out: dict[str, tuple[ast.AST, list[Guard]]] = {}
    # lists filled by the loop: bound to an empty list before it, touched by at most one `.append(X)` per pass, with
    # one and the same X -- read as `[X for T in IT]` under the guards of the appending passes (sum(list) == Σ X)
    def _appends(c: ast.Call, a: str) -> bool:
        return isinstance(c.func, ast.Attribute) and c.func.attr == "append" and is_name(c.func.value, a) \
            and len(c.args) == 1 and not c.keywords
    listy = sorted({n.func.value.id for n in ast.walk(loop) if isinstance(n, ast.Call) and isinstance(n.func, ast.Attribute)  # type: ignore[attr-defined]
                    and n.func.attr == "append" and isinstance(n.func.value, ast.Name)})
    for a in listy:
        if a in _stored(loop) or not _empty_list(env.get(a, ast.Constant(None))):
            continue
        uses = [n for n in ast.walk(loop) if is_name(n, a)]
        if len(uses) != sum(1 for n in ast.walk(loop) if isinstance(n, ast.Call) and _appends(n, a)):
            continue
        vals: list[ast.AST] = []
        lguards: dict[tuple[str, bool], Guard] = {}
        ok_l = True
        for p in passes:
            if p.exit == "raise":
                continue
            hits = [c.node.args[0] for c in p.calls(lambda c, a=a: _appends(c, a))]
            if len(hits) > 1:
                ok_l = False
                break
            if hits:
                vals.append(hits[0])
                for _k, _ko, test, _ln, outcome in p.conds:
                    lguards[(u(test), outcome)] = (test, outcome)
        if not ok_l or not vals or len({u(v) for v in vals}) != 1:
            continue
        comp = ast.ListComp(elt=vals[0], generators=[ast.comprehension(
            target=copy.deepcopy(loop.target), iter=copy.deepcopy(it), ifs=[], is_async=0)])
        out[a] = (ast.fix_missing_locations(ast.copy_location(comp, loop)), list(lguards.values()))
    for a in sorted(_stored(loop) - _stored(loop.target)):
        if a not in env:
            continue
        incs: list[ast.AST] = []
        guards: dict[tuple[str, bool], Guard] = {}
        additive = True
        for p in passes:
            v = p.env.get(a)
            if v is None or is_name(v, a) or p.exit == "raise":
                continue                                   # this pass adds nothing / aborts the call
            inc = None
            if isinstance(v, ast.BinOp) and isinstance(v.op, ast.Add):
                if is_name(v.left, a):
                    inc = v.right
                elif is_name(v.right, a):
                    inc = v.left
            if inc is None or any(is_name(n, a) for n in ast.walk(inc)):
                additive = False
                break
            incs.append(inc)
            for _k, _ko, test, _ln, outcome in p.conds:
                guards[(u(test), outcome)] = (test, outcome)
        if not additive or not incs or len({u(i) for i in incs}) != 1:
            continue
        total: ast.AST = ast.Call(func=name("sum"), args=[ast.GeneratorExp(elt=incs[0], generators=[
            ast.comprehension(target=copy.deepcopy(loop.target), iter=copy.deepcopy(it), ifs=[], is_async=0)])],
            keywords=[])
        init = env[a]
        if not (isinstance(init, ast.Constant) and isinstance(init.value, (int, float))
                and not isinstance(init.value, bool) and init.value == 0):
            total = ast.BinOp(left=copy.deepcopy(init), op=ast.Add(), right=total)
        out[a] = (ast.fix_missing_locations(ast.copy_location(total, loop)), list(guards.values()))
    return out


def fold_loops(fn: FuncNode, e: ast.AST, guards: list[Guard] | None = None, follow: Any = None) -> ast.AST:
    """Replace the `<acc@loopN>` placeholders in `e` by the sums the loops at line N compute; the
    conditions under which the increments are added are appended to `guards` (when no list is given a
    guarded accumulator is not folded)."""
    loops = {s.lineno: s for s in strip_doc(fn.body) if isinstance(s, ast.For)}
    cache: dict[int, dict[str, tuple[ast.AST, list[Guard]]]] = {}

    class T(ast.NodeTransformer):
        def visit_Name(self, node: ast.Name) -> ast.AST:  # noqa: N802
            m = _LOOPNAME.match(node.id)
            if m and int(m.group(2)) in loops:
                ln = int(m.group(2))
                if ln not in cache:
                    cache[ln] = loop_sums(fn, loops[ln], follow)
                hit = cache[ln].get(m.group(1))
                if hit is not None and (guards is not None or not hit[1]):
                    if guards is not None:
                        guards.extend(hit[1])
                    return copy.deepcopy(hit[0])
            return node
    return T().visit(copy.deepcopy(e))


def returns_of(fn: FuncNode, qual: str, follow: Any = None) -> list[Path]:
    try:
        return [p for p in sym_paths(fn, follow=follow) if p.exit in ("return", "fall")]
    except SymUnsupported as exc:
        raise AnalysisError(f"{qual}: {exc}") from None


# --------------------------------------------------------------------------------------------- terms
@dataclass
class Side:
    """How one side's aggregate reads a group `<g>`: recognisers for the leaves."""
    groups_ok: Callable[[ast.AST], bool]                 # is this root iterable the collection of groups?
    norm: Callable[[ast.AST], ast.AST]                   # canonical access to the group record
    leaf_bat: Callable[[ast.AST], str | None]            # group expression -> field of the battery aggregate
    leaf_inv: Callable[[ast.AST, list[ast.AST]], str | None]  # inverter element expression, its roots -> field
    groups: list[ast.AST] = field(default_factory=list)  # root iterables the Σ_g ranged over


def _minmax(e: ast.AST) -> tuple[str, list[ast.AST]] | None:
    for op in ("max", "min"):
        a = simple_call(e, (op,), 2)
        if a is not None:
            return op, a
    return None


def _inner_sum(a: ast.AST, side: Side) -> str | None:
    s = simple_call(a, ("sum",), 1)
    if s is None:
        return None
    roots: list[ast.AST] = []
    el = elem_of(s[0], roots, None, side.norm)
    if el is None or len(roots) != 1:
        return None
    return side.leaf_inv(side.norm(el), roots)


def agg_term(e: ast.AST, side: Side) -> Any:
    e = side.norm(e)              # a parametrised helper bound to a local lambda and applied on the spot
    mm = _minmax(e)
    if mm is not None:                                   # op(Σ_g battery leaf, Σ_g Σ_i inverter leaf)
        op, args = mm
        parts: list[Any] = []
        for a in args:
            part: Any = ("other", ("?", u(a)))
            s = simple_call(a, ("sum",), 1)
            if s is not None:
                roots: list[ast.AST] = []
                el = elem_of(s[0], roots, GROUP, side.norm)
                if el is not None and roots and side.groups_ok(roots[0]):
                    el = side.norm(el)
                    fb = side.leaf_bat(el) if len(roots) == 1 else None
                    fi = side.leaf_inv(el, roots[1:]) if len(roots) == 2 else None
                    if fb is not None:
                        part = ("sum_gleaf", ("bat", fb))
                    elif fi is not None:
                        part = ("sum_all", ("inv", fi))
                    if part[0] != "other":
                        side.groups.append(roots[0])
            parts.append(part)
        return (op, tuple(sorted(parts)))
    s = simple_call(e, ("sum",), 1)
    if s is not None:                                    # Σ_g op(battery leaf, Σ_i inverter leaf)
        roots = []
        el = elem_of(s[0], roots, GROUP, side.norm)
        if el is None or len(roots) != 1 or not side.groups_ok(roots[0]):
            return ("other", u(e))
        mm = _minmax(side.norm(el))
        if mm is None:
            return ("other", u(e))
        op, args = mm
        parts = []
        for a in args:
            fb = side.leaf_bat(a)
            fi = _inner_sum(a, side) if fb is None else None
            parts.append(("leaf", ("bat", fb)) if fb is not None else ("sum_i", ("inv", fi)) if fi is not None
                         else ("other", ("?", u(a))))
        side.groups.append(roots[0])
        return ("sum_g", op, tuple(sorted(parts)))
    return ("other", u(e))


# --------------------------------------------------------------------------------------------- controls
def seg(source: str, node: ast.AST) -> str:
    t = ast.get_source_segment(source, node)
    if t is None:
        raise AnalysisError("source segment not available")
    return t


def splice(source: str, edits: list[tuple[ast.AST, str]]) -> str:
    """`source` with the text of each node replaced (nodes must come from the parse of `source`)."""
    lines = source.splitlines(keepends=True)
    starts = [0]
    for ln in lines:
        starts.append(starts[-1] + len(ln))

    def off(lineno: int, col: int) -> int:
        return starts[lineno - 1] + len(lines[lineno - 1].encode("utf-8")[:col].decode("utf-8"))

    spans = sorted(((off(n.lineno, n.col_offset), off(n.end_lineno, n.end_col_offset), new)  # type: ignore[attr-defined]
                    for n, new in edits), reverse=True)
    for a, b, new in spans:
        source = source[:a] + new + source[b:]
    return source


# --------------------------------------------------------------------------------------------- guards
def nonempty_test(test: ast.AST, outcome: bool) -> ast.AST | None:
    """If `test` having the truth value `outcome` says exactly "the collection L is not empty"
    (`L`, `not L`, `len(L) == 0`, `len(L) > 0`, `1 <= len(L)`, …, decided by evaluating the comparison for
    every small length), return L; else None."""
    if isinstance(test, ast.Compare) and len(test.ops) == 1:
        a, b = test.left, test.comparators[0]
        la, lb = simple_call(a, ("len",), 1), simple_call(b, ("len",), 1)
        const = b if la is not None else a
        if (la is None) == (lb is None) or not (isinstance(const, ast.Constant) and isinstance(const.value, int)
                                                 and not isinstance(const.value, bool)):
            return None
        import operator
        fn = {ast.Eq: operator.eq, ast.NotEq: operator.ne, ast.Lt: operator.lt, ast.LtE: operator.le,
              ast.Gt: operator.gt, ast.GtE: operator.ge}.get(type(test.ops[0]))
        if fn is None:
            return None
        c = const.value
        if all((fn(n, c) if la is not None else fn(c, n)) == outcome for n in range(1, 8)) \
                and (fn(0, c) if la is not None else fn(c, 0)) != outcome:
            return (la or lb)[0]  # type: ignore[index]
        return None
    if isinstance(test, (ast.Compare, ast.BoolOp, ast.UnaryOp, ast.Constant)):
        return None
    return test if outcome else None


def availability(prog: Program, fn: FuncInfo, node: FuncNode, e: ast.AST, depth: int = 4) -> str | None:
    """'present' / 'missing' / None: does the truth of `e` say that data is available / unavailable?

    `x.has_value()`, `y is not None`                      present
    `math.isnan(v)`, `y is None`                          missing
    `not e`                                               the opposite of e
    `all(present for …)`, `a and b` (both present)        present
    `any(missing for …)`, `a or b` (both missing)         missing
    a call of a closure / private helper                  that of its (single) returned expression
    anything else (incl. `any(present …)`: "some")        None"""
    if depth < 0:
        return None
    flip = {"present": "missing", "missing": "present", None: None}
    if isinstance(e, ast.UnaryOp) and isinstance(e.op, ast.Not):
        return flip[availability(prog, fn, node, e.operand, depth)]
    if isinstance(e, ast.BoolOp):
        is_and = isinstance(e.op, ast.And)
        vals = [v for v in e.values if not (isinstance(v, ast.Constant) and v.value is is_and)]   # neutral literal
        ks = {availability(prog, fn, node, v, depth) for v in vals}
        want = "present" if is_and else "missing"
        return want if vals and ks == {want} else None
    if isinstance(e, ast.Compare) and len(e.ops) == 1 and isinstance(e.ops[0], (ast.Is, ast.IsNot)) \
            and isinstance(e.comparators[0], ast.Constant) and e.comparators[0].value is None:
        return "missing" if isinstance(e.ops[0], ast.Is) else "present"
    if isinstance(e, ast.Call):
        if isinstance(e.func, ast.Attribute) and e.func.attr == "has_value" and not e.args and not e.keywords:
            return "present"
        if u(e.func) in ("math.isnan", "isnan") and len(e.args) == 1:
            return "missing"
        for q, want in (("all", "present"), ("any", "missing")):
            a = simple_call(e, (q,), 1)
            if a is not None:
                el = elem_of(a[0])
                return want if el is not None and availability(prog, fn, node, el, depth - 1) == want else None
        nested = {n.name: n for n in ast.walk(node) if isinstance(n, (ast.FunctionDef, ast.AsyncFunctionDef)) and n is not node}
        h = _helper_target(prog, fn, e, nested)
        if h is not None and h is not node and not isinstance(h, ast.AsyncFunctionDef):
            binds = _bind(h, e)
            loop = search_loop(h)
            if binds is not None and loop is not None:
                # `for T in IT: if C: return True` / `return E`   ==  any(C for T in IT) or E
                # `for T in IT: if C: return False` / `return E`  ==  not any(C for T in IT) and E
                hit, target, it, cond, rest = loop
                found: ast.AST = ast.Call(func=name("any"), args=[ast.GeneratorExp(elt=cond, generators=[
                    ast.comprehension(target=target, iter=it, ifs=[], is_async=0)])], keywords=[])
                whole = ast.BoolOp(op=ast.Or(), values=[found, rest]) if hit else ast.BoolOp(
                    op=ast.And(), values=[ast.UnaryOp(op=ast.Not(), operand=found), rest])
                return availability(prog, fn, node, subst(whole, binds), depth - 1)
            if any(isinstance(r, ast.Return) for lp in ast.walk(h) if isinstance(lp, (ast.For, ast.While)) for r in ast.walk(lp)):
                return None                                 # a loop that returns, in another shape: not read
            try:
                rets = [p for p in sym_paths(h) if p.exit == "return" and p.ret is not None]
            except SymUnsupported:
                rets = []
            if binds is not None and len(rets) == 1:
                return availability(prog, fn, node, subst(rets[0].ret, binds), depth - 1)
    return None


def search_loop(h: FuncNode) -> tuple[bool, ast.AST, ast.AST, ast.AST, ast.AST] | None:
    """(b, target, iterable, condition, E) when the body of `h` is the search idiom
    `for T in IT: if C: return <b>` followed by `return E` (b a boolean literal)."""
    body = strip_doc(h.body)
    if len(body) != 2 or not isinstance(body[0], ast.For) or body[0].orelse or not isinstance(body[1], ast.Return) \
            or body[1].value is None:
        return None
    loop, last = body
    if len(loop.body) != 1 or not isinstance(loop.body[0], ast.If) or loop.body[0].orelse:
        return None
    test = loop.body[0]
    if len(test.body) != 1 or not isinstance(test.body[0], ast.Return):
        return None
    hit = test.body[0].value
    if not (isinstance(hit, ast.Constant) and isinstance(hit.value, bool)):
        return None
    return hit.value, copy.deepcopy(loop.target), copy.deepcopy(loop.iter), copy.deepcopy(test.test), copy.deepcopy(last.value)
