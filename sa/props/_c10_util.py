"""Dataflow helpers for the C10 checker (kept local: the engine is frozen).

  Flow(prog, fn)            normalised copy of `fn` (private helpers spliced in, assignment diamonds
                            folded) together with its exception-aware CFG
  Flow.expand(nid, expr)    alias expansion over reaching definitions: a local read at node `nid` is
                            replaced by the right-hand side of its *unique* reaching definition when
                            nothing that the right-hand side reads can change in between (this covers
                            the locals the normaliser refuses to move, e.g. those reading a counter
                            that is re-bound elsewhere in the function)
  Flow.truth(nid, e, val)   three-valued (Kleene) value of a branch test under a *valuation*: a dict
                            from canonical atoms (sa.engine.util.canon_total leaves) to booleans
  Flow.consistent(val)      CFG edge filter that only follows the branch sides compatible with `val`
                            (tests that the valuation does not decide are followed both ways, which
                            over-approximates the paths: it can only add alarms, never hide one)

  splice_valued(...)        helpers that hand an *outcome* back to their caller which branches on it
                            (`while await self._attempt(n): n += 1`, `again = await ...; if not again: break`,
                            `match await ...`, a flag loop, a tuple result, an enum member, the caught exception
                            or None): the helper's body takes the place of the statement and every `return v`
                            continues with what the caller does for that value -- the pair reads as one function,
                            so the rules on the supervised run loop are stated on the whole unit wherever
                            `await self._run()` sits inside it

Valuation constructors: is_none, less_than, positive, nonempty, truthy.

With these a guard is never matched textually: a rule asks "under `limit is not None and n >= limit`
can the handler reach `_run()` again?" and the answer is the same for `if a or b`, the De Morgan dual,
flipped comparisons, nested ifs, early returns or a guard computed into a local first.
"""
from __future__ import annotations

import ast
import copy
from typing import Any, Callable, Iterable

from ..engine.cfg import CFG, own_parts
from ..engine.normalize import (
    ANCHOR_NAMES, _bind, _helper_target, _names_stored, _replace_node, _strip_doc,
    fold_diamonds, inline_helpers,
)
from ..engine.report import AnalysisError
from ..engine.resolver import FuncInfo, Program, walk_no_nested
from ..engine.util import canon_total, is_logging_call, node_writes, u

Valuation = dict[Any, bool]
EdgeOk = Callable[[int, int, str], bool]

MUTATORS = {
    "clear", "add", "append", "pop", "remove", "discard", "update", "extend", "insert",
    "difference_update", "intersection_update", "symmetric_difference_update", "setdefault",
    "popitem", "sort", "reverse",
}
_WRAPPERS = {"list", "tuple", "set", "frozenset", "sorted", "iter"}


# --------------------------------------------------------------------------------- valuations
def is_none(x: str, holds: bool) -> Valuation:
    pair = frozenset({x, "None"})
    return {("is", pair): holds, ("isnot", pair): not holds,
            ("==", pair): holds, ("!=", pair): not holds}


def less_than(a: str, b: str, holds: bool) -> Valuation:
    """`a < b` over a total order (ints)."""
    return {("<", a, b): holds, ("<=", b, a): not holds}


def positive(x: str, holds: bool) -> Valuation:
    """`x > 0` for a non-negative integer `x` (a counter, a length)."""
    zero = frozenset({x, "0"})
    return {("<", "0", x): holds, ("<=", "1", x): holds, ("!=", zero): holds, ("truthy", x): holds,
            ("<=", x, "0"): not holds, ("<", x, "1"): not holds, ("==", zero): not holds}


def nonempty(x: str, holds: bool) -> Valuation:
    """Truthiness of a collection `x` (also through `len(x)`)."""
    val = positive(f"len({x})", holds)
    val[("truthy", x)] = holds
    for empty in ("set()", "[]", "()", "frozenset()", "{}"):
        pair = frozenset({x, empty})
        val[("==", pair)] = not holds
        val[("!=", pair)] = holds
    return val


def truthy(x: str, holds: bool) -> Valuation:
    """Value of a boolean expression `x`."""
    val: Valuation = {("truthy", x): holds}
    for const, same in (("True", True), ("False", False)):
        pair = frozenset({x, const})
        val[("is", pair)] = holds == same
        val[("==", pair)] = holds == same
        val[("isnot", pair)] = holds != same
        val[("!=", pair)] = holds != same
    return val


def join(*vals: Valuation) -> Valuation:
    out: Valuation = {}
    for v in vals:
        out.update(v)
    return out


def _kleene(c: Any, val: Valuation) -> bool | None:
    try:
        if c in val:
            return val[c]
    except TypeError:
        return None
    if isinstance(c, tuple) and c:
        if c[0] == "const":
            return bool(c[1])
        if c[0] == "not":
            r = _kleene(c[1], val)
            return None if r is None else not r
        if c[0] in ("and", "or"):
            rs = [_kleene(k, val) for k in c[1]]
            if c[0] == "and":
                if any(r is False for r in rs):
                    return False
                return True if all(r is True for r in rs) else None
            if any(r is True for r in rs):
                return True
            return False if all(r is False for r in rs) else None
    return None


# --------------------------------------------------------------------------------- AST helpers
def strip_wrappers(e: ast.AST) -> ast.AST:
    """`list(x)`, `tuple(x)`, `set(x)`, `sorted(x)`, `x.copy()` iterate the same elements as `x`."""
    while True:
        if isinstance(e, ast.Call) and isinstance(e.func, ast.Name) and e.func.id in _WRAPPERS \
                and len(e.args) == 1 and not e.keywords:
            e = e.args[0]
        elif isinstance(e, ast.Call) and isinstance(e.func, ast.Attribute) and e.func.attr == "copy" \
                and not e.args and not e.keywords:
            e = e.func.value
        else:
            return e


def callee_tail(call: ast.Call) -> str:
    f = call.func
    if isinstance(f, ast.Attribute):
        return f.attr
    if isinstance(f, ast.Name):
        return f.id
    return ""


def own_calls(n: Any) -> list[ast.Call]:
    if isinstance(n.ast, (ast.FunctionDef, ast.AsyncFunctionDef, ast.ClassDef)):
        return []  # a nested definition evaluates nothing of its body
    return [x for part in own_parts(n) for x in walk_no_nested(part) if isinstance(x, ast.Call)]


def _project(value: ast.AST, idx: int, n: int) -> ast.AST | None:
    """Component `idx` of an n-tuple valued expression built from tuple displays and ternaries."""
    if isinstance(value, (ast.Tuple, ast.List)) and len(value.elts) == n \
            and not any(isinstance(e, ast.Starred) for e in value.elts):
        return value.elts[idx]
    if isinstance(value, ast.IfExp):
        a, b = _project(value.body, idx, n), _project(value.orelse, idx, n)
        if a is not None and b is not None:
            return ast.copy_location(ast.IfExp(test=value.test, body=a, orelse=b), value)
    return None


def kleene_ast(e: ast.AST, val: Valuation) -> bool | None:
    """Three-valued value of a boolean expression (and/or/not/ternary over canonical atoms)."""
    if isinstance(e, ast.BoolOp):
        rs = [kleene_ast(v, val) for v in e.values]
        if isinstance(e.op, ast.And):
            if any(r is False for r in rs):
                return False
            return True if all(r is True for r in rs) else None
        if any(r is True for r in rs):
            return True
        return False if all(r is False for r in rs) else None
    if isinstance(e, ast.UnaryOp) and isinstance(e.op, ast.Not):
        r = kleene_ast(e.operand, val)
        return None if r is None else not r
    if isinstance(e, ast.IfExp):
        c = kleene_ast(e.test, val)
        a, b = kleene_ast(e.body, val), kleene_ast(e.orelse, val)
        if c is True:
            return a
        if c is False:
            return b
        return a if a == b else None
    if isinstance(e, ast.Constant):
        return bool(e.value)
    return _kleene(canon_total(e), val)


def atoms_ast(e: ast.AST) -> list[Any]:
    if isinstance(e, ast.BoolOp):
        return [a for v in e.values for a in atoms_ast(v)]
    if isinstance(e, ast.UnaryOp) and isinstance(e.op, ast.Not):
        return atoms_ast(e.operand)
    if isinstance(e, ast.IfExp):
        return atoms_ast(e.test) + atoms_ast(e.body) + atoms_ast(e.orelse)

    def leaves(c: Any) -> list[Any]:
        if isinstance(c, tuple) and c and c[0] in ("and", "or"):
            return [x for k in c[1] for x in leaves(k)]
        if isinstance(c, tuple) and c and c[0] == "not":
            return leaves(c[1])
        return [c]

    return leaves(canon_total(e))


def count_loop(loop: ast.AST | None) -> tuple[int, int] | None:
    """(start, step) of `for <name> in itertools.count(...)` with constant integer arguments."""
    if not isinstance(loop, ast.For) or not isinstance(loop.target, ast.Name):
        return None
    it = loop.iter
    if not (isinstance(it, ast.Call) and u(it.func) in ("itertools.count", "count")):
        return None
    args = {"start": ast.Constant(0), "step": ast.Constant(1)}
    for k, a in zip(("start", "step"), it.args):
        args[k] = a
    for kw in it.keywords:
        if kw.arg not in args:
            return None
        args[kw.arg] = kw.value
    vals = []
    for k in ("start", "step"):
        a = args[k]
        if not (isinstance(a, ast.Constant) and type(a.value) is int):
            return None
        vals.append(a.value)
    return vals[0], vals[1]


def _has_return(stmts: list[ast.stmt]) -> bool:
    return any(isinstance(n, ast.Return) for st in stmts for n in walk_no_nested(st))


def _terminates(stmts: list[ast.stmt]) -> bool:
    return bool(stmts) and isinstance(stmts[-1], (ast.Return, ast.Raise, ast.Continue, ast.Break))


def _guards_to_else(stmts: list[ast.stmt], depth: int = 0) -> list[ast.stmt] | None:
    """Rewrite value-less early returns that sit in if/else chains into nested if/else, so that the
    body can stand in place of a call statement (`if c: return` + rest -> `if c: pass else: rest`).
    None when a return carries a value or sits inside a loop / try / with."""
    if depth > 8:
        return None
    if not _has_return(stmts):
        return stmts
    for i, st in enumerate(stmts):
        if not _has_return([st]):
            continue
        prefix, rest = stmts[:i], stmts[i + 1:]
        if isinstance(st, ast.Return):
            if st.value is not None and not (isinstance(st.value, ast.Constant) and st.value.value is None):
                return None
            return prefix or [ast.copy_location(ast.Pass(), st)]
        if isinstance(st, ast.If):
            body = list(st.body) + ([] if _terminates(st.body) else copy.deepcopy(rest))
            orelse = list(st.orelse) + ([] if _terminates(st.orelse) else copy.deepcopy(rest))
            a = _guards_to_else(body, depth + 1)
            b = _guards_to_else(orelse, depth + 1) if orelse else []
            if a is None or b is None:
                return None
            new = ast.If(test=st.test, body=a or [ast.copy_location(ast.Pass(), st)], orelse=b)
            return prefix + [ast.copy_location(new, st)]
        return None
    return stmts


_PURE_FUNCS = {"len", "max", "min", "abs", "sum", "float", "int", "bool", "str", "repr", "isinstance",
               "round", "timedelta", "tuple", "frozenset"}


def _effect_free(e: ast.AST) -> bool:
    """Evaluating `e` again gives the same value and does nothing else (f-strings, displays of such
    values, attribute reads, the usual pure builtins): it may be substituted into several uses."""
    for x in ast.walk(e):
        if isinstance(x, (ast.Await, ast.Yield, ast.YieldFrom, ast.NamedExpr, ast.Lambda,
                          ast.ListComp, ast.SetComp, ast.DictComp, ast.GeneratorExp)):
            return False
        if isinstance(x, ast.Call) and not (u(x.func) in _PURE_FUNCS or (
                isinstance(x.func, ast.Attribute) and x.func.attr in ("total_seconds", "get_name"))):
            return False
    return True


def stmts_to_expr(stmts: list[ast.stmt], depth: int = 0) -> ast.AST | None:
    """Statements made of local bindings, logging, if/else and returns as ONE (conditional)
    expression; None for any other shape.  Like the engine's `_to_expr`, but effect-free values
    (f-strings, tuples, ...) may be substituted into several uses and logging calls are skipped."""
    if not stmts or depth > 12:
        return None
    st, rest = stmts[0], stmts[1:]
    if isinstance(st, ast.Return):
        return st.value if st.value is not None else ast.Constant(None)
    if isinstance(st, ast.Pass) or (isinstance(st, ast.Expr) and (
            isinstance(st.value, ast.Constant)
            or (isinstance(st.value, ast.Call) and is_logging_call(st.value)))):
        return stmts_to_expr(rest, depth)
    if isinstance(st, (ast.Assign, ast.AnnAssign)):
        tgt = st.targets[0] if isinstance(st, ast.Assign) and len(st.targets) == 1 else getattr(st, "target", None)
        if not isinstance(tgt, ast.Name) or st.value is None:
            return None
        uses = sum(1 for b in rest for n in ast.walk(b)
                   if isinstance(n, ast.Name) and n.id == tgt.id and isinstance(n.ctx, ast.Load))
        rebound = any(isinstance(n, ast.Name) and n.id == tgt.id and isinstance(n.ctx, ast.Store)
                      for b in rest for n in ast.walk(b))
        if rebound or any(isinstance(x, (ast.Await, ast.Yield, ast.YieldFrom)) for x in ast.walk(st.value)) \
                or (uses > 1 and not _effect_free(st.value)):
            return None
        sub = _Subst({tgt.id: st.value})
        return stmts_to_expr([sub.visit(copy.deepcopy(b)) for b in rest], depth + 1)
    if isinstance(st, ast.If) and _effect_free(st.test):
        a = stmts_to_expr(list(st.body) + ([] if _terminates(st.body) else rest), depth + 1)
        tail = list(st.orelse) + ([] if _terminates(st.orelse) else rest)
        b = stmts_to_expr(tail, depth + 1)
        if a is None or b is None:
            return None
        return ast.copy_location(ast.IfExp(test=st.test, body=a, orelse=b), st)
    return None


def _returns_to_breaks(stmts: list[ast.stmt]) -> bool:
    """Turn every value-less `return` into `break` (for a body that will be wrapped into a
    one-pass `while True: ...; break`).  False when a return carries a value or sits in a loop."""
    ok = True

    def visit(body: list[ast.stmt]) -> None:
        nonlocal ok
        for k, b in enumerate(body):
            if isinstance(b, ast.Return):
                if b.value is not None and not (isinstance(b.value, ast.Constant) and b.value.value is None):
                    ok = False
                body[k] = ast.copy_location(ast.Break(), b)
                continue
            if isinstance(b, (ast.For, ast.AsyncFor, ast.While)):
                if _has_return([b]):
                    ok = False
                continue
            if isinstance(b, (ast.FunctionDef, ast.AsyncFunctionDef, ast.ClassDef)):
                continue
            for field in ("body", "orelse", "finalbody"):
                sub = getattr(b, field, None)
                if isinstance(sub, list) and sub and isinstance(sub[0], ast.stmt):
                    visit(sub)
            for h in getattr(b, "handlers", []) or []:
                visit(h.body)
            for c in getattr(b, "cases", []) or []:
                visit(c.body)

    visit(stmts)
    return ok


def _returns_to_continuation(stmts: list[ast.stmt], rest: list[ast.stmt], budget: int = 6) -> bool:
    """Replace every value-less `return` (also inside loops / try) by a copy of `rest` followed by
    `return`.  False when a return carries a value or there are too many of them."""
    count = 0
    ok = True

    def visit(body: list[ast.stmt]) -> None:
        nonlocal count, ok
        k = 0
        while k < len(body):
            b = body[k]
            if isinstance(b, ast.Return):
                if b.value is not None and not (isinstance(b.value, ast.Constant) and b.value.value is None):
                    ok = False
                count += 1
                cont = [_mark(copy.deepcopy(x)) for x in rest]
                body[k:k + 1] = cont + [b]
                k += len(cont) + 1
                continue
            if not isinstance(b, (ast.FunctionDef, ast.AsyncFunctionDef, ast.ClassDef)):
                for field in ("body", "orelse", "finalbody"):
                    sub = getattr(b, field, None)
                    if isinstance(sub, list) and sub and isinstance(sub[0], ast.stmt):
                        visit(sub)
                for h in getattr(b, "handlers", []) or []:
                    visit(h.body)
                for c in getattr(b, "cases", []) or []:
                    visit(c.body)
            k += 1

    visit(stmts)
    return ok and 0 < count <= budget


def _mark(node: ast.AST) -> ast.AST:
    """Tag every name of a copied continuation so that the helper's local renaming skips it."""
    for n in ast.walk(node):
        if isinstance(n, ast.Name):
            n._caller = True  # type: ignore[attr-defined]
    return node


def splice_guarded(prog: Program, fn: FuncInfo, root: ast.AST) -> ast.AST | None:
    """Splice private helpers (methods, module functions, closures) that are called as a statement
    (`h(...)` / `await h(...)`) and only return early without a value from if/else guard clauses.
    Returns a new tree, or None when nothing was spliced."""
    root = copy.deepcopy(root)
    spliced_names = set(getattr(root, "_spliced", ()))
    nested = {n.name: n for n in ast.walk(root)
              if isinstance(n, (ast.FunctionDef, ast.AsyncFunctionDef)) and n is not root}
    changed = False

    def suites(node: ast.AST) -> Iterable[list[ast.stmt]]:
        for n in walk_no_nested(node):
            for field in ("body", "orelse", "finalbody"):
                sub = getattr(n, field, None)
                if isinstance(sub, list) and sub and isinstance(sub[0], ast.stmt):
                    yield sub
            for h in getattr(n, "handlers", []) or []:
                yield h.body
            for c in getattr(n, "cases", []) or []:
                yield c.body

    for suite in list(suites(root)):
        i = 0
        while i < len(suite):
            st = suite[i]
            i += 1
            if not isinstance(st, ast.Expr):
                continue
            call = st.value.value if isinstance(st.value, ast.Await) else st.value
            if not isinstance(call, ast.Call):
                continue
            h = _helper_target(prog, fn, call, nested)
            if h is None or h is root or h.name in ANCHOR_NAMES or h.name == getattr(root, "name", None) \
                    or h.decorator_list and not all(isinstance(d, ast.Name) and d.id in (
                        "staticmethod", "override") for d in h.decorator_list):
                continue
            if isinstance(h, ast.AsyncFunctionDef) != isinstance(st.value, ast.Await):
                continue
            body = _strip_doc(h.body)
            if not body or len(body) > 40 or not _has_return(body) \
                    or any(isinstance(n, (ast.Yield, ast.YieldFrom)) for b in body for n in walk_no_nested(b)):
                continue  # return-free helpers are the engine's business
            binds = _bind(h, call)
            new_body = _guards_to_else(copy.deepcopy(body))
            if new_body is None:
                # returns inside try / with: one-pass loop, `return` becomes `break`
                inner = copy.deepcopy(body)
                if _returns_to_breaks(inner):
                    loop = ast.While(test=ast.Constant(True), orelse=[],
                                     body=inner + [ast.copy_location(ast.Break(), st)])
                    loop._synthetic = True  # type: ignore[attr-defined]
                    new_body = [ast.copy_location(loop, st)]
            if new_body is None and suite is getattr(root, "body", None):
                # returns inside loops, called at the top level of the function: every `return`
                # continues with (a copy of) the rest of the caller and then leaves it
                inner = copy.deepcopy(body)
                rest = suite[i:]
                if len(rest) <= 12 and _returns_to_continuation(inner, rest):
                    new_body = inner
            if binds is None or new_body is None:
                continue
            locals_h: set[str] = set()
            for b in new_body:
                locals_h |= _names_stored(b)
            tag = h.name.strip("_")
            ren = {n: f"{n}__{tag}" for n in locals_h | set(binds)}
            pre: list[ast.stmt] = []
            mapping: dict[str, ast.AST] = {}
            for pname, arg in binds.items():
                if pname not in locals_h and isinstance(arg, (ast.Name, ast.Attribute, ast.Constant)):
                    mapping[pname] = arg
                else:
                    pre.append(ast.copy_location(ast.Assign(
                        targets=[ast.Name(id=ren[pname], ctx=ast.Store())], value=arg), st))
            for b in new_body:
                for nn in ast.walk(b):
                    if isinstance(nn, ast.Name) and nn.id in ren and nn.id not in mapping \
                            and not getattr(nn, "_caller", False):
                        nn.id = ren[nn.id]
            sub = _SubstHelper(mapping)
            new_body = [sub.visit(b) for b in new_body]
            suite[i - 1:i] = pre + new_body
            i = i - 1 + len(pre) + len(new_body)
            spliced_names.add(h.name)
            changed = True
    # value helpers made of pure bindings, logging, if/else and returns: read as ONE conditional
    # expression (the logging calls are dropped: they are trusted not to raise and decide nothing)
    for suite in list(suites(root)):
        for st in suite:
            if isinstance(st, (ast.If, ast.While)):
                own: list[ast.AST] = [st.test]
            elif isinstance(st, (ast.Assign, ast.AnnAssign, ast.Return, ast.Expr)) and st.value is not None:
                own = [st.value]
            else:
                continue
            for expr in own:
                for call in [n for n in ast.walk(expr) if isinstance(n, ast.Call)]:
                    h = _helper_target(prog, fn, call, nested)
                    if h is None or h is root or isinstance(h, ast.AsyncFunctionDef) \
                            or h.name in ANCHOR_NAMES or h.decorator_list and not all(
                                isinstance(d, ast.Name) and d.id in ("staticmethod", "override")
                                for d in h.decorator_list):
                        continue
                    body = copy.deepcopy(_strip_doc(h.body))
                    binds = _bind(h, call)
                    if binds is None or not body or len(body) > 25:
                        continue
                    locals_h: set[str] = set()
                    for b in body:
                        locals_h |= _names_stored(b)
                    ren = {n: f"{n}__{h.name.strip('_')}" for n in locals_h if n not in binds}
                    for b in body:
                        for nn in ast.walk(b):
                            if isinstance(nn, ast.Name) and nn.id in ren:
                                nn.id = ren[nn.id]
                    sub = _Subst({k: v for k, v in binds.items() if k not in locals_h})
                    body = [sub.visit(b) for b in body]
                    ce = stmts_to_expr(body)
                    if ce is None:
                        continue
                    _replace_node(st, call, ce, awaited=False)
                    spliced_names.add(h.name)
                    changed = True
    if not changed:
        return None
    ast.fix_missing_locations(root)
    root._spliced = spliced_names  # type: ignore[attr-defined]
    return root


# --------------------------------------------------------------------------------- outcome-reporting helpers
_JUMPS = (ast.Return, ast.Raise, ast.Continue, ast.Break)


def _static_value(e: ast.AST) -> tuple[str, Any] | None:
    """A value that is known without running anything: a literal constant, or an upper-case member of a
    class / module (`_Outcome.RESTART`, `enum.X`): ("c", value) / ("n", dotted name)."""
    if isinstance(e, ast.Constant):
        return ("c", (type(e.value).__name__, e.value))
    if isinstance(e, ast.Attribute) and e.attr.isupper():
        v: ast.AST = e
        while isinstance(v, ast.Attribute):
            v = v.value
        if isinstance(v, ast.Name):
            return ("n", u(e))
    return None


def static_truth(e: ast.AST) -> bool | None:
    """Truth value of a test made of static values only (Kleene; None: not decided).  Distinct upper-case
    members of the same class are taken to be distinct, non-None objects (enum members)."""
    if isinstance(e, ast.Constant):
        return bool(e.value)
    if isinstance(e, ast.UnaryOp) and isinstance(e.op, ast.Not):
        r = static_truth(e.operand)
        return None if r is None else not r
    if isinstance(e, ast.BoolOp):
        rs = [static_truth(v) for v in e.values]
        if isinstance(e.op, ast.And):
            if any(r is False for r in rs):
                return False
            return True if all(r is True for r in rs) else None
        if any(r is True for r in rs):
            return True
        return False if all(r is False for r in rs) else None
    if isinstance(e, ast.IfExp):
        c = static_truth(e.test)
        if c is None:
            a, b = static_truth(e.body), static_truth(e.orelse)
            return a if a == b else None
        return static_truth(e.body if c else e.orelse)
    if isinstance(e, ast.Compare) and len(e.ops) == 1 and isinstance(e.ops[0], (ast.Is, ast.IsNot, ast.Eq, ast.NotEq)):
        a, b = _static_value(e.left), _static_value(e.comparators[0])
        if a is None or b is None:
            return None
        same: bool | None = None
        if a == b:
            same = True
        elif a[0] == "c" and b[0] == "c":
            same = bool(a[1][1] == b[1][1]) if isinstance(e.ops[0], (ast.Eq, ast.NotEq)) else False
        elif a[0] == "n" and b[0] == "n":
            same = False if a[1].rsplit(".", 1)[0] == b[1].rsplit(".", 1)[0] else None
        else:
            c = a if a[0] == "c" else b
            same = False if c[1] in (("NoneType", None), ("bool", True), ("bool", False)) else None
        if same is None:
            return None
        return same if isinstance(e.ops[0], (ast.Is, ast.Eq)) else not same
    if isinstance(e, ast.Attribute) and _static_value(e) is not None:
        return None  # an enum member as a test: its truthiness is its own business
    return None


def _kill(env: dict[str, ast.AST], node: ast.AST) -> None:
    for n in ast.walk(node):
        if isinstance(n, ast.Name) and isinstance(n.ctx, (ast.Store, ast.Del)):
            env.pop(n.id, None)


def fold_known(stmts: list[ast.stmt], env: dict[str, ast.AST], known: dict[str, ast.AST] | None = None
               ) -> list[ast.stmt]:
    """Constant propagation over a straight piece of code: locals bound to static values are followed
    into the branch tests that read them and decided tests are replaced by the branch taken; code behind
    a jump is dropped.  Only tests are folded, every other statement stays as it is.  `known`: names that
    are not re-bound in `stmts` and stand for a value of known kind (a caught exception: not None)."""
    out: list[ast.stmt] = []
    known = known or {}
    for st in stmts:
        if isinstance(st, ast.If):
            test = _SubstSided(env, known).visit(copy.deepcopy(st.test)) if env or known else st.test
            tv = None if any(isinstance(x, (ast.Await, ast.NamedExpr, ast.Call)) for x in ast.walk(test)) \
                else static_truth(test)
            if tv is not None:
                out += fold_known(list(st.body if tv else st.orelse), env, known)
            else:
                a = fold_known(list(st.body), dict(env), known)
                b = fold_known(list(st.orelse), dict(env), known)
                _kill(env, st)
                out.append(ast.copy_location(ast.If(
                    test=st.test, body=a or [ast.copy_location(ast.Pass(), st)], orelse=b), st))
        else:
            _kill(env, st)
            if isinstance(st, ast.Assign) and len(st.targets) == 1 and isinstance(st.targets[0], ast.Name):
                if _static_value(st.value) is not None:
                    env[st.targets[0].id] = st.value
                elif isinstance(st.value, ast.Name) and st.value.id in known \
                        and not getattr(st.value, "_caller", False):
                    env[st.targets[0].id] = known[st.value.id]
            out.append(st)
        if out and (isinstance(out[-1], _JUMPS) or (
                isinstance(out[-1], ast.If) and out[-1].orelse and _all_paths_jump(out[-1].body)
                and _all_paths_jump(out[-1].orelse))):
            break
    return out


def _all_paths_jump(stmts: list[ast.stmt]) -> bool:
    if not stmts:
        return False
    last = stmts[-1]
    if isinstance(last, _JUMPS):
        return True
    return isinstance(last, ast.If) and bool(last.orelse) and _all_paths_jump(last.body) \
        and _all_paths_jump(last.orelse)


def _loose_jumps(stmts: list[ast.stmt]) -> bool:
    """A `break` / `continue` that belongs to a loop outside `stmts`."""
    for st in stmts:
        if isinstance(st, (ast.Break, ast.Continue)):
            return True
        if isinstance(st, (ast.FunctionDef, ast.AsyncFunctionDef, ast.ClassDef)):
            continue
        loop = isinstance(st, (ast.For, ast.AsyncFor, ast.While))
        for field in ("body", "orelse", "finalbody"):
            sub = getattr(st, field, None)
            if isinstance(sub, list) and sub and isinstance(sub[0], ast.stmt) and not (loop and field == "body"):
                if _loose_jumps(sub):
                    return True
        for h in getattr(st, "handlers", []) or []:
            if _loose_jumps(h.body):
                return True
        for c in getattr(st, "cases", []) or []:
            if _loose_jumps(c.body):
                return True
    return False


def _quiet(stmts: list[ast.stmt]) -> bool:
    """Statements that neither raise nor suspend nor touch anything but locals (jumps, bindings of locals
    to simple values, counting, logging): where exactly they run relative to an enclosing try / with of
    the code they are copied into makes no difference."""
    for st in stmts:
        if isinstance(st, (ast.Pass, ast.Break, ast.Continue)):
            continue
        if isinstance(st, ast.Return) and (st.value is None or isinstance(st.value, (ast.Constant, ast.Name))):
            continue
        if isinstance(st, ast.Expr) and (isinstance(st.value, ast.Constant) or (
                isinstance(st.value, ast.Call) and is_logging_call(st.value))):
            continue
        if isinstance(st, (ast.Assign, ast.AugAssign, ast.AnnAssign)):
            tgts = st.targets if isinstance(st, ast.Assign) else [st.target]
            if all(isinstance(t, ast.Name) for t in tgts) and st.value is not None and all(
                    isinstance(x, (ast.Name, ast.Constant, ast.BinOp, ast.operator, ast.expr_context, ast.UnaryOp,
                                   ast.unaryop)) for x in ast.walk(st.value)):
                continue
        if isinstance(st, ast.If) and _effect_free(st.test) and _quiet(st.body) and _quiet(st.orelse):
            continue
        return False
    return True


def _first_evaluated(expr: ast.AST, target: ast.AST) -> bool:
    """Is `target` the first thing `expr` evaluates (so that its value can stand in its place)?"""
    e = expr
    while True:
        if e is target:
            return True
        if isinstance(e, ast.UnaryOp):
            e = e.operand
        elif isinstance(e, ast.NamedExpr) and isinstance(e.target, ast.Name):
            e = e.value
        elif isinstance(e, ast.Compare):
            e = e.left
        elif isinstance(e, ast.BoolOp):
            e = e.values[0]
        else:
            return False


def _valued_helper(prog: Program, fn: FuncInfo, root: ast.AST, nested: dict[str, Any], expr: ast.AST | None
                   ) -> tuple[ast.AST, ast.Call, Any] | None:
    """(the [awaited] call expression, the call, the helper) when `expr` evaluates -- first of all -- a
    private helper that reports an outcome through its return value and could not be read as one
    expression: a coroutine awaited in place, or a function with statements around its returns."""
    if expr is None:
        return None
    for x in ast.walk(expr):
        call = x.value if isinstance(x, ast.Await) else x
        if not isinstance(call, ast.Call) or (not isinstance(x, ast.Await) and any(
                isinstance(p, ast.Await) and p.value is x for p in ast.walk(expr))):
            continue
        h = _helper_target(prog, fn, call, nested)
        if h is None or h is root or h.name in ANCHOR_NAMES or h.name == getattr(root, "name", None) \
                or h.decorator_list and not all(isinstance(d, ast.Name) and d.id in ("staticmethod", "override")
                                                for d in h.decorator_list):
            continue
        if isinstance(h, ast.AsyncFunctionDef) != isinstance(x, ast.Await):
            continue
        body = _strip_doc(h.body)
        rets = [n for b in body for n in walk_no_nested(b) if isinstance(n, ast.Return)]
        if not body or len(body) > 40 or not any(
                r.value is not None and not (isinstance(r.value, ast.Constant) and r.value.value is None)
                for r in rets) or len(rets) > 8 \
                or any(isinstance(n, (ast.Yield, ast.YieldFrom)) for b in body for n in walk_no_nested(b)):
            continue
        if _first_evaluated(expr, x):
            return x, call, h
    return None


def _tail_return_to_else(body: list[ast.stmt]) -> None:
    """`try: A; return v  except ...` == `try: A  except ...  else: return v` for a value that cannot raise."""
    for b in body:
        for n in walk_no_nested(b):
            if isinstance(n, ast.Try) and len(n.body) > 1 and not n.orelse and isinstance(n.body[-1], ast.Return) \
                    and (n.body[-1].value is None or isinstance(n.body[-1].value, (ast.Constant, ast.Name))
                         or _static_value(n.body[-1].value) is not None):
                n.orelse = [n.body.pop()]


def _suites(node: ast.AST) -> Iterable[list[ast.stmt]]:
    for n in walk_no_nested(node):
        for field in ("body", "orelse", "finalbody"):
            sub = getattr(n, field, None)
            if isinstance(sub, list) and sub and isinstance(sub[0], ast.stmt):
                yield sub
        for h in getattr(n, "handlers", []) or []:
            yield h.body
        for c in getattr(n, "cases", []) or []:
            yield c.body


def _rotate(w: ast.While) -> ast.stmt:
    """`while T: B`  ==  `if T: while True: B; if not T: break` (T effect-free, tested again before every
    `continue`): the test at the end of a round sits where the round's outcome is known."""
    def guard() -> ast.stmt:
        return ast.copy_location(ast.If(
            test=ast.UnaryOp(op=ast.Not(), operand=copy.deepcopy(w.test)),
            body=[ast.copy_location(ast.Break(), w)], orelse=[]), w)

    def fix(stmts: list[ast.stmt]) -> None:
        k = 0
        while k < len(stmts):
            b = stmts[k]
            if isinstance(b, ast.Continue):
                stmts[k:k + 1] = [guard(), b]
                k += 2
                continue
            if not isinstance(b, (ast.FunctionDef, ast.AsyncFunctionDef, ast.ClassDef)):
                loop = isinstance(b, (ast.For, ast.AsyncFor, ast.While))
                for field in ("body", "orelse", "finalbody"):
                    sub = getattr(b, field, None)
                    if isinstance(sub, list) and sub and isinstance(sub[0], ast.stmt) and not (loop and field == "body"):
                        fix(sub)
                for hd in getattr(b, "handlers", []) or []:
                    fix(hd.body)
                for cs in getattr(b, "cases", []) or []:
                    fix(cs.body)
            k += 1

    fix(w.body)
    if not _all_paths_jump(w.body):
        w.body.append(guard())
    inner = ast.copy_location(ast.While(test=ast.copy_location(ast.Constant(True), w.test), body=w.body, orelse=[]), w)
    return ast.copy_location(ast.If(test=w.test, body=[inner], orelse=[]), w)


def _match_to_ifs(m: ast.Match) -> list[ast.stmt] | None:
    """`match E: case V1: B1 / case V2 | V3: B2 / case _: B3` over values and singletons as
    `x = E; if x == V1: B1 elif x == V2 or x == V3: B2 else: B3` (None for any other pattern)."""
    name = f"outcome__{getattr(m, 'lineno', 0)}"

    def cond(p: ast.pattern) -> ast.expr | None:
        ref = ast.Name(id=name, ctx=ast.Load())
        if isinstance(p, ast.MatchValue):
            return ast.Compare(left=ref, ops=[ast.Eq()], comparators=[p.value])
        if isinstance(p, ast.MatchSingleton):
            return ast.Compare(left=ref, ops=[ast.Is()], comparators=[ast.Constant(value=p.value)])
        if isinstance(p, ast.MatchOr):
            parts = [cond(x) for x in p.patterns]
            return None if any(x is None for x in parts) else ast.BoolOp(op=ast.Or(), values=parts)  # type: ignore[arg-type]
        if isinstance(p, ast.MatchAs) and p.pattern is None and p.name is None:
            return ast.Constant(value=True)
        return None

    chain: list[ast.stmt] = []
    for case in reversed(m.cases):
        c = cond(case.pattern)
        if c is None or (case.guard is not None and not _effect_free(case.guard)):
            return None
        if case.guard is not None:
            c = ast.BoolOp(op=ast.And(), values=[c, case.guard])
        if isinstance(c, ast.Constant):
            chain = list(case.body)
        else:
            chain = [ast.copy_location(ast.If(test=c, body=list(case.body), orelse=chain), m)]
    head = ast.copy_location(ast.Assign(targets=[ast.Name(id=name, ctx=ast.Store())], value=m.subject), m)
    return [head] + (chain or [ast.copy_location(ast.Pass(), m)])


def splice_valued(prog: Program, fn: FuncInfo, root: ast.AST) -> ast.AST | None:
    """Splice private helpers that hand an *outcome* back to their caller, which branches on it:

        while await self._attempt(n): n += 1            restart = await self._attempt(n)
                                                        if not restart: break
        if await self._attempt(n): ... else: ...        return await self._supervise()

    The helper's body takes the place of the statement and every `return v` in it continues with a copy
    of what the caller does next *for that value*: the test decided for `v` (when `v` is a constant, only
    the branch taken is kept), then the rest of the caller up to its next jump (`continue` at the end of a
    loop body, `return` at the end of the function).  The result is an ordinary function whose CFG has the
    paths of the pair caller + helper, outcome by outcome -- no flag variable is left to be guessed.
    Refused (the call stays opaque) when a continuation would have to be copied into a place where it
    does not mean the same: behind a `return` inside a loop of the helper while the caller's continuation
    jumps, or into a try body / with block / finally of the helper unless it is quiet (see _quiet).
    Returns a new tree, or None when nothing was spliced."""
    root = copy.deepcopy(root)
    spliced_names = set(getattr(root, "_spliced", ()))
    changed = False
    refused: set[int] = set()  # (ids of statements of `root`, which stays alive)
    for _round in range(6):
        nested = {n.name: n for n in ast.walk(root)
                  if isinstance(n, (ast.FunctionDef, ast.AsyncFunctionDef)) and n is not root}
        # `while T(h()): B else: E`  ==  `while True: if T(h()): B  else: E; break`
        for w in [n for n in walk_no_nested(root) if isinstance(n, ast.While)]:
            if _valued_helper(prog, fn, root, nested, w.test) is not None:
                leave: list[ast.stmt] = list(w.orelse) + [ast.copy_location(ast.Break(), w)]
                w.body = [ast.copy_location(ast.If(test=w.test, body=w.body, orelse=leave), w)]
                w.test = ast.copy_location(ast.Constant(True), w.test)
                w.orelse = []
        # `match h(): case A: ... case B: ...` over values: an if-chain on a local
        for suite_ in list(_suites(root)):
            for idx, m in enumerate(suite_):
                if isinstance(m, ast.Match) and _valued_helper(prog, fn, root, nested, m.subject) is not None:
                    chain = _match_to_ifs(m)
                    if chain is not None:
                        suite_[idx:idx + 1] = [ast.fix_missing_locations(x) for x in chain]
        # `flag = True; while flag: flag = h() ...`: the loop test reads the outcome of the round
        def outcome_names(stmts: list[ast.stmt]) -> set[str]:
            out: set[str] = set()
            for b in stmts:
                if isinstance(b, (ast.Assign, ast.AnnAssign)) and b.value is not None \
                        and _valued_helper(prog, fn, root, nested, b.value) is not None:
                    out |= _names_stored(b)
                elif isinstance(b, ast.If):
                    if _valued_helper(prog, fn, root, nested, b.test) is not None:
                        out |= _names_stored(b.test)
                    out |= outcome_names(b.body) | outcome_names(b.orelse)
            return out

        for suite_ in list(_suites(root)):
            for idx, w in enumerate(suite_):
                if isinstance(w, ast.While) and not w.orelse and not isinstance(w.test, ast.Constant) \
                        and _effect_free(w.test) and id(w) not in refused and outcome_names(w.body) & {
                            x.id for x in ast.walk(w.test) if isinstance(x, ast.Name)}:
                    suite_[idx] = _rotate(w)
        found: list[tuple[list[ast.stmt], int, list[ast.stmt] | None]] = []

        def search(suite: list[ast.stmt], after: list[ast.stmt] | None) -> None:
            for i, st in enumerate(suite):
                if found:
                    return
                if id(st) in refused:
                    continue
                rest = (suite[i + 1:] + after) if after is not None else None
                own = st.test if isinstance(st, ast.If) else st.value if isinstance(
                    st, (ast.Assign, ast.AnnAssign, ast.Expr, ast.Return)) else None
                if _valued_helper(prog, fn, root, nested, own) is not None and (
                        rest is not None or isinstance(st, ast.Return)):
                    found.append((suite, i, rest))
                    return
                if isinstance(st, (ast.FunctionDef, ast.AsyncFunctionDef, ast.ClassDef)):
                    continue
                if isinstance(st, ast.If):
                    search(st.body, rest)
                    search(st.orelse, rest)
                elif isinstance(st, (ast.While, ast.For, ast.AsyncFor)):
                    search(st.body, [ast.copy_location(ast.Continue(), st)])
                    search(st.orelse, rest)
                elif isinstance(st, ast.Try):
                    # a handler / the else clause is left for what follows the try statement (a `finally`
                    # would run in between; the try body is left for the else clause under the handlers' eyes)
                    after_try = rest if not st.finalbody else None
                    search(st.body, None)
                    for hd in st.handlers:
                        search(hd.body, after_try)
                    search(st.orelse, after_try)
                    search(st.finalbody, None)
                else:
                    for field in ("body", "orelse", "finalbody"):
                        sub = getattr(st, field, None)
                        if isinstance(sub, list) and sub and isinstance(sub[0], ast.stmt):
                            search(sub, None)
                    for hd in getattr(st, "handlers", []) or []:
                        search(hd.body, None)
                    for cs in getattr(st, "cases", []) or []:
                        search(cs.body, None)

        search(root.body, [ast.copy_location(ast.Return(value=None), root)])  # type: ignore[attr-defined]
        if not found:
            break
        suite, i, rest = found[0]
        st = suite[i]
        own = st.test if isinstance(st, ast.If) else st.value  # type: ignore[attr-defined]
        hit = _valued_helper(prog, fn, root, nested, own)
        assert hit is not None
        target, call, h = hit
        binds = _bind(h, call)
        body = copy.deepcopy(_strip_doc(h.body))
        _tail_return_to_else(body)
        if not _all_paths_jump(body):
            body.append(ast.copy_location(ast.Return(value=None), st))  # (falling off the end)
        problems: list[str] = []

        stored_h = set().union(*[_names_stored(b) for b in body]) if body else set()

        def site_for(value: ast.AST | None, at: ast.stmt, excs: frozenset[str]) -> list[ast.stmt]:
            """What the caller does with the outcome `value`, up to its next jump."""
            v = copy.deepcopy(value) if value is not None else ast.Constant(None)
            ast.copy_location(v, at)
            whole = own is target
            hoist: list[ast.stmt] = []
            if not whole:  # `not h()`, `h() is X`, `(x := h())`: the caller's expression around the outcome
                memo: dict[int, Any] = {}
                expr = _mark(copy.deepcopy(own, memo))
                _replace_node(expr, memo[id(target)], v, awaited=True)
                for ne in [x for x in ast.walk(expr) if isinstance(x, ast.NamedExpr) and x.value is v
                           and isinstance(x.target, ast.Name)]:
                    hoist.append(ast.copy_location(ast.Assign(
                        targets=[_mark(ast.Name(id=ne.target.id, ctx=ast.Store()))], value=v), st))
                    nm = _mark(ast.Name(id=ne.target.id, ctx=ast.Load()))
                    if expr is ne:
                        expr = ast.copy_location(nm, ne)
                    else:
                        _replace_node(expr, ne, nm, awaited=True)
            else:
                expr = v
            # an exception caught by the handler the `return` sits in is an object, never None
            known: dict[str, ast.AST] = {n: ast.Constant(value=Ellipsis) for n in excs if n not in stored_h}
            if isinstance(st, ast.Return):
                return hoist + [ast.copy_location(ast.Return(value=expr), at)]
            cont = [_mark(copy.deepcopy(x)) for x in (rest or [])]
            if isinstance(st, ast.If):
                head: list[ast.stmt] = [ast.copy_location(ast.If(
                    test=expr, body=[_mark(copy.deepcopy(x)) for x in st.body],
                    orelse=[_mark(copy.deepcopy(x)) for x in st.orelse]), st)]
            elif isinstance(st, ast.Expr):
                head = [] if _effect_free(expr) else [ast.copy_location(ast.Expr(value=expr), st)]
            else:
                tg = st.targets[0] if isinstance(st, ast.Assign) and len(st.targets) == 1 else \
                    getattr(st, "target", None)
                if isinstance(tg, ast.Name):
                    head = [ast.copy_location(ast.Assign(targets=[_mark(copy.deepcopy(tg))], value=expr), st)]
                elif whole and isinstance(tg, (ast.Tuple, ast.List)) and isinstance(v, ast.Tuple) \
                        and len(tg.elts) == len(v.elts) and all(isinstance(e, ast.Name) for e in tg.elts) \
                        and not any(isinstance(e, ast.Starred) for e in v.elts) and not any(
                            # (bound one after the other: no component may read an earlier target)
                            isinstance(x, ast.Name) and isinstance(binds.get(x.id), ast.Name)  # type: ignore[union-attr]
                            and binds[x.id].id in {e.id for e in tg.elts[:j]}  # type: ignore[index,union-attr,attr-defined]
                            for j, ve in enumerate(v.elts) for x in ast.walk(ve)):
                    head = [ast.copy_location(ast.Assign(targets=[_mark(copy.deepcopy(e))], value=ve), st)
                            for e, ve in zip(tg.elts, v.elts)]
                else:
                    problems.append("the result is bound to something else than local names")
                    head = []
            return fold_known(hoist + head + cont, {}, known)

        def replace(stmts: list[ast.stmt], trys: tuple[tuple[ast.AST, str], ...], in_loop: bool,
                    excs: frozenset[str] = frozenset()) -> None:
            k = 0
            while k < len(stmts):
                b = stmts[k]
                if isinstance(b, ast.Return):
                    site = site_for(b.value, b, excs)
                    if not isinstance(st, ast.Return):
                        if not _all_paths_jump(site):
                            problems.append("a continuation does not end in a jump")
                        if in_loop and _loose_jumps(site):
                            problems.append("return inside a loop of the helper, the caller's continuation jumps")
                        if not _quiet(site) and any(
                                where in ("body", "final", "with") or getattr(t, "finalbody", None) for t, where in trys):
                            problems.append("a continuation would run inside a try body / with / finally of the helper")
                        if any(where == "final" for _t, where in trys):
                            problems.append("return inside finally")
                    stmts[k:k + 1] = site
                    k += len(site)
                    continue
                if isinstance(b, (ast.FunctionDef, ast.AsyncFunctionDef, ast.ClassDef)):
                    k += 1
                    continue
                if isinstance(b, (ast.For, ast.AsyncFor, ast.While)):
                    replace(b.body, trys, True, excs)
                    replace(b.orelse, trys, in_loop, excs)
                elif isinstance(b, ast.Try) or (hasattr(ast, "TryStar") and isinstance(b, ast.TryStar)):  # type: ignore[attr-defined]
                    replace(b.body, trys + ((b, "body"),), in_loop, excs)
                    for hd in b.handlers:
                        replace(hd.body, trys + ((b, "handler"),), in_loop,
                                excs | {hd.name} if hd.name and hd.type is not None else excs)
                    replace(b.orelse, trys + ((b, "orelse"),), in_loop, excs)
                    replace(b.finalbody, trys + ((b, "final"),), in_loop, excs)
                elif isinstance(b, (ast.With, ast.AsyncWith)):
                    replace(b.body, trys + ((b, "with"),), in_loop, excs)
                elif isinstance(b, ast.If):
                    replace(b.body, trys, in_loop, excs)
                    replace(b.orelse, trys, in_loop, excs)
                elif isinstance(b, ast.Match):
                    for cs in b.cases:
                        replace(cs.body, trys, in_loop, excs)
                k += 1

        if binds is None:
            refused.add(id(st))
            continue
        replace(body, (), False)
        if problems:
            refused.add(id(st))  # (the call stays opaque: the rules say what they miss)
            continue
        # the helper's own names get out of the caller's way; the copied continuations keep theirs
        locals_h: set[str] = set()
        for b in body:
            locals_h |= {n.id for n in ast.walk(b) if isinstance(n, ast.Name)
                         and isinstance(n.ctx, (ast.Store, ast.Del)) and not getattr(n, "_caller", False)}
        handlers_h = [x for b in body for x in ast.walk(b) if isinstance(x, ast.ExceptHandler) and x.name
                      and not getattr(x, "_caller", False)]
        locals_h |= {x.name for x in handlers_h}  # type: ignore[misc]
        tag = h.name.strip("_")
        ren = {n: f"{n}__{tag}" for n in locals_h | set(binds)}
        pre: list[ast.stmt] = []
        mapping: dict[str, ast.AST] = {}
        for pname, arg in binds.items():
            if pname not in locals_h and isinstance(arg, (ast.Name, ast.Attribute, ast.Constant)):
                mapping[pname] = arg
            else:
                pre.append(ast.copy_location(ast.Assign(
                    targets=[ast.Name(id=ren[pname], ctx=ast.Store())], value=arg), st))
        for b in body:
            for nn in ast.walk(b):
                if isinstance(nn, ast.Name) and nn.id in ren and nn.id not in mapping \
                        and not getattr(nn, "_caller", False):
                    nn.id = ren[nn.id]
        for x in handlers_h:
            x.name = ren[x.name]  # type: ignore[index]
        sub = _SubstHelper(mapping)
        body = [sub.visit(b) for b in body]
        for b in body:  # a later round treats what is now the caller's own code as such
            for nn in ast.walk(b):
                if isinstance(nn, ast.Name) and getattr(nn, "_caller", False):
                    del nn._caller  # type: ignore[attr-defined]
        if isinstance(st, ast.Return):
            suite[i:i + 1] = pre + body
        else:
            suite[i:] = pre + body
        spliced_names.add(h.name)
        changed = True
    if not changed:
        return None
    ast.fix_missing_locations(root)
    root._spliced = spliced_names  # type: ignore[attr-defined]
    return root


class _SubstSided(ast.NodeTransformer):
    """Known values of the caller's locals (`env`) go into the caller's names, known kinds of the helper's
    names (`known`) into the helper's: a copied continuation keeps its side (see _mark)."""

    def __init__(self, env: dict[str, ast.AST], known: dict[str, ast.AST]) -> None:
        self.env, self.known = env, known

    def visit_Name(self, node: ast.Name) -> ast.AST:  # noqa: N802
        side = self.env if getattr(node, "_caller", False) else self.known
        if isinstance(node.ctx, ast.Load) and node.id in side:
            return ast.copy_location(copy.deepcopy(side[node.id]), node)
        return node


class _SubstHelper(ast.NodeTransformer):
    """Parameter substitution that leaves the names of a copied caller continuation alone."""

    def __init__(self, mapping: dict[str, ast.AST]) -> None:
        self.mapping = mapping

    def visit_Name(self, node: ast.Name) -> ast.AST:  # noqa: N802
        if isinstance(node.ctx, ast.Load) and node.id in self.mapping and not getattr(node, "_caller", False):
            return ast.copy_location(copy.deepcopy(self.mapping[node.id]), node)
        return node


class _Subst(ast.NodeTransformer):
    def __init__(self, mapping: dict[str, ast.AST]) -> None:
        self.mapping = mapping

    def visit_Name(self, node: ast.Name) -> ast.AST:  # noqa: N802
        if isinstance(node.ctx, ast.Load) and node.id in self.mapping:
            return ast.copy_location(copy.deepcopy(self.mapping[node.id]), node)
        return node


def _bound_inside(expr: ast.AST) -> set[str]:
    """Names bound by comprehensions / lambdas / walrus inside the expression itself."""
    out: set[str] = set()
    for n in ast.walk(expr):
        if isinstance(n, ast.comprehension):
            out |= {x.id for x in ast.walk(n.target) if isinstance(x, ast.Name)}
        elif isinstance(n, ast.Lambda):
            a = n.args
            out |= {x.arg for x in a.args + a.kwonlyargs + a.posonlyargs}
        elif isinstance(n, ast.NamedExpr) and isinstance(n.target, ast.Name):
            out.add(n.target.id)
    return out


# --------------------------------------------------------------------------------- Flow
class Flow:
    def __init__(self, prog: Program, fn: FuncInfo, normalise: bool = True) -> None:
        self.raw = fn
        if normalise:
            try:
                # helpers spliced in, assignment diamonds folded.  Locals are NOT inlined here:
                # inline_locals may move a single-use call into the (possibly conditional) next
                # statement, which is fine for "what is computed" but not for path questions such
                # as "is the created task registered on every path".  Locals are resolved on
                # demand by expand(), which never moves an effect.
                node = inline_helpers(prog, fn)
                for _ in range(3):
                    # helpers the engine leaves alone because of guard-clause returns ...
                    node2 = splice_guarded(prog, fn, node)
                    # ... or because they report an outcome their caller branches on
                    node3 = splice_valued(prog, fn, node2 if node2 is not None else node)
                    if node2 is None and node3 is None:
                        break
                    node = inline_helpers(prog, fn, node=node3 if node3 is not None else node2)
                read_in = set(getattr(node, "_spliced", ()))
                node = fold_diamonds(node)
                self.fn = FuncInfo(fn.name, fn.module, node, fn.cls, fn.outer)
            except AnalysisError:
                raise
            except Exception as exc:  # pylint: disable=broad-except
                raise AnalysisError(f"{fn.qual}: cannot normalise ({type(exc).__name__}: {exc})") from exc
        else:
            self.fn = fn
        self.qual = fn.qual
        self.file = fn.file
        # helpers whose bodies were spliced in: the rules depend on them as well
        self.spliced: list[str] = []
        if normalise:
            for name in sorted(read_in):  # (helpers read in through a helper that was read in)
                target = prog.resolve_method(fn.cls, name) if fn.cls is not None else None
                target = target or fn.module.functions.get(name)
                if target is not None and target.qual != fn.qual:
                    self.spliced.append(target.qual)
            def helper_calls(root: ast.AST) -> dict[str, int]:
                out: dict[str, int] = {}
                for c in ast.walk(root):
                    if isinstance(c, ast.Call):
                        f = c.func
                        key = None
                        if isinstance(f, ast.Name) and f.id.startswith("_"):
                            key = f.id
                        elif isinstance(f, ast.Attribute) and isinstance(f.value, ast.Name) \
                                and f.attr.startswith("_") and not f.attr.startswith("__"):
                            key = f"{f.value.id}.{f.attr}"
                        if key:
                            out[key] = out.get(key, 0) + 1
                return out

            before, after = helper_calls(fn.node), helper_calls(self.fn.node)
            for key, cnt in before.items():
                if after.get(key, 0) >= cnt:
                    continue
                name = key.split(".")[-1]
                target = None
                if "." in key and fn.cls is not None:
                    target = prog.resolve_method(fn.cls, name)
                elif "." not in key:
                    target = fn.module.functions.get(name)
                if target is not None and target.qual not in self.spliced:
                    self.spliced.append(target.qual)
        self.cfg = CFG(self.fn.node, fn.file)
        # `for i in itertools.count(...)` never runs out: its `done` edge is infeasible
        for n in self.cfg.nodes:
            if n.kind == "for" and count_loop(n.ast) is not None:
                for m, lab in list(self.cfg.succ[n.id]):
                    if lab == "done":
                        self.cfg.succ[n.id].remove((m, lab))
                        self.cfg.pred[m].remove((n.id, lab))
        self._expanded: dict[tuple[int, int], ast.AST] = {}
        self._pinned: set[str] = set()
        self._keep: list[ast.AST] = []

    def pin(self, *names: str | None) -> None:
        """Role-bound locals (the counter, the finished-task set, ...) are never expanded: rules
        and valuations talk about them by the name the dataflow binding found."""
        new = {n for n in names if n} - self._pinned
        if new:
            self._pinned |= new
            self._expanded.clear()

    # ---------------------------------------------------------------- reaching definitions
    def reaching(self, nid: int, name: str) -> tuple[list[int], bool]:
        """(nodes whose write of `name` can reach the *entry* of `nid`, value at function entry
        can reach as well)."""
        cfg = self.cfg
        out: list[int] = []
        seen: set[int] = set()
        stack = [nid]
        from_entry = False
        while stack:
            n = stack.pop()
            for p, _lab in cfg.pred[n]:
                if p in seen:
                    continue
                seen.add(p)
                if p == cfg.entry:
                    from_entry = True
                    continue
                if any(u(w) == name for w in node_writes(cfg, p)):
                    out.append(p)
                    continue
                stack.append(p)
        return out, from_entry

    def unique_def(self, nid: int, name: str, any_rhs: bool = False) -> tuple[int, ast.AST] | None:
        """(node, right-hand side) of the only definition of `name` reaching `nid`.  Unless
        `any_rhs`, right-hand sides that await or bind names (walrus) are refused: they cannot be
        substituted into a use."""
        defs, from_entry = self.reaching(nid, name)
        if from_entry or len(defs) != 1:
            return None
        d = self.cfg.nodes[defs[0]]
        a = d.ast
        rhs: ast.AST | None = None
        if d.kind != "stmt":
            return None
        if isinstance(a, ast.Assign) and len(a.targets) == 1 and isinstance(a.targets[0], ast.Name) \
                and a.targets[0].id == name:
            rhs = a.value
        elif isinstance(a, ast.AnnAssign) and isinstance(a.target, ast.Name) and a.target.id == name:
            rhs = a.value
        elif isinstance(a, ast.Assign) and len(a.targets) == 1 and isinstance(a.targets[0], (ast.Tuple, ast.List)):
            # `x, y = (a, b) if c else (d, e)`: the component bound to `name`
            elts = a.targets[0].elts
            idx = [k for k, e in enumerate(elts) if isinstance(e, ast.Name) and e.id == name]
            if len(idx) == 1 and not any(isinstance(e, ast.Starred) for e in elts):
                rhs = _project(a.value, idx[0], len(elts))
        if rhs is None or (not any_rhs and any(
                isinstance(x, (ast.Await, ast.Yield, ast.YieldFrom, ast.NamedExpr)) for x in ast.walk(rhs))):
            return None
        if any(isinstance(x, ast.Name) and x.id == name for x in ast.walk(rhs)):
            return None
        return defs[0], rhs

    def _stable(self, dn: int, nid: int, rhs: ast.AST, name: str) -> bool:
        """Nothing read by `rhs` can change on any path from the definition `dn` to the use `nid`,
        and the object bound to `name` is not mutated in between (so that the use still denotes
        the value of `rhs`)."""
        cfg = self.cfg
        reads = {u(x) for x in ast.walk(rhs)
                 if (isinstance(x, ast.Name) and isinstance(x.ctx, ast.Load))
                 or isinstance(x, (ast.Attribute, ast.Subscript))}
        reads.add(name)
        has_state = any(isinstance(x, (ast.Attribute, ast.Subscript)) for x in ast.walk(rhs))
        fwd = cfg.reachable([m for m, _ in cfg.succ[dn]], avoid=[dn])
        bwd = cfg.co_reachable([nid], avoid=[dn])
        between = (fwd & bwd) - {nid}
        if nid in cfg.reachable([m for m, _ in cfg.succ[nid]], avoid=[dn]):
            between.add(nid)

        def related(a: str, b: str) -> bool:
            return a == b or a.startswith(b + ".") or a.startswith(b + "[") \
                or b.startswith(a + ".") or b.startswith(a + "[")

        for b in between:
            n = cfg.nodes[b]
            if n.ast is None:
                continue
            for w in node_writes(cfg, b):
                if any(related(r, u(w)) for r in reads):
                    return False
            if has_state and cfg.is_await(b):
                return False
            for c in own_calls(n):
                if is_logging_call(c):
                    continue
                if isinstance(c.func, ast.Attribute) and c.func.attr in MUTATORS \
                        and any(related(r, u(c.func.value)) for r in reads):
                    return False
        return True

    def expand(self, nid: int, expr: ast.AST, depth: int = 4) -> ast.AST:
        """`expr` as evaluated at node `nid` with stable single-definition locals substituted."""
        key = (nid, id(expr))
        if depth == 4 and key in self._expanded:
            return self._expanded[key]
        out = expr
        if depth > 0:
            bound = _bound_inside(expr)
            names = {x.id for x in ast.walk(expr)
                     if isinstance(x, ast.Name) and isinstance(x.ctx, ast.Load)} - bound - self._pinned
            mapping: dict[str, ast.AST] = {}
            for name in sorted(names):
                d = self.unique_def(nid, name)
                if d is None:
                    continue
                dn, rhs = d
                if not self._stable(dn, nid, rhs, name):
                    continue
                mapping[name] = self.expand(dn, rhs, depth - 1)
            if mapping:
                out = ast.fix_missing_locations(_Subst(mapping).visit(copy.deepcopy(expr)))
        if depth == 4:
            self._expanded[key] = out
            self._keep.append(expr)  # keep `expr` alive: the cache is keyed by id()
        return out

    def text(self, nid: int, expr: ast.AST | None) -> str:
        return "" if expr is None else u(self.expand(nid, expr))

    def subtexts(self, nid: int, expr: ast.AST | None) -> set[str]:
        if expr is None:
            return set()
        return {u(x) for x in ast.walk(self.expand(nid, expr)) if isinstance(x, ast.expr)}

    # ---------------------------------------------------------------- tests under valuations
    def test_expr(self, nid: int) -> ast.AST | None:
        n = self.cfg.nodes[nid]
        if n.kind == "test":
            return n.ast
        if n.kind == "while" and n.ast is not None:
            return n.ast.test  # type: ignore[attr-defined]
        return None

    def tests(self, among: Iterable[int] | None = None) -> list[int]:
        ids = range(len(self.cfg.nodes)) if among is None else among
        return [i for i in ids if self.test_expr(i) is not None]

    def canon_test(self, nid: int) -> Any:
        e = self.test_expr(nid)
        if e is None:
            raise AnalysisError(f"{self.qual}: node {nid} is not a branch test")
        return canon_total(self.expand(nid, e))

    def truth(self, nid: int, val: Valuation) -> bool | None:
        e = self.test_expr(nid)
        if e is None:
            raise AnalysisError(f"{self.qual}: node {nid} is not a branch test")
        return kleene_ast(self.expand(nid, e), val)

    def decides(self, nid: int, val: Valuation) -> bool:
        """Does the test at `nid` mention any atom of the valuation?"""
        e = self.test_expr(nid)
        if e is None:
            return False
        out = False
        for a in atoms_ast(self.expand(nid, e)):
            try:
                out = out or a in val
            except TypeError:
                pass
        return out

    def consistent(self, val: Valuation, normal: bool = False) -> EdgeOk:
        cache: dict[int, bool | None] = {}

        def ok(a: int, _b: int, lab: str) -> bool:
            if normal and lab.startswith("exc:"):
                return False
            if lab not in ("true", "false") or self.test_expr(a) is None:
                return True
            if a not in cache:
                cache[a] = self.truth(a, val)
            r = cache[a]
            return r is None or r == (lab == "true")

        return ok

    # ---------------------------------------------------------------- convenience
    def fmt(self, path: list[tuple[int, str]] | None) -> list[str]:
        return self.cfg.describe_path(path)

    def calls(self, pred: Callable[[ast.Call], bool]) -> list[tuple[int, ast.Call]]:
        """(node, call) for every call in a node's own expressions that satisfies `pred`."""
        out = []
        for n in self.cfg.nodes:
            if n.ast is None:
                continue
            for c in own_calls(n):
                if pred(c):
                    out.append((n.id, c))
        return out

    def awaited(self, nid: int, call: ast.Call) -> bool:
        return any(isinstance(x, ast.Await) and x.value is call
                   for part in own_parts(self.cfg.nodes[nid]) for x in walk_no_nested(part))


def loop_leaks(loop: ast.AST) -> list[ast.stmt]:
    """`break` (of this loop) and `return` statements inside a loop body: ways of ending the loop
    before every element was visited."""
    out: list[ast.stmt] = []

    def visit(stmts: list[ast.stmt], own: bool) -> None:
        for s in stmts:
            if isinstance(s, ast.Return) or (own and isinstance(s, ast.Break)):
                out.append(s)
            if isinstance(s, (ast.FunctionDef, ast.AsyncFunctionDef, ast.ClassDef)):
                continue
            inner_loop = isinstance(s, (ast.For, ast.AsyncFor, ast.While))
            for field in ("body", "orelse", "finalbody"):
                sub = getattr(s, field, None)
                if isinstance(sub, list) and sub and isinstance(sub[0], ast.stmt):
                    visit(sub, own and not (inner_loop and field == "body"))
            for h in getattr(s, "handlers", []) or []:
                visit(h.body, own)
            for c in getattr(s, "cases", []) or []:
                visit(c.body, own)

    visit(getattr(loop, "body", []), True)
    return out


# --------------------------------------------------------------------------------- task registration
def registered(fl: Flow, nid: int, call: ast.Call, container: str = "self._tasks"
               ) -> tuple[bool, list[tuple[int, str]] | None]:
    """Does the task created by `call` (inside CFG node `nid`) flow into `<container>.add(...)` on
    every normal path to the function exit?  Either the creating call is (part of) the argument of
    the add, or it is bound to a local that is added before the function can return."""
    cfg = fl.cfg
    n = cfg.nodes[nid]

    def is_add(c: ast.Call) -> bool:
        return isinstance(c.func, ast.Attribute) and c.func.attr == "add" and u(c.func.value) == container

    for c in own_calls(n):
        if is_add(c) and any(x is call for a in c.args for x in ast.walk(a)):
            return True, None
    a = n.ast
    name = None
    if isinstance(a, ast.Assign) and len(a.targets) == 1 and isinstance(a.targets[0], ast.Name) \
            and a.value is call:
        name = a.targets[0].id
    elif isinstance(a, ast.AnnAssign) and isinstance(a.target, ast.Name) and a.value is call:
        name = a.target.id
    if name is None:
        return False, None
    adds = [i for i, c in fl.calls(lambda c: is_add(c) and [u(x) for x in c.args] == [name])]
    rebinds = [m.id for m in cfg.nodes if m.id != nid and any(u(w) == name for w in node_writes(cfg, m.id))]
    if not adds:
        return False, None
    normal = lambda _a, _b, lab: not lab.startswith("exc:")  # noqa: E731
    wit = cfg.path(nid, [cfg.exit] + rebinds, avoid=adds, edge_ok=normal, include_src=False)
    return wit is None, wit
