"""Dataflow / shape helpers shared by the C15 checker and the C01.B rules.

Everything here binds *roles* (the failed-power accumulator, the failed set, the allocation map that
is sent, the task map, the addressed-battery map, the processed request ...) by how values flow --
which parameter is subscripted by the loop key, which name is passed as `failed_components=`, which
dict receives the `set_power` tasks -- never by what a local variable happens to be called.  Names
that may be relied on: callee / attribute names of public or anchored API (`set_power`, `result`,
`asyncio.wait`, `asyncio.gather`, `_parse_result`, `_set_distributed_power`, `_cancel_tasks`,
`Success`, `PartialFailure` and their dataclass fields, `DistributionResult.distribution /
.remaining_power`, `Request.power`) and type annotations of parameters.
"""
from __future__ import annotations

import ast
from typing import Any, Callable

from ..engine.cfg import CFG
from ..engine.normalize import positional
from ..engine.report import AnalysisError
from ..engine.resolver import ClassInfo, FuncInfo, Program
from ..engine.terms import Poly, TermEval
from ..engine.util import canon_total, method_call, nodes_with_call, reaching_defs, u

RESULT_MOD = "microgrid._power_distributing.result"
SET_POWER_PARAMS = ["component_id", "power_w"]  # frequenz.client.microgrid: set_power(component_id, power_w)


# ------------------------------------------------------------------ signatures
def ann_base(a: ast.AST | None) -> str:
    """`Request`, `"Request"`, `result.Request`, `Request | None`-less base name of an annotation."""
    if a is None:
        return ""
    t = a.value if isinstance(a, ast.Constant) and isinstance(a.value, str) else u(a)
    return t.strip("'\" ").split("[")[0].split(".")[-1].strip()


def typed_param(fn: FuncInfo, tname: str, default: str | None = None) -> str | None:
    """The one parameter annotated with class `tname` (else a parameter literally called `default`)."""
    a = fn.node.args
    hits = [x.arg for x in a.posonlyargs + a.args + a.kwonlyargs if ann_base(x.annotation) == tname]
    if len(hits) == 1:
        return hits[0]
    if not hits and default is not None and default in fn.params:
        return default
    return None


def method_params(fn: FuncInfo) -> list[str]:
    """Parameter names a call site binds (without self/cls)."""
    ps = list(fn.params)
    static = any(isinstance(d, ast.Name) and d.id == "staticmethod" for d in fn.node.decorator_list)
    if fn.cls is not None and ps and ps[0] in ("self", "cls") and not static:
        ps = ps[1:]
    return ps


def bound_args(call: ast.Call, params: list[str], what: str = "call") -> dict[str, ast.AST]:
    """Arguments by parameter name; positional and keyword spellings coincide."""
    if any(isinstance(a, ast.Starred) for a in call.args) or any(k.arg is None for k in call.keywords):
        raise AnalysisError(f"{what}: star-arguments cannot be bound to parameters")
    if len(call.args) > len(params):
        raise AnalysisError(f"{what}: more positional arguments than parameters {params}")
    return positional(call, params)


def dataclass_fields(prog: Program, cls: ClassInfo) -> list[str]:
    """Constructor field order of a dataclass (bases first, as dataclasses collects them)."""
    out: list[str] = []
    for c in reversed(prog.mro(cls)):
        for s in c.node.body:
            if isinstance(s, ast.AnnAssign) and isinstance(s.target, ast.Name) \
                    and "ClassVar" not in u(s.annotation) and s.target.id not in out:
                out.append(s.target.id)
    return out


def result_fields(prog: Program, kind: str) -> list[str]:
    fields = dataclass_fields(prog, prog.cls(f"{RESULT_MOD}:{kind}"))
    need = {"request", "succeeded_power", "succeeded_components", "excess_power"}
    if kind == "PartialFailure":
        need |= {"failed_power", "failed_components"}
    if not need <= set(fields):
        raise AnalysisError(f"{kind}: dataclass fields {sorted(need - set(fields))} not found in result.py")
    return fields


def is_result_ctor(c: ast.Call) -> bool:
    return u(c.func).split(".")[-1] in ("Success", "PartialFailure")


def ctor_kind(c: ast.Call) -> str:
    return u(c.func).split(".")[-1]


# ------------------------------------------------------------------ statement shapes
def name_delta(s: ast.AST, te: TermEval | None = None) -> tuple[str, Poly] | None:
    """`L += e`, `L -= e`, `L = L + e`, `L = e + L`, `L = L - e` on a plain local -> (L, Δ)."""
    te = te or TermEval()
    if isinstance(s, ast.AugAssign) and isinstance(s.target, ast.Name) and isinstance(s.op, (ast.Add, ast.Sub)):
        d = te.ev(s.value)
        return s.target.id, (d if isinstance(s.op, ast.Add) else -d)
    tgt = val = None
    if isinstance(s, ast.Assign) and len(s.targets) == 1:
        tgt, val = s.targets[0], s.value
    elif isinstance(s, ast.AnnAssign) and s.value is not None:
        tgt, val = s.target, s.value
    if isinstance(tgt, ast.Name) and val is not None and any(
            isinstance(x, ast.Name) and x.id == tgt.id for x in ast.walk(val)):
        d = te.ev(val) - Poly.atom(tgt.id)
        if tgt.id not in d.atoms():
            return tgt.id, d
    return None


def subscript_atom(p: Poly) -> tuple[str, str] | None:
    """If the term is the single atom `X[k]` (names X, k) return (X, k)."""
    a = p.as_atom()
    if a is None:
        return None
    try:
        e = ast.parse(a, mode="eval").body
    except SyntaxError:
        return None
    if isinstance(e, ast.Subscript) and isinstance(e.slice, ast.Name):
        return u(e.value), e.slice.id
    return None


def set_growth(s: ast.AST) -> tuple[str, list[ast.AST]] | None:
    """`S.add(x)`, `S.update(xs)`, `S |= xs`, `S = S | xs`, `S = S.union(xs)` -> (S, [operands])."""
    if isinstance(s, ast.Expr) and isinstance(s.value, ast.Call) and isinstance(s.value.func, ast.Attribute) \
            and s.value.func.attr in ("add", "update") and isinstance(s.value.func.value, ast.Name):
        return s.value.func.value.id, list(s.value.args)
    if isinstance(s, ast.AugAssign) and isinstance(s.op, ast.BitOr) and isinstance(s.target, ast.Name):
        return s.target.id, [s.value]
    if isinstance(s, ast.Assign) and len(s.targets) == 1 and isinstance(s.targets[0], ast.Name):
        name, v = s.targets[0].id, s.value
        if isinstance(v, ast.BinOp) and isinstance(v.op, ast.BitOr):
            if isinstance(v.left, ast.Name) and v.left.id == name:
                return name, [v.right]
            if isinstance(v.right, ast.Name) and v.right.id == name:
                return name, [v.left]
        if isinstance(v, ast.Call) and method_call(v, name, "union"):
            return name, list(v.args)
    return None


def loop_binding(loop: Any) -> tuple[str, str, str | None] | None:
    """(map text, key name, value name | None) of `for k, v in M.items()` / `for k in M[.keys()]`
    (works for `ast.For` and `ast.comprehension`)."""
    it, tgt = loop.iter, loop.target
    if isinstance(it, ast.Call) and isinstance(it.func, ast.Attribute) and not it.args and not it.keywords:
        if it.func.attr == "items" and isinstance(tgt, (ast.Tuple, ast.List)) and len(tgt.elts) == 2 \
                and all(isinstance(e, ast.Name) for e in tgt.elts):
            return u(it.func.value), tgt.elts[0].id, tgt.elts[1].id  # type: ignore[union-attr]
        if it.func.attr == "keys" and isinstance(tgt, ast.Name):
            return u(it.func.value), tgt.id, None
        return None
    if isinstance(it, (ast.Name, ast.Attribute)) and isinstance(tgt, ast.Name):
        return u(it), tgt.id, None
    return None


def contains(root: ast.AST, sub: ast.AST) -> bool:
    return any(x is sub for x in ast.walk(root))


# ------------------------------------------------------------------ flow-sensitive name resolution
def plain_def_value(cfg: CFG, def_nid: int, name: str) -> ast.AST | None:
    n = cfg.nodes[def_nid]
    s = n.ast
    if n.kind != "stmt":
        return None
    if isinstance(s, ast.Assign) and len(s.targets) == 1 and isinstance(s.targets[0], ast.Name) \
            and s.targets[0].id == name:
        return s.value
    if isinstance(s, ast.AnnAssign) and isinstance(s.target, ast.Name) and s.target.id == name:
        return s.value
    return None


def _fresh_container(v: ast.AST) -> bool:
    if isinstance(v, (ast.Dict, ast.Set, ast.List, ast.DictComp, ast.SetComp, ast.ListComp)):
        return True
    return isinstance(v, ast.Call) and u(v.func) in ("set", "dict", "list", "frozenset") and not v.args and not v.keywords


def set_term(cfg: CFG, nid: int, e: ast.AST, depth: int = 8) -> tuple:
    """Canonical form of a set-valued expression evaluated at CFG node `nid`:

        ("keys", D)       set(D.keys()) / set(D) / D.keys() / frozenset(D)
        ("diff", a, b)    a - b / a.difference(b)
        ("name", N)       a variable that is not a pure alias (accumulator, parameter, unpacked result)
        ("opaque", text)

    A local with exactly one reaching plain assignment is replaced by that assignment's term."""
    if depth <= 0:
        return ("opaque", u(e))
    if isinstance(e, ast.Name):
        defs = reaching_defs(cfg, nid, e.id)
        if len(defs) == 1:
            v = plain_def_value(cfg, defs[0], e.id)
            if v is not None and not _fresh_container(v):
                return set_term(cfg, defs[0], v, depth - 1)
        return ("name", e.id)
    if isinstance(e, ast.Call):
        f = e.func
        if isinstance(f, ast.Name) and f.id in ("set", "frozenset") and len(e.args) == 1 and not e.keywords:
            inner = set_term(cfg, nid, e.args[0], depth - 1)
            return ("keys", inner[1]) if inner[0] == "name" else inner
        if isinstance(f, ast.Attribute) and not e.keywords:
            if f.attr == "keys" and not e.args:
                inner = set_term(cfg, nid, f.value, depth - 1)
                return ("keys", inner[1]) if inner[0] == "name" else ("opaque", u(e))
            if f.attr == "copy" and not e.args:
                return set_term(cfg, nid, f.value, depth - 1)
            if f.attr == "difference" and len(e.args) == 1:
                return ("diff", set_term(cfg, nid, f.value, depth - 1), set_term(cfg, nid, e.args[0], depth - 1))
    if isinstance(e, ast.BinOp) and isinstance(e.op, ast.Sub):
        return ("diff", set_term(cfg, nid, e.left, depth - 1), set_term(cfg, nid, e.right, depth - 1))
    return ("opaque", u(e))


def show_term(t: tuple) -> str:
    if t[0] == "keys":
        return f"keys({t[1]})"
    if t[0] == "diff":
        return f"{show_term(t[1])} - {show_term(t[2])}"
    return str(t[1])


# ------------------------------------------------------------------ set objects changed in place
SET_GROWERS = ("add", "update")
SET_SHRINKERS = ("discard", "remove", "pop", "clear", "difference_update", "intersection_update",
                 "symmetric_difference_update")
_INPLACE_SET_OPS = {ast.Sub: "-=", ast.BitOr: "|=", ast.BitAnd: "&=", ast.BitXor: "^="}


def inplace_changes(root: ast.AST) -> list[tuple[ast.AST, ast.AST, str, bool]]:
    """Every construct under `root` that changes a set object IN PLACE (as opposed to rebinding a name to a
    new object): `R -= x`, `R |= x`, `R &= x`, `R ^= x` and `R.add/update/discard/remove/pop/clear/
    difference_update/intersection_update/symmetric_difference_update(..)` with R a name or an attribute.
    -> (construct, receiver expression R, spelling, grows-only)."""
    out: list[tuple[ast.AST, ast.AST, str, bool]] = []
    for n in ast.walk(root):
        if isinstance(n, ast.AugAssign) and type(n.op) in _INPLACE_SET_OPS and isinstance(n.target, (ast.Name, ast.Attribute)):
            out.append((n, n.target, f"{u(n.target)} {_INPLACE_SET_OPS[type(n.op)]} ..", isinstance(n.op, ast.BitOr)))
        elif isinstance(n, ast.Call) and isinstance(n.func, ast.Attribute) and isinstance(n.func.value, (ast.Name, ast.Attribute)) \
                and n.func.attr in SET_GROWERS + SET_SHRINKERS:
            out.append((n, n.func.value, f"{u(n.func)}(..)", n.func.attr in SET_GROWERS))
    return out


# ------------------------------------------------------------------ a fresh set that is still being built
# `N = set(x); N -= y` computes the same value as `N = set(x) - y` -- as long as N's object is the one the
# function itself has just created and nobody else can hold it yet.  The rules read the value of a set off its
# DEFINING EXPRESSION (C15.SETS) and treat in-place changes as edits of an object that may be shared
# (C15.FROZEN); both follow such straight-line building once the in-place step is read as what it is on an
# unshared object: a rebinding to the functional form of the operation.
_SET_BINOPS = (ast.Sub, ast.BitOr, ast.BitAnd, ast.BitXor)
_SET_ONLY_FUNCTIONAL = ("difference", "union", "intersection", "symmetric_difference")
_SET_NONMUTATING = _SET_ONLY_FUNCTIONAL + ("copy", "issubset", "issuperset", "isdisjoint")
_VALUE_READERS = ("len", "set", "frozenset", "list", "tuple", "sorted", "sum", "min", "max", "any", "all", "bool",
                  "str", "repr")
# in-place method -> functional method of the same operation (None: spelled with an operator on a one-element set)
_FUNCTIONAL_FORM = {"difference_update": "difference", "update": "union", "intersection_update": "intersection",
                    "symmetric_difference_update": "symmetric_difference", "add": None, "discard": None}


def fresh_set_expr(v: ast.AST | None, set_names: "frozenset[str] | set[str]" = frozenset()) -> bool:
    """Does evaluating `v` CREATE a set object (one that nothing else refers to yet)?  `set(..)`, a set display /
    comprehension, `a.difference(b)` / union / intersection / symmetric_difference (methods only sets have),
    `s.copy()` of a set, and `a - b`, `a | b`, `a & b`, `a ^ b` with an operand that is known to be a set
    (a created set, a `.keys()` / `.items()` view, a local in `set_names`)."""
    def settish(e: ast.AST) -> bool:
        if isinstance(e, ast.Name):
            return e.id in set_names
        if isinstance(e, ast.Call) and isinstance(e.func, ast.Attribute) and e.func.attr in ("keys", "items") \
                and not e.args and not e.keywords:
            return True
        return fresh_set_expr(e, set_names)

    if isinstance(v, (ast.Set, ast.SetComp)):
        return True
    if isinstance(v, ast.Call) and not v.keywords:
        if isinstance(v.func, ast.Name) and v.func.id == "set" and len(v.args) <= 1 \
                and not any(isinstance(a, ast.Starred) for a in v.args):
            return True
        if isinstance(v.func, ast.Attribute):
            if v.func.attr in _SET_ONLY_FUNCTIONAL:
                return True
            if v.func.attr == "copy" and not v.args:
                return settish(v.func.value)
    if isinstance(v, ast.BinOp) and isinstance(v.op, _SET_BINOPS):
        return settish(v.left) or settish(v.right)
    return False


def _plain_binding(s: ast.AST) -> tuple[str, ast.AST] | None:
    """`N = e` / `N: T = e` with one plain name as the target -> (N, e)."""
    if isinstance(s, ast.Assign) and len(s.targets) == 1 and isinstance(s.targets[0], ast.Name):
        return s.targets[0].id, s.value
    if isinstance(s, ast.AnnAssign) and isinstance(s.target, ast.Name) and s.value is not None:
        return s.target.id, s.value
    return None


def _inplace_step(s: ast.AST) -> tuple[str, ast.AST] | None:
    """A STATEMENT that changes the set held by a plain local in place and has a functional twin:
    `N -= x`, `N |= x`, `N &= x`, `N ^= x`, `N.difference_update(..)`, `N.update(..)`, `N.intersection_update(..)`,
    `N.symmetric_difference_update(x)`, `N.add(k)`, `N.discard(k)` -> (N, the expression `N <op> x` of the new value).
    (`remove` / `pop` can raise and `clear` forgets the value: they have no twin and stay in-place changes.)"""
    if isinstance(s, ast.AugAssign) and isinstance(s.target, ast.Name) and isinstance(s.op, _SET_BINOPS):
        return s.target.id, ast.BinOp(left=ast.Name(id=s.target.id, ctx=ast.Load()), op=s.op, right=s.value)
    if isinstance(s, ast.Expr) and isinstance(s.value, ast.Call) and isinstance(s.value.func, ast.Attribute) \
            and isinstance(s.value.func.value, ast.Name) and s.value.func.attr in _FUNCTIONAL_FORM \
            and not s.value.keywords and not any(isinstance(a, ast.Starred) for a in s.value.args):
        c = s.value
        name, meth = c.func.value.id, c.func.attr  # type: ignore[attr-defined]
        twin = _FUNCTIONAL_FORM[meth]
        if twin is None:
            if len(c.args) != 1:
                return None
            return name, ast.BinOp(left=ast.Name(id=name, ctx=ast.Load()), op=ast.BitOr() if meth == "add" else ast.Sub(),
                                   right=ast.Set(elts=[c.args[0]]))
        if meth == "symmetric_difference_update" and len(c.args) != 1:
            return None
        return name, ast.Call(func=ast.Attribute(value=ast.Name(id=name, ctx=ast.Load()), attr=twin, ctx=ast.Load()),
                              args=list(c.args), keywords=[])
    return None


def _parents(root: ast.AST) -> dict[int, ast.AST]:
    out: dict[int, ast.AST] = {}
    for p in ast.walk(root):
        for c in ast.iter_child_nodes(p):
            out[id(c)] = p
    return out


def _reads_value_only(use: ast.Name, parents: dict[int, ast.AST]) -> bool:
    """The occurrence `use` of a variable only looks at the VALUE of its object: nothing keeps a reference to
    the object (no second name, no container, no callee, no result) and nothing changes it."""
    p = parents.get(id(use))
    if p is None:
        return True                                             # the whole test of an if / while, the iterable of a for
    if isinstance(p, (ast.Compare, ast.FormattedValue)) or (isinstance(p, ast.UnaryOp) and isinstance(p.op, ast.Not)):
        return True
    if isinstance(p, ast.BoolOp):
        return _reads_value_only(p, parents)                    # `N or x` may BE N's object: judged where it is used
    if isinstance(p, ast.BinOp) and isinstance(p.op, _SET_BINOPS):
        return True                                             # a new object
    if isinstance(p, (ast.If, ast.While, ast.IfExp)) and p.test is use:
        return True
    if isinstance(p, (ast.For, ast.AsyncFor)) and p.iter is use:
        return True
    if isinstance(p, ast.comprehension) and p.iter is use:
        comp = parents.get(id(p))
        if isinstance(comp, ast.GeneratorExp):                  # lazy: fine only when consumed on the spot
            q = parents.get(id(comp))
            return isinstance(q, ast.Call) and isinstance(q.func, ast.Name) and q.func.id in _VALUE_READERS and comp in q.args
        return isinstance(comp, (ast.ListComp, ast.SetComp, ast.DictComp))
    if isinstance(p, ast.Call) and use in p.args:
        if isinstance(p.func, ast.Name) and p.func.id in _VALUE_READERS:
            return True
        f = u(p.func)
        return f.split(".")[0] in ("_logger", "logging", "_log")
    if isinstance(p, ast.Attribute) and p.value is use and p.attr in _SET_NONMUTATING:
        q = parents.get(id(p))
        return isinstance(q, ast.Call) and q.func is p
    return False


def _touches(cfg: CFG, nid: int, name: str) -> bool:
    """CFG node `nid` binds the variable `name` or changes the object it holds in place."""
    from ..engine.cfg import own_parts
    from ..engine.util import node_writes

    n = cfg.nodes[nid]
    if n.ast is None:
        return False
    if n.kind == "handler":
        return getattr(n.ast, "name", None) == name
    if any(isinstance(w, ast.Name) and w.id == name for w in node_writes(cfg, nid)):
        return True
    for part in own_parts(n):
        if isinstance(part, (ast.FunctionDef, ast.AsyncFunctionDef, ast.ClassDef)) and part.name == name:
            return True
        if isinstance(part, (ast.Import, ast.ImportFrom)) and any((a.asname or a.name.split(".")[0]) == name for a in part.names):
            return True
        if any(isinstance(recv, ast.Name) and recv.id == name for _c, recv, _t, _g in inplace_changes(part)):
            return True
    return False


def _known_set_names(root: ast.AST) -> set[str]:
    """Locals every binding of which creates a set (least fixpoint over the plain bindings of the function)."""
    from ..engine.resolver import walk_no_nested

    binds: dict[str, list[ast.AST | None]] = {}
    for s in walk_no_nested(root):
        pb = _plain_binding(s)
        if pb is not None:
            binds.setdefault(pb[0], []).append(s)
            continue
        for x in ast.walk(s) if isinstance(s, (ast.Assign, ast.AnnAssign, ast.AugAssign, ast.NamedExpr, ast.Delete)) else []:
            if isinstance(x, ast.Name) and isinstance(x.ctx, (ast.Store, ast.Del)):
                binds.setdefault(x.id, []).append(None)
        if isinstance(s, (ast.For, ast.AsyncFor, ast.comprehension)):
            for x in ast.walk(s.target):
                if isinstance(x, ast.Name):
                    binds.setdefault(x.id, []).append(None)
        elif isinstance(s, ast.withitem) and s.optional_vars is not None:
            for x in ast.walk(s.optional_vars):
                if isinstance(x, ast.Name):
                    binds.setdefault(x.id, []).append(None)
        elif isinstance(s, ast.ExceptHandler) and s.name:
            binds.setdefault(s.name, []).append(None)
    a = getattr(root, "args", None)
    if a is not None:
        for p in a.posonlyargs + a.args + a.kwonlyargs + [x for x in (a.vararg, a.kwarg) if x is not None]:
            binds.setdefault(p.arg, []).append(None)
    known: set[str] = set()
    for _ in range(4):
        new = {nm for nm, bs in binds.items() if all(
            b is not None and (getattr(b, "_c15_fresh", False) or fresh_set_expr(_plain_binding(b)[1], known))  # type: ignore[index]
            for b in bs)}
        if new == known:
            break
        known = new
    return known


def rebind_fresh_builds(fn: ast.AST, rounds: int = 6) -> ast.AST:
    """Analysis view of a function in which the straight-line BUILDING of a set the function has just created
    is written as what it computes: an in-place step (`N -= x`, `N |= x`, `N.difference_update(x)`, `N.discard(k)` ...)
    becomes the rebinding `N = N - x` (`N | x`, `N.difference(x)`, `N - {k}` ...) when, at that statement,

      * on EVERY path the last statement that bound N or changed its object is one and the same statement D, and
        D is `N = <an expression that creates a set>` (`set(..)`, `x.copy()`, a comprehension, `a - b` ...) or an
        earlier step of the same kind -- so a step inside a loop whose set was created outside it (the value then
        depends on the iterations), a set that arrives from elsewhere (a parameter, a call result, an attribute) and
        a set created in only one of two arms do not qualify;
      * between D and the step N's object cannot have been shared: every occurrence of N on the way only reads
        its value (len / truth / comparison / iteration / operand of a set operator / `set(N)`, `sorted(N)`, logging
        ...); a second name, a container, a result constructor, a `return` or any other call that receives it ends
        the building phase -- from then on an in-place change is an edit of a possibly shared object;
      * N is an ordinary local (not global / nonlocal, not used by a nested function or lambda).

    Under these conditions the two spellings are the same program: nobody but N can observe whether the old object
    was changed or a new one was bound.  Everything else is left as it is (and is judged as an in-place change).
    Works on a deep copy; a rewritten statement keeps its location and is marked `_c15_fresh`."""
    import copy

    from ..engine import normalize as nz
    from ..engine.cfg import own_parts
    from ..engine.resolver import walk_no_nested

    if not any(_inplace_step(s) is not None for s in ast.walk(fn)):
        return fn
    root = copy.deepcopy(fn)
    # `for x in E: N.discard(x)` / `N.add(x)` is `N.difference_update(E)` / `N.update(E)` spelled as a loop: read as
    # that one step (and put back as the loop it was if the step turns out not to be part of a fresh build)
    folded: dict[int, tuple[ast.stmt, ast.stmt]] = {}
    for suite in list(nz._suite_lists(root)):
        for i, st in enumerate(suite):
            if not (isinstance(st, ast.For) and isinstance(st.target, ast.Name) and not st.orelse and len(st.body) == 1):
                continue
            b = st.body[0]
            if not (isinstance(b, ast.Expr) and isinstance(b.value, ast.Call) and isinstance(b.value.func, ast.Attribute)
                    and b.value.func.attr in ("add", "discard") and isinstance(b.value.func.value, ast.Name)
                    and len(b.value.args) == 1 and not b.value.keywords
                    and isinstance(b.value.args[0], ast.Name) and b.value.args[0].id == st.target.id):
                continue
            recv = b.value.func.value.id
            inside = {id(y) for y in ast.walk(st)}
            if any(isinstance(y, ast.Name) and y.id == st.target.id and id(y) not in inside for y in ast.walk(root)):
                continue                                        # the loop variable is looked at elsewhere: keep the loop
            if recv == st.target.id or any(isinstance(y, ast.Name) and y.id in (recv, st.target.id) for y in ast.walk(st.iter)) \
                    or any(isinstance(y, (ast.Await, ast.Yield, ast.YieldFrom, ast.NamedExpr)) for y in ast.walk(st.iter)):
                continue
            one = ast.copy_location(ast.Expr(value=ast.Call(
                func=ast.Attribute(value=ast.Name(id=recv, ctx=ast.Load()),
                                   attr="update" if b.value.func.attr == "add" else "difference_update", ctx=ast.Load()),
                args=[st.iter], keywords=[])), st)
            suite[i] = one
            folded[id(one)] = (one, st)
    ast.fix_missing_locations(root)
    shielded: set[str] = set()
    for x in ast.walk(root):
        if isinstance(x, (ast.Global, ast.Nonlocal)):
            shielded |= set(x.names)
        elif x is not root and isinstance(x, (ast.FunctionDef, ast.AsyncFunctionDef, ast.Lambda, ast.ClassDef)):
            shielded |= {y.id for y in ast.walk(x) if isinstance(y, ast.Name)}
    for _ in range(rounds):
        cfg = CFG(root)  # type: ignore[arg-type]
        known = _known_set_names(root)
        accepted: list[tuple[ast.stmt, str, ast.AST]] = []
        for s in walk_no_nested(root):
            step = _inplace_step(s)
            if step is None or step[0] in shielded:
                continue
            name, value = step
            at = cfg.nodes_of(s)
            ok = bool(at)
            for nid in at:
                # the last statement(s) that touched `name` on the paths into this node
                last: set[int] = set()
                seen = {nid}
                stack = [nid]
                while stack and ok:
                    cur = stack.pop()
                    if cur == cfg.entry:
                        ok = False                              # a path on which nothing created the set
                        break
                    for p, lab in cfg.pred[cur]:
                        if _touches(cfg, p, name):
                            if lab.startswith("exc:"):
                                ok = False                      # the toucher was left half-way
                                break
                            last.add(p)
                        elif p not in seen:
                            seen.add(p)
                            stack.append(p)
                if not ok or len(last) != 1:
                    ok = False
                    break
                d = next(iter(last))
                dn = cfg.nodes[d]
                pb = _plain_binding(dn.ast) if dn.kind == "stmt" and dn.ast is not None else None
                if pb is None or pb[0] != name or not (getattr(dn.ast, "_c15_fresh", False) or fresh_set_expr(pb[1], known)):
                    ok = False
                    break
                # nothing on the way from D to the step can have taken a reference to the object
                between = (cfg.reachable([d], avoid=[nid], include_src=False) & cfg.co_reachable([nid], avoid=[d])) - {d}
                between.add(nid)
                for b in between:
                    bn = cfg.nodes[b]
                    if bn.ast is None:
                        continue
                    for part in own_parts(bn):
                        if b == nid:
                            # the step itself: its receiver / target is N; only the operands are looked at
                            uses = [y for y in ast.walk(part) if isinstance(y, ast.Name) and y.id == name
                                    and y is not getattr(s, "target", None)
                                    and not (isinstance(s, ast.Expr) and y is s.value.func.value)]  # type: ignore[attr-defined]
                            par = _parents(part)
                            # (an operand that is N itself, `N -= N`, reads the value)
                            if not all(_reads_value_only(y, par) or par.get(id(y)) in (s, getattr(s, "value", None))
                                       for y in uses):
                                ok = False
                        else:
                            par = _parents(part)
                            if bn.kind == "for" and part is not getattr(bn.ast, "iter", None):
                                continue
                            if isinstance(part, ast.Name) and part.id == name and bn.kind not in ("test", "while", "for"):
                                ok = False                      # e.g. the subject of a `match` (a capture is an alias)
                            for y in ast.walk(part):
                                if isinstance(y, ast.Name) and y.id == name and isinstance(y.ctx, ast.Load) \
                                        and not _reads_value_only(y, par):
                                    ok = False
                    if not ok:
                        break
                if not ok:
                    break
            if ok:
                accepted.append((s, name, value))
        if not accepted:
            break
        for s, name, value in accepted:
            new = ast.copy_location(ast.Assign(targets=[ast.Name(id=name, ctx=ast.Store())], value=value), s)
            new._c15_fresh = True  # type: ignore[attr-defined]
            new._c15_inplace = u(s)  # type: ignore[attr-defined]
            for suite in nz._suite_lists(root):
                for i, st in enumerate(suite):
                    if st is s:
                        suite[i] = new
        ast.fix_missing_locations(root)
    for suite in nz._suite_lists(root):
        for i, st in enumerate(suite):
            if id(st) in folded and folded[id(st)][0] is st:
                suite[i] = folded[id(st)][1]
    return root


def alias_closure(root: ast.AST, names: set[str]) -> set[str]:
    """Names that may denote the same object as one of `names` inside `root`: closed under plain
    name-to-name bindings `a = b`, `a: T = b`, `(a := b)`, `a = b if c else d` in either direction
    (flow-insensitive, i.e. a may-alias over-approximation; a copy `set(b)`, `b.copy()`, `b - c`,
    `frozenset(b)` is a different object and ends the chain)."""
    edges: list[tuple[str, str]] = []

    def sources(v: ast.AST | None) -> list[str]:
        if isinstance(v, ast.Name):
            return [v.id]
        if isinstance(v, ast.IfExp):
            return sources(v.body) + sources(v.orelse)
        if isinstance(v, ast.NamedExpr):
            return sources(v.value) + sources(v.target)
        return []

    for n in ast.walk(root):
        tgts: list[ast.AST] = []
        val: ast.AST | None = None
        if isinstance(n, ast.Assign):
            tgts, val = list(n.targets), n.value
        elif isinstance(n, (ast.AnnAssign, ast.NamedExpr)):
            tgts, val = [n.target], n.value
        for t in tgts:
            if isinstance(t, ast.Name):
                edges.extend((t.id, s) for s in sources(val))
            elif isinstance(t, (ast.Tuple, ast.List)) and isinstance(val, (ast.Tuple, ast.List)) and len(t.elts) == len(val.elts):
                for te, ve in zip(t.elts, val.elts):
                    if isinstance(te, ast.Name):
                        edges.extend((te.id, s) for s in sources(ve))
    out = set(names)
    changed = True
    while changed:
        changed = False
        for a, b in edges:
            if (a in out) != (b in out):
                out |= {a, b}
                changed = True
    return out


def shared_names(e: ast.AST | None) -> set[str]:
    """The variables whose OBJECT (not a copy) is the value of expression `e`."""
    if isinstance(e, ast.Name):
        return {e.id}
    if isinstance(e, ast.IfExp):
        return shared_names(e.body) | shared_names(e.orelse)
    if isinstance(e, ast.NamedExpr):
        return shared_names(e.value) | shared_names(e.target)
    return set()


def callee_param_changes(prog: Program, fn: FuncInfo, call: ast.Call, shared: set[str], depth: int = 2
                         ) -> tuple[list[tuple[FuncInfo, str]], list[tuple[FuncInfo, ast.AST, str]]]:
    """`call` (inside `fn`) hands the object of a variable in `shared` to a callee: which repository functions
    receive it (callee, parameter; the direct callees first), and where they -- or, to `depth`, the functions
    they pass it on to -- change it in place."""
    seen: list[tuple[FuncInfo, str]] = []
    hits: list[tuple[FuncInfo, ast.AST, str]] = []
    if is_result_ctor(call):
        return seen, hits
    passed = [a for a in list(call.args) + [k.value for k in call.keywords] if shared_names(a) & shared]
    if not passed:
        return seen, hits
    for tgt in prog.resolve_call(fn, call):
        if not isinstance(tgt, FuncInfo):
            continue
        try:
            args = bound_args(call, method_params(tgt), "call")
        except AnalysisError:
            continue
        for pname, a in args.items():
            if not (shared_names(a) & shared):
                continue
            seen.append((tgt, pname))
            inner = alias_closure(tgt.node, {pname})
            for c, recv, text, _grows in inplace_changes(tgt.node):
                if isinstance(recv, ast.Name) and recv.id in inner:
                    hits.append((tgt, c, text))
            if depth > 1:
                for c2 in ast.walk(tgt.node):
                    if isinstance(c2, ast.Call):
                        s2, h2 = callee_param_changes(prog, tgt, c2, inner, depth - 1)
                        seen.extend(s2)
                        hits.extend(h2)
    return seen, hits


# ------------------------------------------------------------------ emptiness guards
def emptiness(test: ast.AST, name: str) -> bool | None:
    """True: the test holds iff collection `name` is non-empty; False: iff it is empty; None: other."""
    c = canon_total(test)
    ln = f"len({name})"
    nonempty = [("truthy", name), ("truthy", ln), ("truthy", f"bool({name})"), ("<", "0", ln), ("<=", "1", ln),
                ("!=", frozenset((ln, "0"))), ("!=", frozenset((name, "set()")))]
    empty = [("not", ("truthy", name)), ("not", ("truthy", ln)), ("not", ("truthy", f"bool({name})")),
             ("==", frozenset((ln, "0"))), ("<", ln, "1"), ("<=", ln, "0"), ("==", frozenset((name, "set()")))]
    if c in nonempty:
        return True
    if c in empty:
        return False
    return None


def guarded_by_emptiness(cfg: CFG, nid: int, sub: ast.AST, name: str, want_nonempty: bool) -> bool:
    """Is the expression `sub` (inside CFG node `nid`) evaluated only when collection `name` is
    non-empty (resp. empty)?  Decided from enclosing conditional expressions and from the CFG: with
    every branch edge that establishes the fact removed, the node must be unreachable."""
    root = cfg.nodes[nid].ast
    if root is not None:
        for x in ast.walk(root):
            if isinstance(x, ast.IfExp) and (contains(x.body, sub) or contains(x.orelse, sub)):
                e = emptiness(x.test, name)
                if e is not None:
                    return (e if contains(x.body, sub) else not e) == want_nonempty

    def edge_ok(a: int, _b: int, lab: str) -> bool:
        n = cfg.nodes[a]
        if n.kind == "test" and n.ast is not None and lab in ("true", "false"):
            e = emptiness(n.ast, name)
            if e is not None and (e if lab == "true" else not e) == want_nonempty:
                return False
        return True

    if nid == cfg.entry:
        return False
    return cfg.path(cfg.entry, [nid], edge_ok=edge_ok) is None


# ------------------------------------------------------------------ cancel + await of timed-out calls
def cancel_and_gather(cfg: CFG, coll: str) -> tuple[list[int], list[int]]:
    """(headers of `for t in <coll>: t.cancel()` loops,
        nodes awaiting `asyncio.gather(*<coll>, return_exceptions=True)`)."""
    loops: list[int] = []
    for n in cfg.nodes:
        a = n.ast
        if n.kind != "for" or not isinstance(a, ast.For) or u(a.iter) != coll or not isinstance(a.target, ast.Name):
            continue
        t = a.target.id
        calls = any(isinstance(s, ast.Expr) and isinstance(s.value, ast.Call) and method_call(s.value, t, "cancel")
                    for s in a.body)
        conditional = any(isinstance(x, (ast.If, ast.IfExp, ast.Continue, ast.Break, ast.Return, ast.Try, ast.Raise))
                          for s in a.body for x in ast.walk(s))
        if calls and not conditional:
            loops.append(n.id)

    def is_gather(c: ast.Call) -> bool:
        return u(c.func) in ("asyncio.gather", "gather") \
            and any(isinstance(x, ast.Starred) and u(x.value) == coll for x in c.args) \
            and any(k.arg == "return_exceptions" and isinstance(k.value, ast.Constant) and k.value.value is True
                    for k in c.keywords)

    gathers = [x for x in nodes_with_call(cfg, is_gather) if cfg.is_await(x)]
    return loops, gathers


# ------------------------------------------------------------------ one set_power per entry of a map
def match_send(fn_node: ast.AST, call: ast.Call) -> dict[str, Any]:
    """How the `set_power` call `call` is issued inside `fn_node`.

    ok      one task per entry of one map M, unconditionally, keyed by the entry's key, commanding
            the entry's value (unit conversion allowed), stored under that key in a task dict
    map     text of M;  tasks: name of the task dict;  key: name of the key variable
    detail  why not ok
    """
    out: dict[str, Any] = {"ok": False, "map": None, "tasks": None, "key": None,
                           "detail": "set_power is not issued once for every entry of the allocation map"}
    try:
        args = bound_args(call, SET_POWER_PARAMS, "set_power")
    except AnalysisError as exc:
        out["detail"] = str(exc)
        return out
    ida, pwa = args.get("component_id"), args.get("power_w")
    if ida is None or pwa is None or len(args) != 2:
        out["detail"] = "set_power is not called with (component id, power)"
        return out

    def value_ok(m: str, k: str, v: str | None) -> bool:
        want = Poly.atom(v) if v is not None else Poly.atom(f"{m}[{k}]")
        return TermEval().ev(pwa) == want

    loops = [n for n in ast.walk(fn_node) if isinstance(n, (ast.For, ast.AsyncFor, ast.While)) and contains(n, call)]
    comps = [n for n in ast.walk(fn_node)
             if isinstance(n, (ast.DictComp, ast.ListComp, ast.SetComp, ast.GeneratorExp)) and contains(n, call)]
    if len(comps) == 1 and not loops and isinstance(comps[0], ast.DictComp) and contains(comps[0].value, call):
        n = comps[0]
        g = n.generators[0]
        b = loop_binding(g) if len(n.generators) == 1 else None
        if b is None:
            out["detail"] = "the task map is not built by one pass over the entries of the allocation map"
            return out
        m, k, v = b
        out.update(map=m, key=k)
        if g.ifs or g.is_async:
            out["detail"] = "the task map is filtered: not every entry of the allocation map is sent"
            return out
        if u(n.key) != k or u(ida) != k:
            out["detail"] = "the task map is keyed / addressed by something else than the component id"
            return out
        if not value_ok(m, k, v):
            out["detail"] = f"the power sent (`{u(pwa)}`) is not the entry's allocated power"
            return out
        for s in ast.walk(fn_node):
            if isinstance(s, ast.Assign) and s.value is n and len(s.targets) == 1 and isinstance(s.targets[0], ast.Name):
                out["tasks"] = s.targets[0].id
            elif isinstance(s, ast.AnnAssign) and s.value is n and isinstance(s.target, ast.Name):
                out["tasks"] = s.target.id
        if out["tasks"] is None:
            out["detail"] = "the task map is not kept in a local"
            return out
        out["ok"] = True
        return out
    if len(loops) == 1 and not comps and isinstance(loops[0], ast.For):
        n = loops[0]
        b = loop_binding(n)
        if b is None:
            out["detail"] = "the sending loop does not iterate over the entries of the allocation map"
            return out
        m, k, v = b
        out.update(map=m, key=k)
        direct = [s for s in n.body if contains(s, call)]
        conditional = any(isinstance(x, (ast.If, ast.IfExp, ast.Continue, ast.Break, ast.Return, ast.Try, ast.Raise,
                                         ast.While, ast.Match)) for s in n.body for x in ast.walk(s)) or bool(n.orelse)
        if conditional or len(direct) != 1:
            out["detail"] = "set_power is not issued unconditionally for every allocation"
            return out
        s = direct[0]
        tgt = s.targets[0] if isinstance(s, ast.Assign) and len(s.targets) == 1 else None
        if not (isinstance(tgt, ast.Subscript) and isinstance(tgt.value, ast.Name) and u(tgt.slice) == k
                and u(ida) == k):
            out["detail"] = "the task is not stored under / addressed to the entry's component id"
            return out
        if not value_ok(m, k, v):
            out["detail"] = f"the power sent (`{u(pwa)}`) is not the entry's allocated power"
            return out
        out["tasks"] = tgt.value.id
        out["ok"] = True
        return out
    return out


# ------------------------------------------------------------------ misc
def all_ctors(node: ast.AST, pred: Callable[[ast.Call], bool] = is_result_ctor) -> list[ast.Call]:
    from ..engine.util import find_calls

    return find_calls(node, pred)


# ------------------------------------------------------------------ helpers with several (tail) returns
class _NoSplice(Exception):
    pass


def _has_return(s: ast.AST) -> bool:
    from ..engine.resolver import walk_no_nested

    return any(isinstance(x, ast.Return) for x in walk_no_nested(s))


def _tail_assign(stmts: list[ast.stmt], ret: str, budget: list[int]) -> list[ast.stmt]:
    """Rewrite a helper body so that every path ends by assigning its result to `ret` instead of
    returning (continuation duplicated into the arms of an `if` that returns); only returns in tail
    position of if/else chains and of except / else clauses are supported."""
    import copy

    budget[0] -= 1
    if budget[0] < 0:
        raise _NoSplice
    if not stmts:
        return [ast.Assign(targets=[ast.Name(id=ret, ctx=ast.Store())], value=ast.Constant(None))]
    s, rest = stmts[0], stmts[1:]
    if isinstance(s, ast.Return):
        val = s.value if s.value is not None else ast.Constant(None)
        return [ast.copy_location(ast.Assign(targets=[ast.Name(id=ret, ctx=ast.Store())], value=val), s)]
    if isinstance(s, ast.If) and _has_return(s):
        new = ast.If(test=s.test,
                     body=_tail_assign(list(s.body) + copy.deepcopy(rest), ret, budget),
                     orelse=_tail_assign(list(s.orelse) + copy.deepcopy(rest), ret, budget))
        return [ast.copy_location(new, s)]
    if isinstance(s, ast.Try) and _has_return(s) and not s.finalbody \
            and not any(_has_return(x) for x in s.body):
        # returns in the handlers / else clause: the continuation runs after the else clause (not covered by
        # the handlers, as before) and after every handler that falls through
        new_t = ast.Try(
            body=s.body,
            handlers=[ast.copy_location(ast.ExceptHandler(
                type=h.type, name=h.name, body=_tail_assign(list(h.body) + copy.deepcopy(rest), ret, budget)), h)
                for h in s.handlers],
            orelse=_tail_assign(list(s.orelse) + copy.deepcopy(rest), ret, budget),
            finalbody=[])
        return [ast.copy_location(new_t, s)]
    if _has_return(s) or isinstance(s, (ast.FunctionDef, ast.AsyncFunctionDef, ast.ClassDef, ast.Global, ast.Nonlocal)):
        raise _NoSplice
    return [s] + _tail_assign(rest, ret, budget)


def _split_tuple_result(stmts: list[ast.stmt], ret: str, n: int) -> bool:
    """Rewrite every `ret = (e0, .., en-1)` inside `stmts` into `ret_0 = e0; ..`; False (nothing changed)
    unless every assignment of `ret` is such a tuple."""
    sites: list[tuple[list[ast.stmt], int]] = []

    def scan(suite: list[ast.stmt]) -> bool:
        for i, st in enumerate(suite):
            if isinstance(st, ast.Assign) and len(st.targets) == 1 and isinstance(st.targets[0], ast.Name) \
                    and st.targets[0].id == ret:
                if not (isinstance(st.value, ast.Tuple) and len(st.value.elts) == n
                        and not any(isinstance(e, ast.Starred) for e in st.value.elts)):
                    return False
                sites.append((suite, i))
            for field in ("body", "orelse", "finalbody"):
                sub = getattr(st, field, None)
                if isinstance(sub, list) and sub and isinstance(sub[0], ast.stmt) and not scan(sub):
                    return False
            if isinstance(st, ast.Try):
                for hd in st.handlers:
                    if not scan(hd.body):
                        return False
        return True

    if not scan(stmts) or not sites:
        return False
    for suite, i in sorted(sites, key=lambda x: -x[1]):
        st = suite[i]
        suite[i:i + 1] = [ast.copy_location(ast.Assign(
            targets=[ast.Name(id=f"{ret}_{k}", ctx=ast.Store())], value=e), st)
            for k, e in enumerate(st.value.elts)]  # type: ignore[attr-defined]
    return True


def _own_calls(root: ast.AST) -> list[tuple[ast.Call, ast.AST | None, bool]]:
    """(call, parent, awaited) for the calls evaluated unconditionally by expression `root`, outermost
    first (not inside lambdas, comprehensions, conditional expressions or the later operands of and/or)."""
    out: list[tuple[ast.Call, ast.AST | None, bool]] = []

    def walk(e: ast.AST, parent: ast.AST | None) -> None:
        if isinstance(e, (ast.Lambda, ast.ListComp, ast.SetComp, ast.DictComp, ast.GeneratorExp)):
            return
        if isinstance(e, ast.Call):
            out.append((e, parent, isinstance(parent, ast.Await)))
        if isinstance(e, ast.IfExp):
            walk(e.test, e)
            return
        if isinstance(e, ast.BoolOp):
            walk(e.values[0], e)
            return
        for c in ast.iter_child_nodes(e):
            walk(c, e)

    walk(root, None)
    return out


def _replace_expr(stmt: ast.AST, field: str, old: ast.AST, new: ast.AST) -> None:
    if getattr(stmt, field) is old:
        setattr(stmt, field, ast.copy_location(new, old))
        return
    for n in ast.walk(getattr(stmt, field)):
        for f, v in ast.iter_fields(n):
            if v is old:
                setattr(n, f, ast.copy_location(new, old))
                return
            if isinstance(v, list):
                for i, item in enumerate(v):
                    if item is old:
                        v[i] = ast.copy_location(new, old)
                        return


def splice_tail_helpers(prog: Program, fn: FuncInfo, rounds: int = 2,
                        exclude: "frozenset[str] | set[str]" = frozenset(),
                        role_nodes: "tuple[ast.AST, ...] | None" = None) -> tuple[FuncInfo, set[str]]:
    """Analysis view of `fn` in which calls `x = [await] self._helper(...)` / `return self._helper(...)`
    / `self._helper(...)` of private same-class statement helpers (also those that return from several
    if/else arms, which the engine normaliser leaves alone) are replaced by the helper's body:
    parameters substituted (a parameter the helper rebinds becomes a renamed local initialised with
    the argument), own locals renamed, every `return e` turned into `ret__helper = e`.  Single-expression
    helpers are left to the engine normaliser.  Returns (view, names spliced).

    What is kept out is the FUNCTION that plays an anchored role (`role_nodes`: the definitions bound by
    `Anchors`), not everything that happens to carry its name: a private helper of another class that is called
    like an anchored function of this property (`PVManager._parse_result` next to `BatteryManager._parse_result`)
    plays no role of its own -- it is part of the routine that calls it and is spliced like any other helper.
    Without `role_nodes` the names in `exclude` are kept out as before."""
    import copy

    from ..engine import normalize as nz

    def kept_out(h: ast.AST) -> bool:
        name = h.name  # type: ignore[attr-defined]
        if role_nodes is not None and name in exclude:
            return any(h is n for n in role_nodes)
        return name in exclude or name in nz.ANCHOR_NAMES

    def for_engine(h: ast.AST) -> bool:
        # single-expression helpers are spliced by the engine normaliser -- unless it refuses them by name
        return nz._simple_helper(h) == "expr" and not (  # type: ignore[arg-type]
            h.name in nz.ANCHOR_NAMES or h.name in exclude)  # type: ignore[attr-defined]

    root = copy.deepcopy(fn.node)
    spliced: set[str] = set()
    counts: dict[str, int] = {}
    for _ in range(rounds):
        changed = False
        for suite in list(nz._suite_lists(root)):
            i = 0
            while i < len(suite):
                s = suite[i]
                i += 1
                if isinstance(s, (ast.Assign, ast.AnnAssign, ast.AugAssign, ast.Return, ast.Expr)):
                    root_field = "value"
                elif isinstance(s, ast.If):
                    root_field = "test"
                else:
                    continue
                root_expr = getattr(s, root_field, None)
                if root_expr is None:
                    continue
                found = None
                for call, parent, awaited in _own_calls(root_expr):
                    h = nz._helper_target(prog, fn, call, {})
                    if h is None or h is fn.node or h.name == fn.name or kept_out(h) \
                            or for_engine(h) \
                            or isinstance(h, ast.AsyncFunctionDef) != awaited or not all(
                                isinstance(d, ast.Name) and d.id in ("staticmethod", "override") for d in h.decorator_list):
                        continue
                    found = (call, parent, awaited, h)
                    break
                if found is None:
                    continue
                call, parent, awaited, h = found
                whole = (root_expr.value if awaited and isinstance(root_expr, ast.Await) else root_expr) is call \
                    and not isinstance(s, (ast.If, ast.AugAssign))
                binds = nz._bind(h, call)
                if binds is None or any(isinstance(x, (ast.Yield, ast.YieldFrom)) for x in ast.walk(h)) \
                        or any(nz._has_await(v) for v in binds.values()):
                    continue
                body = copy.deepcopy(nz._strip_doc(h.body))
                nth = counts.get(h.name, 0)
                tag = h.name.strip("_") + (str(nth) if nth else "")
                ret = f"ret__{tag}"
                try:
                    body = _tail_assign(body, ret, [60])
                except _NoSplice:
                    continue
                stored: set[str] = set()
                for st in body:
                    stored |= nz._names_stored(st)
                    stored |= {x.name for x in ast.walk(st) if isinstance(x, ast.ExceptHandler) and x.name}
                # arguments that are not plain reads (calls, fresh containers) are evaluated once, into a
                # renamed local, instead of being substituted at every use of the parameter
                held = {k for k, v in binds.items() if k not in stored and not (
                    nz._is_pure(v) and not any(isinstance(x, ast.Call) for x in ast.walk(v)))}
                stored |= held
                ren = {n: f"{n}__{tag}" for n in stored if n != ret}
                for st in body:
                    for x in ast.walk(st):
                        if isinstance(x, ast.Name) and x.id in ren:
                            x.id = ren[x.id]
                        elif isinstance(x, ast.ExceptHandler) and x.name in ren:
                            x.name = ren[x.name]
                # parameters the helper rebinds keep a (renamed) local that starts as the argument
                pre: list[ast.stmt] = [
                    ast.Assign(targets=[ast.Name(id=ren[k], ctx=ast.Store())], value=copy.deepcopy(v))
                    for k, v in binds.items() if k in stored]
                sub = nz._Subst({k: v for k, v in binds.items() if k not in stored})
                body = [sub.visit(st) for st in body]
                new: list[ast.stmt] = [ast.copy_location(x, s) for x in pre] + body
                tgt = s.targets[0] if isinstance(s, ast.Assign) and len(s.targets) == 1 else None
                if not whole:
                    # the call is an operand / a test: its value is the result variable
                    _replace_expr(s, root_field, (parent if awaited else call), ast.Name(id=ret, ctx=ast.Load()))
                    new.append(s)
                elif isinstance(tgt, (ast.Tuple, ast.List)) and _split_tuple_result(new, ret, len(tgt.elts)):
                    # `a, b = helper(...)` with tuple returns: element-wise, so that roles stay visible
                    for k, e in enumerate(tgt.elts):
                        new.append(ast.copy_location(ast.Assign(
                            targets=[e], value=ast.Name(id=f"{ret}_{k}", ctx=ast.Load())), s))
                elif not isinstance(s, ast.Expr):
                    s2 = copy.copy(s)
                    s2.value = ast.Name(id=ret, ctx=ast.Load())  # type: ignore[attr-defined]
                    new.append(s2)
                suite[i - 1:i] = new
                i += len(new) - 1
                spliced.add(h.name)
                counts[h.name] = nth + 1
                changed = True
        if not changed:
            break
    ast.fix_missing_locations(root)
    return FuncInfo(fn.name, fn.module, root, fn.cls, fn.outer), spliced


def self_calls(node: ast.AST) -> list[str]:
    """Names of methods called as `self.<name>(...)` / `cls.<name>(...)` inside `node`."""
    return [c.func.attr for c in ast.walk(node) if isinstance(c, ast.Call) and isinstance(c.func, ast.Attribute)
            and isinstance(c.func.value, ast.Name) and c.func.value.id in ("self", "cls")]


# ------------------------------------------------------------------ analysis views (cached per Program)
_VIEWS: "Any" = None


def analysis_view(prog: Program, fn: FuncInfo) -> FuncInfo:
    """The analysis view of `fn`: statement helpers spliced in (splice_tail_helpers), then the engine
    normaliser (expression helpers, single-assignment locals; if/else kept as control flow).  Views are
    read-only for the rules and cached per Program object."""
    import weakref

    from ..engine.normalize import normalize

    global _VIEWS
    if _VIEWS is None:
        _VIEWS = weakref.WeakKeyDictionary()
    per = _VIEWS.setdefault(prog, {})
    key = (fn.qual, id(fn.node))
    if key not in per:
        anc = anchors(prog)
        keep = anc.names                # functions that play an anchored role are analysed on their own
        # (whether a function called like a role player -- now or historically -- is kept out is decided by
        # identity: only the definitions that play the roles are)
        spliced = splice_tail_helpers(prog, fn, exclude=keep | anc.hints, role_nodes=anc.nodes)[0]
        # a set the function has just created and is still building in place is read as the value it computes
        # (before the normaliser, so that its name is never mistaken for a single-assignment local, and after it,
        # when the creating expression came out of an expression helper)
        spliced = FuncInfo(spliced.name, spliced.module, rebind_fresh_builds(spliced.node), spliced.cls, spliced.outer)  # type: ignore[arg-type]
        view = normalize(prog, spliced, diamonds=False, exclude_helpers=keep)
        per[key] = FuncInfo(view.name, view.module, rebind_fresh_builds(view.node), view.cls, view.outer)  # type: ignore[arg-type]
    return per[key]


# ------------------------------------------------------------------ anchors bound by role
BM_Q = "microgrid._power_distributing._component_managers._battery_manager:BatteryManager"
PV_Q = ("microgrid._power_distributing._component_managers._pv_inverter_manager."
        "_pv_inverter_manager:PVManager")
BDA_Q = ("microgrid._power_distributing._distribution_algorithm._battery_distribution_algorithm:"
         "BatteryDistributionAlgorithm")


def _self_callers(cls: ClassInfo, name: str) -> list[FuncInfo]:
    return [m for m in cls.methods.values() if m.name != name and name in self_calls(m.node)]


def _is_private(name: str) -> bool:
    return name.startswith("_") and not name.startswith("__")


def _reaches(cls: ClassInfo, m: FuncInfo, pred: Callable[[FuncInfo], bool], depth: int = 3) -> bool:
    """`pred` holds for `m` or for a private method of the class that `m` calls (transitively, to `depth`)."""
    seen: set[str] = set()
    todo = [(m, 0)]
    while todo:
        cur, d = todo.pop()
        if cur.name in seen:
            continue
        seen.add(cur.name)
        if pred(cur):
            return True
        if d < depth:
            todo.extend((cls.methods[n], d + 1) for n in self_calls(cur.node) if n in cls.methods and _is_private(n))
    return False


def _has_attr_call(m: FuncInfo, attr: str, no_args: bool = False) -> bool:
    return any(isinstance(c, ast.Call) and isinstance(c.func, ast.Attribute) and c.func.attr == attr
               and (not no_args or (not c.args and not c.keywords)) for c in ast.walk(m.node))


def _ann_params(m: FuncInfo, pred: Callable[[str], bool]) -> list[str]:
    a = m.node.args
    return [x.arg for x in a.posonlyargs + a.args + a.kwonlyargs if x.annotation is not None and pred(u(x.annotation))]


class Anchors:
    """The private functions the C01 / C15 rules anchor on, found by the ROLE they play; the
    historical name is only tried first as a hint.  A role nobody plays is None (the rule that needs it
    fails closed); a role with several candidates is None as well.

        bm.parse   reads `task.result()` of the set_power tasks          (_parse_result)
        bm.send    calls bm.parse / issues `set_power`                    (_set_distributed_power)
        bm.dist    calls bm.send and builds the results                   (BatteryManager._distribute_power)
        bm.gpd     calls `self._distribution_algorithm.distribute_power`  (_get_power_distribution)
        bm.gd      calls bm.gpd                                           (_get_distribution)
        pv.api     the PV manager's sending routine: the innermost private function that, with the private
                   helpers it calls, issues `set_power`, reads the outcomes and builds the results (_set_api_power)
        bda.core   the allocation routine building `_Power` cells         (BDA._distribute_power)
        bda.consume / bda.supply   callers of bda.core passing the request as is / negated
        bda.greedy / bda.split     callees of bda.core taking the `_Power` cells with / without a float
        bda.bounds the callee of consume/supply with a boolean selector   (_inclusion_exclusion_bounds)
    """

    def __init__(self, prog: Program) -> None:
        self.roles: dict[str, FuncInfo | None] = {}
        self.hints: set[str] = {"_set_api_power"}     # the historical names of the role players
        bm, pv, bda = prog.cls(BM_Q), prog.cls(PV_Q), prog.cls(BDA_Q)

        def pick(role: str, cls: ClassInfo, hint: str, finder: Callable[[], list[FuncInfo]]) -> FuncInfo | None:
            got = cls.methods.get(hint)
            if hint:
                self.hints.add(hint)
            if got is None:
                cands = finder()
                got = cands[0] if len(cands) == 1 else None
            self.roles[role] = got
            return got

        parse = pick("bm.parse", bm, "_parse_result", lambda: [
            m for m in bm.methods.values() if _has_attr_call(m, "result", True) and not _has_attr_call(m, "set_power")])
        send = pick("bm.send", bm, "_set_distributed_power", lambda: (
            _self_callers(bm, parse.name) if parse is not None else
            [m for m in bm.methods.values() if _has_attr_call(m, "set_power")]))
        pick("bm.dist", bm, "_distribute_power", lambda: _self_callers(bm, send.name) if send is not None else [])
        gpd = pick("bm.gpd", bm, "_get_power_distribution", lambda: [
            m for m in bm.methods.values() if any(
                isinstance(c, ast.Call) and method_call(c, "self._distribution_algorithm", "distribute_power")
                for c in ast.walk(m.node))])
        pick("bm.gd", bm, "_get_distribution", lambda: _self_callers(bm, gpd.name) if gpd is not None else [])
        def pv_routine() -> list[FuncInfo]:
            """The PV manager's sending routine is a unit of behaviour: issue the calls, wait, read the outcomes,
            report.  Any of these steps may live in a private helper of its own (a helper that only sends and hands
            back the task map, one that only reads the outcomes, one that only builds the result), so the routine is
            the innermost function that -- together with the private helpers it calls -- does all of it: start at
            the historical name, else at the one function that issues `set_power`, and walk up through single
            private callers while the result reading / the result construction is still out of reach."""
            start = pv.methods.get("_set_api_power")
            if start is None or not _reaches(pv, start, lambda m: _has_attr_call(m, "set_power")):
                direct = [m for m in pv.methods.values() if _has_attr_call(m, "set_power")]
                if len(direct) != 1:
                    return direct
                start = direct[0]
            cur = start
            for _ in range(4):
                whole = _reaches(pv, cur, lambda m: _has_attr_call(m, "result", True)) \
                    and _reaches(pv, cur, lambda m: any(isinstance(c, ast.Call) and is_result_ctor(c) for c in ast.walk(m.node)))
                callers = _self_callers(pv, cur.name)
                if whole or len(callers) != 1 or not _is_private(cur.name) or not _is_private(callers[0].name):
                    break
                cur = callers[0]
            return [cur]

        pick("pv.api", pv, "", pv_routine)
        core = pick("bda.core", bda, "_distribute_power", lambda: [
            m for m in bda.methods.values() if any(isinstance(c, ast.Call) and u(c.func) == "_Power" for c in ast.walk(m.node))])
        public = bda.methods.get("distribute_power")
        self.roles["bda.public"] = public

        def sided(negated: bool) -> list[FuncInfo]:
            """Callers of the core routine: the supply side passes the request negated and/or selects the
            bounds with a constant True; the consume side is the other one."""
            if core is None:
                return []
            cands = [m for m in _self_callers(bda, core.name) if public is None or m is not public]

            def supply_evidence(m: FuncInfo) -> bool:
                fl = _ann_params(m, lambda t: t == "float")
                for c in ast.walk(m.node):
                    if not isinstance(c, ast.Call):
                        continue
                    vals = list(c.args) + [k.value for k in c.keywords]
                    if method_call(c, "self", core.name) and len(fl) == 1 \
                            and -Poly.atom(fl[0]) in [TermEval().ev(a) for a in vals]:
                        return True
                    if isinstance(c.func, ast.Attribute) and u(c.func.value) in ("self", "cls") \
                            and any(isinstance(a, ast.Constant) and a.value is True for a in vals):
                        callee = bda.methods.get(c.func.attr)
                        if callee is not None and _ann_params(callee, lambda t: t == "bool"):
                            return True
                return False

            sup = [m for m in cands if supply_evidence(m)]
            if len(cands) != 2 or len(sup) != 1:
                return []
            return sup if negated else [m for m in cands if m is not sup[0]]

        consume = pick("bda.consume", bda, "_distribute_consume_power", lambda: sided(False))
        supply = pick("bda.supply", bda, "_distribute_supply_power", lambda: sided(True))

        def core_callees(with_float: bool) -> list[FuncInfo]:
            """Callees of the core routine that take the `_Power` cells: the top-up also takes the remainder
            -- a float parameter that it keeps as a complement ledger (decremented as cells grow) --, the
            per-inverter split takes no float."""
            if core is None:
                return []
            names = set(self_calls(core.node))
            cands = [m for m in bda.methods.values() if m.name in names and m is not core
                     and _ann_params(m, lambda t: "_Power" in t)
                     and bool(_ann_params(m, lambda t: t == "float")) == with_float]
            if with_float:
                from .c01 import Ledgers

                def keeps_complement(m: FuncInfo) -> bool:
                    try:
                        return bool(set(_ann_params(m, lambda t: t == "float")) & Ledgers(m).complements)
                    except AnalysisError:
                        return False

                cands = [m for m in cands if keeps_complement(m)]
            return cands

        pick("bda.greedy", bda, "_greedy_distribute_remaining_power", lambda: core_callees(True))
        pick("bda.split", bda, "_distribute_multi_inverter_pairs", lambda: core_callees(False))

        def bounds_fn() -> list[FuncInfo]:
            names: set[str] = set()
            for m in (consume, supply):
                if m is not None:
                    names |= set(self_calls(m.node))
            return [m for m in bda.methods.values() if m.name in names and _ann_params(m, lambda t: t == "bool")]

        pick("bda.bounds", bda, "_inclusion_exclusion_bounds", bounds_fn)
        self.names = frozenset(m.name for m in self.roles.values() if m is not None and m.name.startswith("_"))
        # the definitions themselves: a function of another class that merely shares a role player's name is no anchor
        self.nodes: tuple[ast.AST, ...] = tuple(m.node for m in self.roles.values() if m is not None)

    def get(self, role: str) -> FuncInfo:
        m = self.roles.get(role)
        if m is None:
            raise AnalysisError(f"no function plays the role `{role}` (see _c15_util.Anchors) any more")
        return m

    def name(self, role: str) -> str:
        return self.get(role).name


_ANCHORS: "Any" = None


def anchors(prog: Program) -> Anchors:
    import weakref

    global _ANCHORS
    if _ANCHORS is None:
        _ANCHORS = weakref.WeakKeyDictionary()
    if prog not in _ANCHORS:
        _ANCHORS[prog] = Anchors(prog)
    return _ANCHORS[prog]
