"""C18  Pool SoC and capacity are the documented aggregates of working batteries.

Term (E-T) attribute inference on SoCCalculator.calculate / CapacityCalculator.calculate plus
guard-dominance and sibling rules on the exclusion of non-working or incomplete batteries.
"""
from __future__ import annotations

import ast
from fractions import Fraction

from ..engine.cfg import CFG
from ..engine.report import AnalysisError, Run
from ..engine.resolver import FuncInfo, Program, body_walk
from ..engine.terms import Poly, TermEval, single_defs
from ..engine.util import canon, canon_total, find_calls, method_call, node_writes, nodes_with_call, u

MC = "timeseries.battery_pool._metric_calculator"
METH = "timeseries.battery_pool._methods"
FETCH = "timeseries.battery_pool._component_metric_fetcher"

METRIC = {"ComponentMetricId.CAPACITY": "capacity", "ComponentMetricId.SOC": "soc",
          "ComponentMetricId.SOC_LOWER_BOUND": "lower", "ComponentMetricId.SOC_UPPER_BOUND": "upper"}


def loop_of(fn: FuncInfo) -> ast.For:
    loops = [s for s in fn.node.body if isinstance(s, ast.For)]
    if len(loops) != 1:
        raise AnalysisError(f"{fn.qual}: aggregation loop not found")
    return loops[0]


def metric_locals(loop: ast.For) -> dict[str, str]:
    """local name -> canonical metric role (capacity / soc / lower / upper)."""
    out = {}
    for s in loop.body:
        if isinstance(s, ast.Assign) and isinstance(s.value, ast.Call) and isinstance(s.value.func, ast.Attribute) \
                and s.value.func.attr == "get" and len(s.value.args) == 1 and u(s.value.args[0]) in METRIC:
            out[u(s.targets[0])] = METRIC[u(s.value.args[0])]
    return out


def te_for(loop: ast.For, roles: dict[str, str]) -> TermEval:
    te = TermEval({k: Poly.atom(v) for k, v in roles.items()})
    defs = single_defs(ast.Module(body=loop.body, type_ignores=[]))
    for _ in range(4):
        for k, v in defs.items():
            if k not in roles:
                te.env[k] = te.ev(v)
    return te


def accumulations(loop: ast.For, te: TermEval) -> dict[str, Poly]:
    out: dict[str, Poly] = {}
    for s in ast.walk(loop):
        if isinstance(s, ast.AugAssign) and isinstance(s.op, ast.Add) and isinstance(s.target, ast.Name):
            out[s.target.id] = out.get(s.target.id, Poly()) + te.ev(s.value)
    return out


def check_form(run: Run, prog: Program) -> None:
    soc = prog.func(f"{MC}:SoCCalculator.calculate")
    cap = prog.func(f"{MC}:CapacityCalculator.calculate")
    run.analysed(soc.qual)
    run.analysed(cap.qual)
    W = Poly.atom("capacity") * (Poly.atom("upper") - Poly.atom("lower"))
    # ---- SoC
    loop = loop_of(soc)
    roles = metric_locals(loop)
    if set(roles.values()) != {"capacity", "soc", "lower", "upper"}:
        raise AnalysisError(f"{soc.qual}: metrics read: {roles}")
    te = te_for(loop, roles)
    acc = accumulations(loop, te)
    s_name = None
    for name, p in acc.items():
        for a in p.atoms():
            if a not in ("capacity", "upper", "lower", "soc"):
                s_name = a
    num = [n for n, p in acc.items() if s_name and p == W * Poly.atom(s_name)]
    den = [n for n, p in acc.items() if p == W]
    ok = len(num) == 1 and len(den) == 1
    run.check(ok, "C18.FORM", soc.qual, "Σ w·s and Σ w with w = capacity·(upper − lower)",
              f"the SoC accumulators are {{{', '.join(f'{k}: {v!r}' for k, v in acc.items())}}}: not a "
              "numerator Σ w·s and a denominator Σ w sharing the weight w = capacity·(upper − lower)",
              node=loop, file=soc.file)
    if not ok:
        return
    # scaled SoC: general branch and clamp
    s_defs = [s for s in ast.walk(loop) if isinstance(s, ast.Assign) and u(s.targets[0]) == s_name]
    general = [s for s in s_defs if te.ev(s.value) == (Poly.atom("soc") - Poly.atom("lower"))
               * Poly.atom(f"inv({(Poly.atom('upper') - Poly.atom('lower'))!r})") * Poly.const(100)]
    run.check(len(general) == 1, "C18.FORM", soc.qual, "s = (soc − lower)/(upper − lower)·100",
              "the per-battery SoC is not rescaled to its limits as (soc − lower)/(upper − lower)·100",
              node=loop, file=soc.file)
    clamps = [s for s in s_defs if isinstance(s.value, ast.Call) and u(s.value.func) in ("min", "max")]
    ok = False
    if clamps:
        c = clamps[-1].value
        t = u(c).replace(" ", "")
        ok = t in (f"min(max({s_name},0.0),100.0)", f"max(min({s_name},100.0),0.0)",
                   f"min(100.0,max(0.0,{s_name}))", f"max(0.0,min(100.0,{s_name}))",
                   f"min(max({s_name},0),100)", f"max(min({s_name},100),0)")
        # the clamp is the last definition before the accumulation, in the loop's own suite
        idx = [i for i, s in enumerate(loop.body) if s is clamps[-1]]
        use = [i for i, s in enumerate(loop.body) if isinstance(s, ast.AugAssign) and u(s.target) == num[0]]
        ok = ok and bool(idx) and bool(use) and idx[0] < use[0] and not any(
            isinstance(s, ast.Assign) and u(s.targets[0]) == s_name for s in loop.body[idx[0] + 1:use[0]])
    run.check(ok, "C18.RANGE", soc.qual, f"{s_name} = min(max({s_name}, 0.0), 100.0) per battery",
              "each battery's rescaled SoC is not clamped to [0, 100] before it is weighted: a battery "
              "outside its limits over- or under-contributes (the pool value is no longer the weighted "
              "mean of clamped values, even if the final result is clamped)", node=loop, file=soc.file)
    # equal-limits branch is a non-decreasing step in soc
    eq = [n for n in ast.walk(loop) if isinstance(n, ast.If) and "isclose" in u(n.test) and "upper" in te.text(n.test)]
    ok = len(eq) == 1
    if ok:
        inner = [n for n in eq[0].body if isinstance(n, ast.If)]
        ok = len(inner) == 1
        if ok:
            c = canon_total(inner[0].test, subst={k: v for k, v in roles.items()})
            lo_v = [te.ev(s.value) for s in inner[0].body if isinstance(s, ast.Assign)]
            hi_v = [te.ev(s.value) for s in inner[0].orelse if isinstance(s, ast.Assign)]
            ok = c == ("<", "soc", "lower") and lo_v == [Poly()] and hi_v == [Poly.const(100)]
    run.check(ok, "C18.MONO", soc.qual, "equal limits: soc < lower -> 0 else 100",
              "with equal SoC limits the rescaled SoC is not the non-decreasing step 0 / 100",
              node=loop, file=soc.file)
    # monotone / scale-free by degrees
    dnum, dden = acc[num[0]], acc[den[0]]
    deg_c = (dnum.degree_in(lambda a: a == "capacity"), dden.degree_in(lambda a: a == "capacity"))
    run.check(deg_c == ({1}, {1}), "C18.SCALE", soc.qual, "numerator and denominator are homogeneous of degree 1 in capacity",
              f"degrees in capacity are {deg_c}: the ratio is not invariant under a common scaling of all capacities",
              node=loop, file=soc.file)
    if general:
        g = te.ev(general[0].value)
        coeff_pos = all(c > 0 for m, c in g.terms.items() if any(a == "soc" for a, _ in m))
        run.check(coeff_pos and "soc" in g.atoms(), "C18.MONO", soc.qual, "s increases with soc",
                  "the rescaled SoC does not increase with the battery's SoC (given upper > lower)",
                  node=general[0], file=soc.file)
    # result
    cfg = CFG(soc.node, soc.file)
    pcts = [s for s in body_walk(soc.node) if isinstance(s, ast.Assign) and u(s.targets[0]) == "pct"]
    vals = [te.ev(s.value) for s in pcts]
    ratio = Poly.atom(num[0]) * Poly.atom(f"inv({Poly.atom(den[0])!r})")
    ok = ratio in vals and all(v == ratio or (v.const_value() is not None and 0 <= v.const_value() <= 100) for v in vals)
    run.check(ok, "C18.FORM", soc.qual, "pct = Σ w·s / Σ w (or a constant in [0, 100])",
              f"the pool SoC is assigned {[repr(v) for v in vals]}: not the weighted mean (or an in-range constant)",
              node=soc.node, file=soc.file)
    guard = [t for t in cfg.nodes if t.kind == "test" and "is_close_to_zero" in t.label and den[0] in t.label]
    divs = [n.id for n in cfg.nodes if n.kind == "stmt" and isinstance(n.ast, ast.Assign) and u(n.ast.targets[0]) == "pct"
            and te.ev(n.ast.value) == ratio]
    ok = len(guard) == 1 and bool(divs) and cfg.path(cfg.entry, divs, avoid=[guard[0].id]) is None and \
        not any(d in cfg.reachable([m for m, lab in cfg.succ[guard[0].id] if lab == ("true" if not u(guard[0].ast).startswith("not") else "false")]) for d in divs)
    run.check(ok, "C18.RANGE", soc.qual, "no division when the total weight is zero",
              "the weighted mean is computed although the total usable capacity is zero", node=soc.node, file=soc.file)
    rets = [r for r in body_walk(soc.node) if isinstance(r, ast.Return)]
    ok = any("Percentage.from_percent(pct)" in u(r.value).replace(" ", "") for r in rets)
    run.check(ok, "C18.FORM", soc.qual, "returns Percentage.from_percent(pct)", "the computed value is not what is returned",
              node=soc.node, file=soc.file)
    # ---- capacity
    loop_c = loop_of(cap)
    roles_c = metric_locals(loop_c)
    if set(roles_c.values()) != {"capacity", "lower", "upper"}:
        raise AnalysisError(f"{cap.qual}: metrics read: {roles_c}")
    te_c = te_for(loop_c, roles_c)
    acc_c = accumulations(loop_c, te_c)
    ok = list(acc_c.values()) == [W.scale(Fraction(1, 100))]
    run.check(ok, "C18.FORM", cap.qual, "Σ capacity·(upper − lower)/100",
              f"the pool capacity accumulates {[repr(v) for v in acc_c.values()]}: not the usable capacity "
              "capacity·(upper − lower)/100 — and not the same weight (up to the constant 100) the SoC "
              "calculator uses", node=loop_c, file=cap.file)
    rets = [r for r in body_walk(cap.node) if isinstance(r, ast.Return)]
    tot = next(iter(acc_c)) if acc_c else "?"
    ok = any(f"Energy.from_watt_hours({tot})" in u(r.value).replace(" ", "") for r in rets)
    run.check(ok, "C18.FORM", cap.qual, "returns Energy.from_watt_hours(total)", "the sum is not what is returned",
              node=cap.node, file=cap.file)


def check_excl(run: Run, prog: Program) -> None:
    for q in (f"{MC}:SoCCalculator.calculate", f"{MC}:CapacityCalculator.calculate"):
        fn = prog.func(q)
        loop = loop_of(fn)
        cfg = CFG(fn.node, fn.file)
        wb = fn.params[2]
        run.check(u(loop.iter) == wb, "C18.EXCL", fn.qual, f"for battery_id in {wb}",
                  f"the aggregation iterates `{u(loop.iter)}` instead of the working batteries: batteries "
                  "that are not working are included", node=loop, file=fn.file)
        bid = u(loop.target)
        roles = metric_locals(loop)
        h = [n for n in cfg.nodes if n.kind == "for" and n.ast is loop]
        if not h:
            raise AnalysisError(f"{fn.qual}: loop header not in CFG")
        body = cfg.reachable([m for m, lab in cfg.succ[h[0].id] if lab == "iter"], avoid=[h[0].id])
        present = [t for t in (cfg.nodes[x] for x in body) if t.kind == "test" and t.ast is not None
                   and canon(t.ast) == ("notin", bid, fn.params[1])]
        none_want = ("or", frozenset(("is", frozenset({k, "None"})) for k in roles))
        complete = [t for t in (cfg.nodes[x] for x in body) if t.kind == "test" and t.ast is not None and canon(t.ast) == none_want]
        ok = len(present) == 1 and len(complete) == 1
        run.check(ok, "C18.EXCL", fn.qual, "guards: present in data; every required metric not None",
                  "the loop does not skip batteries that are absent from the data or lack one of the "
                  f"required metrics ({sorted(roles.values())})", node=loop, file=fn.file)
        if not ok:
            continue
        updates = [x for x in body if cfg.nodes[x].kind == "stmt" and (
            isinstance(cfg.nodes[x].ast, ast.AugAssign) or (
                isinstance(cfg.nodes[x].ast, ast.Assign) and u(cfg.nodes[x].ast.targets[0]) == "timestamp"))]
        if len(updates) < 2:
            raise AnalysisError(f"{fn.qual}: accumulator / timestamp updates not found")
        first = [m for m, lab in cfg.succ[h[0].id] if lab == "iter"][0]
        for x in updates:
            for t in (present[0], complete[0]):
                skip_side = cfg.reachable([m for m, lab in cfg.succ[t.id] if lab == "true"], avoid=[h[0].id])
                wit = cfg.path(first, [x], avoid=[t.id, h[0].id]) if first != t.id else None
                run.check(wit is None and x not in skip_side, "C18.EXCL", fn.qual, cfg.nodes[x].ast,
                          "an accumulator or the timestamp sentinel is updated for a battery that is "
                          "absent or incomplete", node=cfg.nodes[x].ast, file=fn.file, path=cfg.describe_path(wit),
                          instance=f"{fn.qual}: `{cfg.nodes[x].text(40)}` behind `{t.label[:30]}`")
        # timestamp sentinel
        ts_upd = [cfg.nodes[x].ast for x in updates if isinstance(cfg.nodes[x].ast, ast.Assign)]
        ok = len(ts_upd) == 1 and isinstance(ts_upd[0].value, ast.Call) and u(ts_upd[0].value.func) == "max" \
            and len(ts_upd[0].value.args) == 2 and "timestamp" in {u(a) for a in ts_upd[0].value.args} \
            and any(u(a).endswith(".timestamp") for a in ts_upd[0].value.args)
        run.check(ok, "C18.EXCL", fn.qual, "timestamp = max(timestamp, metrics.timestamp) with the accumulators",
                  "the 'some battery qualified' sentinel is not updated together with the accumulators",
                  node=loop, file=fn.file)
        txt = u(fn.node).replace(" ", "")
        ok = "timestamp=_MIN_TIMESTAMP" in txt and "timestamp==_MIN_TIMESTAMP" in txt and "Sample(datetime.now(tz=timezone.utc),None)" in txt
        run.check(ok, "C18.EXCL", fn.qual, "None sample iff the sentinel is untouched",
                  "the result is not None exactly when no battery qualified", node=fn.node, file=fn.file)
    # fetcher drops NaN metrics
    ff = prog.func(f"{FETCH}:LatestMetricsFetcher.fetch_next")
    run.analysed(ff.qual)
    cfg = CFG(ff.node, ff.file)
    stores = [n.id for n in cfg.nodes if n.kind == "stmt" and any(u(w).startswith("metrics[") for w in node_writes(cfg, n.id))]
    guards = [t.id for t in cfg.nodes if t.kind == "test" and t.ast is not None and canon(t.ast) == ("not", ("truthy", "math.isnan(value)"))]
    ok = bool(stores) and len(guards) == 1 and cfg.path(cfg.entry, stores, avoid=guards) is None and \
        [m for m, lab in cfg.succ[guards[0]] if lab == "true"] == stores[:1]
    run.check(ok, "C18.EXCL", ff.qual, "metrics[mid] = value only if not isnan(value)",
              "NaN metric values are stored (they would count as present)", node=ff.node, file=ff.file)
    # working set handling
    init = prog.func(f"{METH}:SendOnUpdate.__init__")
    upd = prog.func(f"{METH}:SendOnUpdate.update_working_batteries")
    run.analysed(upd.qual)
    a = [s for s in body_walk(init.node) if isinstance(s, (ast.Assign, ast.AnnAssign))
         and u(s.targets[0] if isinstance(s, ast.Assign) else s.target) == "self._working_batteries"]
    ok_i = len(a) == 1 and u(a[0].value).replace(" ", "") == f"{init.params[1]}.intersection({init.params[2]}.batteries)"
    b = [s for s in body_walk(upd.node) if isinstance(s, ast.Assign) and u(s.value).replace(" ", "")
         == f"{upd.params[1]}.intersection(self._metric_calculator.batteries)"]
    run.check(ok_i and len(b) == 1, "C18.EXCL", upd.qual, "working set = reported ∩ calculator batteries (both sites)",
              "the initial working set and its updates are not both `reported working ∩ this calculator's "
              "batteries` (sibling sites disagree: a battery reported not working before a metric is first "
              "requested would be aggregated)", node=(a[0] if a else init.node), file=init.file)
    if len(b) == 1:
        new_set = u(b[0].targets[0])
        cfg = CFG(upd.node, upd.file)
        sw = [n for n in cfg.nodes if isinstance(n.ast, ast.Assign) and u(n.ast.value).replace(" ", "") == f"self._working_batteries-{new_set}"]
        wr = [n.id for n in cfg.nodes if n.kind == "stmt" and any(u(w) == "self._working_batteries" for w in node_writes(cfg, n.id))]
        ok = len(sw) == 1 and bool(wr) and not any(cfg.path(w, [sw[0].id]) for w in wr)
        run.check(ok, "C18.EXCL", upd.qual, "stopped = old working − new, computed before the old set is replaced",
                  "the set of batteries that stopped working is computed after the working set was already "
                  "replaced (it is then always empty and stale cached metrics survive)", node=upd.node, file=upd.file)
        if ok:
            sname = u(sw[0].ast.targets[0])  # type: ignore[union-attr]
            loops = [s for s in body_walk(upd.node) if isinstance(s, ast.For) and u(s.iter) == sname]
            ok = len(loops) == 1
            if ok:
                t = u(loops[0]).replace(" ", "")
                bv = u(loops[0].target)
                ok = f"self._cached_metrics.pop({bv},None)" in t and f"self._bat_inv_map[{bv}]" in t and \
                    t.count("self._cached_metrics.pop(") == 2
            run.check(ok, "C18.EXCL", upd.qual, "evict cached metrics of the stopped batteries and their inverters",
                      "cached metrics of batteries that stopped working are not evicted", node=upd.node, file=upd.file)
        sets = [cfg.nodes[w].ast for w in wr]
        ok = all(isinstance(s, ast.Assign) and u(s.value) == new_set for s in sets)
        run.check(ok, "C18.EXCL", upd.qual, f"self._working_batteries = {new_set}",
                  "the working set is replaced by something else than the filtered new set", node=upd.node, file=upd.file)
    calls = [c for m in prog.cls(f"{METH}:SendOnUpdate").methods.values()
             for c in find_calls(m.node, lambda c: method_call(c, "self._metric_calculator", "calculate"))]
    ok = len(calls) == 1 and [u(x) for x in calls[0].args] == ["self._cached_metrics", "self._working_batteries"]
    run.check(ok, "C18.EXCL", f"{METH}:SendOnUpdate", "calculate(self._cached_metrics, self._working_batteries)",
              "the calculator is not given the cached metrics and the current working set", node=calls[0] if calls else None,
              file=init.file)


CONTROLS = [
    ("clamp dropped", MC, "            soc_scaled = min(max(soc_scaled, 0.0), 100.0)\n", "", "C18.RANGE"),
    ("upper - soc", MC, "                    (soc - soc_lower_bound)\n", "                    (soc_upper_bound - soc)\n", "C18.FORM"),
    ("unweighted accumulation", MC, "            used_capacity_x100 += usable_capacity_x100 * soc_scaled\n",
     "            used_capacity_x100 += soc_scaled\n", "C18.FORM"),
    ("iterating metrics_data", MC,
     "        total_capacity_x100: float = 0.0\n\n        for battery_id in working_batteries:",
     "        total_capacity_x100: float = 0.0\n\n        for battery_id in metrics_data:", "C18.EXCL"),
    ("timestamp updated above the guard", MC,
     "            metrics = metrics_data[battery_id]\n\n            capacity = metrics.get(ComponentMetricId.CAPACITY)\n            soc_upper_bound = metrics.get(ComponentMetricId.SOC_UPPER_BOUND)\n            soc_lower_bound = metrics.get(ComponentMetricId.SOC_LOWER_BOUND)\n            soc = metrics.get(ComponentMetricId.SOC)",
     "            metrics = metrics_data[battery_id]\n            timestamp = max(timestamp, metrics.timestamp)\n\n            capacity = metrics.get(ComponentMetricId.CAPACITY)\n            soc_upper_bound = metrics.get(ComponentMetricId.SOC_UPPER_BOUND)\n            soc_lower_bound = metrics.get(ComponentMetricId.SOC_LOWER_BOUND)\n            soc = metrics.get(ComponentMetricId.SOC)",
     "C18.EXCL"),
    ("union instead of intersection at construction", METH,
     "        self._working_batteries: set[int] = working_batteries.intersection(",
     "        self._working_batteries: set[int] = working_batteries.union(", "C18.EXCL"),
]


def run_rules(run: Run, prog: Program) -> None:
    check_form(run, prog)
    check_excl(run, prog)


def check(run: Run, prog: Program, tier: str) -> str:
    run.rule("C18.FORM", "SoC = Σ w·s / Σ w with w = capacity·(upper − lower), s = (soc − lower)/(upper − lower)·100; "
             "capacity = Σ w/100 (same weight)")
    run.rule("C18.RANGE", "per-battery clamp of s to [0, 100]; no division by a zero total")
    run.rule("C18.SCALE", "numerator and denominator homogeneous of degree 1 in capacity")
    run.rule("C18.MONO", "s non-decreasing in soc on both branches")
    run.rule("C18.EXCL", "iteration over working batteries; absent/incomplete batteries skipped before any "
             "accumulator or sentinel update; None iff none qualified; NaN metrics dropped; working-set "
             "intersection at both sites; eviction of stopped batteries")
    run_rules(run, prog)
    run.floor("C18.FORM", 6)
    run.floor("C18.EXCL", 14)
    from ..engine.controls import run_controls

    run_controls(run, CONTROLS, run_rules, tier)
    run.assume("capacity >= 0 and lower <= upper (the property's quantifier): weights are non-negative, so "
               "a weighted mean of values clamped to [0,100] stays in [0,100]")
    run.undecided("the absolute-tolerance zero test is not scale-free for tiny totals (numeric)")
    return ("Polynomial normal forms of the loop-body accumulations identify numerator/denominator and "
            "their shared weight; clamp idiom, homogeneity degree in capacity and sign of the soc "
            "coefficient give range / scale-invariance / monotonicity; guard-dominance on the CFG "
            "decides which batteries contribute; sibling rules decide the working-set handling.")
