"""C18  Pool SoC and capacity are the documented aggregates of working batteries.

Term (E-T) attribute inference on SoCCalculator.calculate / CapacityCalculator.calculate, decided on
the *paths* of the code (symbolic execution of the loop body and of the code after the loop, see
`_c18_util.SymExec`): every role is bound by dataflow —

  data        `metrics_data[b]` for the loop variable b of the loop over the working-batteries parameter
  metric      `data.get(ComponentMetricId.X)`
  sentinel    the loop-carried variable updated to `max(itself, data.timestamp)`
  Σw, Σw·s    the other loop-carried variables that are read after the loop, by the normal form of
              what a qualifying iteration adds to them
  s           the quotient (Σw·s increment) / w on each path

so local names, statement order, `x += e` vs `x = x + e`, if/else vs conditional expression vs early
exit, introduced / inlined locals, keyword vs positional arguments and code moved into private helpers
do not matter.  Sibling rules on the working-set handling of SendOnUpdate and the NaN filter of the
fetcher are decided on set-algebra terms / CFG dominance with reaching definitions.
"""
from __future__ import annotations

import ast
import re
from fractions import Fraction
from typing import Any

from ..engine.cfg import CFG
from ..engine.normalize import inline_helpers, positional
from ..engine.report import AnalysisError, Run
from ..engine.resolver import ClassInfo, FuncInfo, Program, body_walk, parent_map, walk_no_nested
from ..engine.terms import Poly
from ..engine.util import find_calls, method_call, node_writes, reaching_defs, u, writes_of
from ._c18_util import NONE, EffectExec, Leaf, SymExec, cneg, div_atom, div_linear, facts_of, fmt, interval

MC = "timeseries.battery_pool._metric_calculator"
METH = "timeseries.battery_pool._methods"
FETCH = "timeseries.battery_pool._component_metric_fetcher"
REC = "timeseries.battery_pool._component_metrics"
ACCESSOR = "get"  # the method of a component record through which the calculators read a metric value

METRIC = {"ComponentMetricId.CAPACITY": "capacity", "ComponentMetricId.SOC": "soc",
          "ComponentMetricId.SOC_LOWER_BOUND": "lower", "ComponentMetricId.SOC_UPPER_BOUND": "upper"}
ROLES = set(METRIC.values())

CAP, SOC, LO, UP = (Poly.atom(x) for x in ("capacity", "soc", "lower", "upper"))
W = CAP * (UP - LO)
RANGE_INV = Poly.atom(f"inv({(UP - LO)!r})")
GENERAL = (SOC - LO) * RANGE_INV * Poly.const(100)


def per_weight(p: Poly | None) -> Poly | None:
    """s with p == w·s for the weight w = capacity·(upper − lower) (exact division), else None."""
    q = div_atom(p, "capacity") if p is not None and not p.is_zero() else p
    return div_linear(q, "upper", LO) if q is not None and not q.is_zero() else q


# =============================================================================================
# model of one calculator: paths of the loop body and of the code after the loop
# =============================================================================================
class Calc:
    """One call of `calculate`, every private callee executed in line: the aggregation loop may live in
    `calculate` itself or in a helper whose (tuple) result `calculate` goes on with."""

    def __init__(self, prog: Program, fn: FuncInfo) -> None:
        self.fn = fn
        self.prog = prog
        if len(fn.params) < 3:
            raise AnalysisError(f"{fn.qual}: signature changed")
        self.md, self.wb = fn.params[1], fn.params[2]
        self.data_atoms = {f"{self.md}[BID]", f"{self.md}.get(BID)"}
        self.roles: dict[str, str] = {}  # role atom -> data atom it was read from
        self.sym = SymExec(prog, fn, call_hook=self._call_hook, item_atom="BID")
        self.sym.watch = (self.md, self.wb)  # the caller's own containers (C18.EXCL: handed over by reference)
        leaves = self.sym.run(list(fn.node.body), {})
        if len(self.sym.loops) != 1:
            raise AnalysisError(f"{fn.qual}: aggregation loop not found ({len(self.sym.loops)} loops on the paths of one call)")
        rec = self.rec = self.sym.loops[0]
        self.sym.derive_sums(rec)  # `xs.append(e)` in the loop + `sum(xs)` after it is an accumulator
        # paths that return before the loop is reached (`if not working_batteries: return …`) are kept apart
        self.post = [x for x in leaves if x.facts[:len(rec.facts)] == rec.facts]
        self.bypass = [x for x in leaves if x.facts[:len(rec.facts)] != rec.facts]
        self.loop, self.pre_env, self.iter_term, self.body = rec.node, rec.pre_env, rec.iter_term, rec.leaves
        # ---- one iteration, every path
        for v in rec.assigned:
            if (rec.fn is fn and v in (self.md, self.wb)) or rec.pre_env.get(v) in (Poly.atom(self.md), Poly.atom(self.wb)):
                raise AnalysisError(f"{fn.qual}: parameter rebound in the loop")
        self.raises = [x for x in self.body if x.kind == "raise"]  # decided (reported) by C18.EXCL
        # paths of one iteration after which no further battery is visited: decided (reported) by C18.EXCL
        self.leaving = [x for x in self.body if x.kind in ("break", "return", "escape")]
        self.body = [x for x in self.body if x.kind not in ("raise", "break", "return", "escape")]
        bad = [x for x in self.body if x.kind not in ("fall", "continue")]
        if bad:
            raise AnalysisError(f"{fn.qual}: `{bad[0].kind}` inside the aggregation loop")
        # ---- after the loop: every path ends in `return`
        bad = [x for x in self.post if x.kind != "return"]
        if bad or not self.post:
            raise AnalysisError(f"{fn.qual}: a path after the loop does not end in `return` ({bad[0].kind if bad else 'none'})")
        # ---- loop-carried state that is observable after the loop (in a branch condition or in the result)
        seen_after = " ".join(" ".join(fmt(f) for f in x.facts) + " " + repr(x.value) for x in self.post)
        self.carried = [v for v in rec.assigned if re.search(rf"(?<![A-Za-z0-9_]){re.escape(v)}@loop", seen_after)]
        if not self.carried:
            raise AnalysisError(f"{fn.qual}: accumulator / timestamp updates not found")
        for v in self.carried:
            if v not in self.pre_env:
                raise AnalysisError(f"{fn.qual}: `{v}` is read after the loop but not initialised before it")
        # ---- sentinel: the carried variable updated to max(itself, data.timestamp)
        self.sentinel: str | None = None
        cands = [v for v in self.carried if any(self.is_ts_update(x, v) for x in self.body)]
        if len(cands) == 1:
            self.sentinel = cands[0]
        self.accs = [v for v in self.carried if v != self.sentinel]

    # ------------------------------------------------------------------ atoms
    def _call_hook(self, sym: SymExec, fname: str, recv: str | None, args: list[Poly], kws: dict[str, Poly],
                   call: ast.Call) -> Poly | None:
        if recv in self.data_atoms and fname == f"{recv}.{ACCESSOR}" and len(args) == 1 and not kws \
                and repr(args[0]).startswith("ComponentMetricId."):
            role = METRIC.get(repr(args[0]), f"metric:{args[0]!r}")
            if self.roles.setdefault(role, recv) != recv:
                raise AnalysisError(f"{self.fn.qual}: metric {role} read from two different records")
            return sym.mk(role, ("metric", recv, repr(args[0])))
        if fname == "Sample":
            a = dict(zip(["timestamp", "value"], args))  # keyword and positional forms coincide
            a.update(kws)
            if set(a) == {"timestamp", "value"} and len(args) + len(kws) == 2:
                return sym.mk(f"Sample({a['timestamp']!r}, {a['value']!r})", ("Sample", a["timestamp"], a["value"]))
        if fname in ("Percentage.from_percent", "Energy.from_watt_hours") and len(args) == 1 and not kws:
            return sym.mk(f"{fname}({args[0]!r})", ("wrap", fname, args[0]))
        return None

    # ------------------------------------------------------------------ per-path predicates
    def present(self, x: Leaf) -> bool:
        return ("in", "BID", self.md) in x.facts or ("isnot", frozenset({f"{self.md}.get(BID)", "None"})) in x.facts

    def complete(self, x: Leaf) -> bool:
        return bool(self.roles) and all(("isnot", frozenset({r, "None"})) in x.facts for r in self.roles)

    def qualifying(self) -> list[Leaf]:
        return [x for x in self.body if self.present(x) and self.complete(x)]

    def changed(self, x: Leaf, v: str) -> bool:
        return x.env[v] != Poly.atom(f"{v}@0")

    def is_ts_update(self, x: Leaf, v: str) -> bool:
        st = self.sym.parts(x.env[v], "max")
        if st is None or len(st[1]) != 2:
            return False
        names = {repr(a) for a in st[1]}
        return f"{v}@0" in names and any(n in {f"{d}.timestamp" for d in self.data_atoms} for n in names)

    def delta(self, x: Leaf, v: str) -> Poly | None:
        """What the path adds to the carried variable (None: the new value is not old + increment)."""
        d = x.env[v] - Poly.atom(f"{v}@0")
        return None if any("@0" in a for a in d.atoms()) else d

    def has_fact(self, x: Leaf, pred: Any) -> bool:
        return any(pred(f) for f in x.facts)


def isclose_fact(calc: Calc, f: Any, positive: bool) -> bool:
    """`isclose(upper, lower)` (either operand order) is true / false on the path."""
    if not (isinstance(f, tuple) and f[0] == ("truthy" if positive else "falsy")):
        return False
    st = calc.sym.struct.get(f[1])
    return st is not None and st[0] == "call" and st[1] in ("math.isclose", "isclose") \
        and {repr(a) for a in st[2]} == {"lower", "upper"}


# =============================================================================================
def check_form(run: Run, prog: Program) -> None:  # noqa: C901
    soc_fn = prog.func(f"{MC}:SoCCalculator.calculate")
    cap_fn = prog.func(f"{MC}:CapacityCalculator.calculate")
    run.analysed(soc_fn.qual)
    run.analysed(cap_fn.qual)
    # ---------------------------------------------------------------- SoC
    soc = Calc(prog, soc_fn)
    if set(soc.roles) != ROLES:
        raise AnalysisError(f"{soc_fn.qual}: metrics read: {sorted(soc.roles)}")
    check_multiplicity(run, soc)
    q = soc.qualifying()
    if not q or soc.sentinel is None:
        # decided (and reported) by C18.EXCL; the formulas are stated over qualifying iterations
        q = [x for x in soc.body if any(soc.changed(x, v) for v in soc.carried)]
    deltas = {v: [soc.delta(x, v) for x in q] for v in soc.accs}
    den = [v for v, ds in deltas.items() if ds and all(d == W for d in ds)]
    num: list[str] = []
    s_of: dict[str, list[Poly | None]] = {}
    for v, ds in deltas.items():
        if v in den:
            continue
        s_of[v] = [per_weight(d) for d in ds]
        if ds and all(s is not None for s in s_of[v]) and any(s.const_value() is None for s in s_of[v]):  # type: ignore[union-attr]
            num.append(v)
    init0 = all(soc.pre_env[v].is_zero() for v in soc.accs)
    ok = len(num) == 1 and len(den) == 1 and len(soc.accs) == 2 and init0
    shown = {v: sorted({repr(d) if d is not None else "?" for d in ds}) for v, ds in deltas.items()}
    run.check(ok, "C18.FORM", soc_fn.qual, "Σ w·s and Σ w with w = capacity·(upper − lower)",
              f"per qualifying battery the SoC accumulators (initialised to 0: {init0}) grow by {shown}: not a "
              "numerator Σ w·s and a denominator Σ w sharing the weight w = capacity·(upper − lower)",
              node=soc.loop, file=soc_fn.file)
    if not ok:
        return
    # ---- the per-battery rescaled SoC on every qualifying path
    general_ok, clamp_ok, step_ok, mono_ok, n_general, n_step = True, True, True, True, 0, 0
    why: list[str] = []
    for x, s in zip(q, s_of[num[0]]):
        assert s is not None
        lo, hi, core = interval(soc.sym, s)
        equal = soc.has_fact(x, lambda f: isclose_fact(soc, f, True))
        distinct = soc.has_fact(x, lambda f: isclose_fact(soc, f, False))
        if equal:
            n_step += 1
            below = ("<", "soc", "lower") in x.facts
            above = ("<=", "lower", "soc") in x.facts
            if not (core is None and ((below and lo == 0) or (above and lo == 100))):
                step_ok = False
                why.append(f"equal limits, soc {'<' if below else '>=' if above else '?'} lower: s = {s!r}")
            continue
        if not distinct:
            step_ok = False  # the division by (upper − lower) is not protected against equal limits
            why.append("a path computes s without deciding isclose(upper, lower)")
        n_general += 1
        if core != GENERAL:
            general_ok = False
            why.append(f"distinct limits: s is built from {core!r}")
        if not (lo == 0 and hi == 100):
            clamp_ok = False
            why.append(f"distinct limits: s is bounded to [{lo}, {hi}]")
        if core is None or "soc" not in core.atoms() or not all(
                c > 0 for m, c in core.terms.items() if any(a == "soc" for a, _ in m)):
            mono_ok = False
    run.check(general_ok and n_general >= 1, "C18.FORM", soc_fn.qual, "s = (soc − lower)/(upper − lower)·100",
              "the per-battery SoC is not rescaled to its limits as (soc − lower)/(upper − lower)·100"
              + "".join(f"; {w}" for w in why if "built from" in w), node=soc.loop, file=soc_fn.file)
    run.check(clamp_ok and n_general >= 1, "C18.RANGE", soc_fn.qual, "s = min(max(s, 0.0), 100.0) per battery",
              "each battery's rescaled SoC is not clamped to [0, 100] before it is weighted: a battery "
              "outside its limits over- or under-contributes (the pool value is no longer the weighted "
              "mean of clamped values, even if the final result is clamped)"
              + "".join(f"; {w}" for w in why if "bounded" in w), node=soc.loop, file=soc_fn.file)
    run.check(step_ok and n_step >= 2, "C18.MONO", soc_fn.qual, "equal limits: soc < lower -> 0 else 100",
              "with equal SoC limits the rescaled SoC is not the non-decreasing step 0 / 100"
              + "".join(f"; {w}" for w in why if "equal limits" in w or "isclose" in w), node=soc.loop, file=soc_fn.file)
    # ---- scale-free / monotone by degrees
    degs = [(d.degree_in(lambda a: a == "capacity")) for v in (num[0], den[0]) for d in deltas[v]
            if d is not None and not d.is_zero()]
    run.check(bool(degs) and all(d == {1} for d in degs), "C18.SCALE", soc_fn.qual,
              "numerator and denominator are homogeneous of degree 1 in capacity",
              f"degrees in capacity are {degs}: the ratio is not invariant under a common scaling of all capacities",
              node=soc.loop, file=soc_fn.file)
    if general_ok and n_general:
        run.check(mono_ok, "C18.MONO", soc_fn.qual, "s increases with soc",
                  "the rescaled SoC does not increase with the battery's SoC (given upper > lower)",
                  node=soc.loop, file=soc_fn.file)
    # ---- result
    num_a, den_a = Poly.atom(f"{num[0]}@loop"), Poly.atom(f"{den[0]}@loop")
    inv_den = f"inv({den_a!r})"
    ratio = num_a * Poly.atom(inv_den)
    results = [r for r in (result_of(soc, x) for x in soc.post) if r is not None and r[1] != NONE]
    wrapped = [soc.sym.parts(r[1], "wrap") for r in results]
    vals = [w[2] for w in wrapped if w is not None and w[1] == "Percentage.from_percent"]

    def call_fact(f: Any, kind: str, names: tuple[str, ...]) -> list[str] | None:
        """Operand normal forms of a `kind` (truthy / falsy) fact on a call of one of `names`."""
        st = soc.sym.struct.get(f[1]) if isinstance(f, tuple) and len(f) == 2 and f[0] == kind and isinstance(f[1], str) else None
        if st is None or st[0] != "call" or not any(st[1] == n or st[1].endswith("." + n) for n in names):
            return None
        return [repr(a) for a in st[2]]

    def zero_total(x: Leaf) -> bool:
        return any(call_fact(f, "truthy", ("is_close_to_zero",)) == [repr(den_a)]
                   or f in (("==", frozenset({repr(den_a), "0"})), ("<=", repr(den_a), "0")) for f in x.facts)

    def snapped(x: Leaf, c: Fraction) -> bool:
        want_ops = sorted([repr(ratio), repr(Poly.const(c))])
        return any(sorted(call_fact(f, "truthy", ("isclose",)) or []) == want_ops for f in x.facts)

    def is_mean(v: Poly) -> bool:
        """`v` is the weighted mean itself, possibly inside a clamp that does not cut into [0, 100]."""
        lo, hi, core = interval(soc.sym, v)
        return core == ratio and (lo is None or lo <= 0) and (hi is None or hi >= 100)

    # a constant is the pool value only when the total weight is zero or when the mean is (is)close to it
    ok = bool(vals) and any(is_mean(v) for v in vals)
    bad_vals: list[str] = []
    for x in soc.post:
        r = result_of(soc, x)
        w = soc.sym.parts(r[1], "wrap") if r is not None and r[1] != NONE else None
        if w is None or w[1] != "Percentage.from_percent" or is_mean(w[2]):
            continue
        c = w[2].const_value()
        # (the if-statement form of the clamp: 100 where the mean is beyond 100, 0 where it is below 0)
        cut = c is not None and ((c == 100 and any(f in (("<", "100", repr(ratio)), ("<=", "100", repr(ratio))) for f in x.facts))
                                 or (c == 0 and any(f in (("<", repr(ratio), "0"), ("<=", repr(ratio), "0")) for f in x.facts)))
        if not (c is not None and 0 <= c <= 100 and (zero_total(x) or snapped(x, c) or cut)):
            ok = False
            bad_vals.append(f"{w[2]!r} when {', '.join(fmt(f) for f in x.facts)}")
    run.check(ok, "C18.FORM", soc_fn.qual, "pct = Σ w·s / Σ w (or a constant in [0, 100])",
              f"the pool SoC is {sorted({repr(v) for v in vals})}: not the weighted mean (a constant in [0, 100] is "
              "accepted only for a zero total weight or where the mean is close to that constant)"
              + "".join(f"; {b}" for b in bad_vals[:3]), node=soc_fn.node, file=soc_fn.file)

    def nonzero(f: Any) -> bool:
        if f in (("!=", frozenset({repr(den_a), "0"})), ("<", "0", repr(den_a))):
            return True
        st = soc.sym.struct.get(f[1]) if isinstance(f, tuple) and f[0] == "falsy" else None
        return st is not None and st[0] == "call" and st[1].endswith("is_close_to_zero") \
            and [repr(a) for a in st[2]] == [repr(den_a)]

    ok = True
    for x in soc.post:
        uses = [i for i, f in enumerate(x.facts) if inv_den in fmt(f)]
        if x.value is not None and inv_den in repr(x.value):
            uses.append(len(x.facts))
        guards = [i for i, f in enumerate(x.facts) if nonzero(f)]
        if uses and not (guards and guards[0] < uses[0]):
            ok = False
    run.check(ok, "C18.RANGE", soc_fn.qual, "no division when the total weight is zero",
              "the weighted mean is computed although the total usable capacity is zero", node=soc_fn.node, file=soc_fn.file)
    # ---- … and, as a float, the quotient is bounded above by 100 where it is handed to the result.  Every s is in
    # [0, 100] and every w >= 0, so all partial sums are >= 0 and the float quotient is >= 0 exactly; but
    # fl(Σ w·s) / fl(Σ w) of a full pool (every s == 100) is 100 only up to rounding: it can be 100.00000000000001.
    def top_excluded(f: Any) -> bool:
        """The fact rules out that the mean lies in the rounding neighbourhood above 100."""
        if f in (("<", repr(ratio), "100"), ("<=", repr(ratio), "100")):
            return True
        st = soc.sym.struct.get(f[1]) if isinstance(f, tuple) and len(f) == 2 and f[0] == "falsy" and isinstance(f[1], str) else None
        if st is None or st[0] != "call" or not (st[1] == "isclose" or st[1].endswith(".isclose")):
            return False
        tol = {k: v.const_value() for k, v in st[3].items()}
        if set(tol) - {"rel_tol", "abs_tol"} or any(t is None for t in tol.values()):
            return False
        wide = not tol or tol.get("rel_tol", Fraction(0)) >= Fraction(1, 10 ** 12) or tol.get("abs_tol", Fraction(0)) >= Fraction(1, 10 ** 10)
        return wide and sorted(repr(a) for a in st[2]) == sorted([repr(ratio), "100"])

    over: list[str] = []
    for x in soc.post:
        r = result_of(soc, x)
        w = soc.sym.parts(r[1], "wrap") if r is not None and r[1] != NONE else None
        if w is None or w[1] != "Percentage.from_percent":
            continue
        _lo, hi, core = interval(soc.sym, w[2])
        if (hi is not None and hi <= 100) or (core == ratio and any(top_excluded(f) for f in x.facts)):
            continue
        if core is not None and inv_den in repr(core):
            over.append(f"returns {w[2]!r} when {', '.join(fmt(f) for f in x.facts) or 'always'}")
    run.check(not over, "C18.RANGE", soc_fn.qual, "the pool SoC handed to the result is bounded above by 100 on every path",
              "the float quotient Σ w·s / Σ w reaches the result on a path on which nothing bounds it by 100: "
              + "; ".join(over[:2]) + ". Algebraically a weighted mean of values clamped to [0, 100] cannot leave the range, "
              "in floating point it can: for a full pool (every battery at or above its upper limit) both sums are rounded "
              "separately and the quotient is 100.00000000000001 for some capacity / limit combinations (about 0.7 % of random "
              "pools), so the published SoC leaves [0, 100], a full pool is not == 100 and the value is not monotone at the top. "
              "Every path that returns the quotient must either have refuted `isclose(quotient, 100)` (the snap to exactly "
              "100.0 on the other branch), compared it `< / <= 100`, or return it inside `min(…, 100.0)` / an equivalent "
              "clamp; (the lower end needs nothing: all terms are non-negative floats, so the quotient is >= 0 exactly). "
              "Also excluded: a snap with a tolerance too small to cover rounding, a snap applied to another quantity, a "
              "snap on one of several returning branches only", node=soc_fn.node, file=soc_fn.file)
    ok = bool(results) and all(w is not None and w[1] == "Percentage.from_percent" for w in wrapped)
    run.check(ok, "C18.FORM", soc_fn.qual, "returns Percentage.from_percent(pct)", "the computed value is not what is returned",
              node=soc_fn.node, file=soc_fn.file)
    # ---------------------------------------------------------------- capacity
    cap = Calc(prog, cap_fn)
    if set(cap.roles) != ROLES - {"soc"}:
        raise AnalysisError(f"{cap_fn.qual}: metrics read: {sorted(cap.roles)}")
    check_multiplicity(run, cap)
    qc = cap.qualifying()
    if not qc or cap.sentinel is None:
        qc = [x for x in cap.body if any(cap.changed(x, v) for v in cap.carried)]
    deltas_c = {v: [cap.delta(x, v) for x in qc] for v in cap.accs}
    want = W.scale(Fraction(1, 100))
    ok = len(cap.accs) == 1 and bool(qc) and all(d == want for d in deltas_c[cap.accs[0]]) \
        and cap.pre_env[cap.accs[0]].is_zero()
    shown_c = {v: sorted({repr(d) if d is not None else "?" for d in ds}) for v, ds in deltas_c.items()}
    run.check(ok, "C18.FORM", cap_fn.qual, "Σ capacity·(upper − lower)/100",
              f"per qualifying battery the pool capacity grows by {shown_c}: not the usable capacity "
              "capacity·(upper − lower)/100 — and not the same weight (up to the constant 100) the SoC "
              "calculator uses", node=cap.loop, file=cap_fn.file)
    tot = Poly.atom(f"{cap.accs[0]}@loop") if cap.accs else None
    results = [r for r in (result_of(cap, x) for x in cap.post) if r is not None and r[1] != NONE]
    wrapped = [cap.sym.parts(r[1], "wrap") for r in results]
    ok = bool(results) and all(w is not None and w[1] == "Energy.from_watt_hours" and w[2] == tot for w in wrapped)
    run.check(ok, "C18.FORM", cap_fn.qual, "returns Energy.from_watt_hours(total)", "the sum is not what is returned",
              node=cap_fn.node, file=cap_fn.file)


def register_helpers(run: Run, prog: Program, fn: FuncInfo, spliced: Any = (), used: Any = ()) -> None:
    """The private helpers a rule read through (spliced by the normaliser / executed symbolically)."""
    for q in used:
        run.analysed(q)
    for name in spliced or ():
        h = prog.resolve_method(fn.cls, name) if fn.cls is not None else None
        h = h or fn.module.functions.get(name)
        if h is not None:
            run.analysed(h.qual)


def check_multiplicity(run: Run, calc: Calc) -> None:
    """Where the per-battery contributions are collected first and summed after the loop, the collection keeps
    one entry per qualifying battery (decided only where the code has that shape)."""
    if not calc.sym.sums:
        return
    fn = calc.fn
    bad = calc.sym.collapsing
    run.check(not bad, "C18.FORM", fn.qual, "collected contributions keep one entry per battery",
              (f"{bad[0][1]} before the contributions in `{bad[0][0]}` are summed, and the elements do not carry the "
               "battery id: two working batteries whose contributions are bit-identical (identical models that are "
               "both full, both empty or at the same level) collapse into ONE term, so the pool value is no longer the "
               "sum / the usable-capacity-weighted mean over ALL qualifying batteries (and not monotone any more: a "
               "battery that charges a little stops being a duplicate and the pool SoC drops). Σ over batteries is a "
               "sum over a multiset: collect into a list, or into a set / dict keyed by the battery id. Also excluded: "
               "`sum(set(xs))`, `dict.fromkeys(xs)`, a set of weights next to a list of weighted values") if bad else "",
              node=bad[0][2] if bad else calc.loop, file=fn.file)


def prog_of(calc: Calc) -> Program:
    return calc.prog


def result_of(calc: Calc, x: Leaf) -> tuple[Poly, Poly] | None:
    """(timestamp, value) of the Sample a path returns."""
    st = calc.sym.parts(x.value, "Sample")
    return (st[1], st[2]) if st is not None else None


# =============================================================================================
def check_excl(run: Run, prog: Program) -> None:
    for q in (f"{MC}:SoCCalculator.calculate", f"{MC}:CapacityCalculator.calculate"):
        check_excl_calc(run, Calc(prog, prog.func(q)))
    check_fetcher(run, prog)
    check_working_set(run, prog)


def check_excl_calc(run: Run, calc: Calc) -> None:
    fn, loop = calc.fn, calc.loop
    register_helpers(run, prog_of(calc), fn, used=calc.sym.used)
    muts = calc.sym.arg_mutations
    run.check(not muts, "C18.EXCL", fn.qual, f"calculate leaves {calc.md} / {calc.wb} as the caller passed them",
              (f"`{muts[0][1]}` changes the caller's `{muts[0][0]}` in place"
               + (f" (when {', '.join(fmt(f) for f in muts[0][3])})" if muts[0][3] else "")
               + ". SendOnUpdate hands calculate() its own state by reference (self._cached_metrics, "
               "self._working_batteries — C18.EXCL `calculate(self._cached_metrics, self._working_batteries)`), so what "
               "one recalculation removes or adds stays so for every later one: a working battery that has no cached "
               "data at the instant of one recalculation is dropped from the aggregator's working set and stays excluded "
               "when its data arrives, until a status message happens to CHANGE the working set (a cached record that is "
               "removed or edited is lost the same way); the published value is then not the aggregate over the working "
               "batteries with complete data although each single return value looks right. calculate() must read its "
               "arguments only: no intersection_update / difference_update / discard / remove / pop / clear / update / "
               "add, no `&=` `-=` `|=`, no item store or `del` on them or on the records reached through them — filter "
               "into a new set") if muts else "",
              node=muts[0][2] if muts else loop, file=fn.file)
    if muts:
        return  # the other obligations are stated for a loop over the arguments as they were passed
    # every working battery is visited: a path of one iteration ends in the next iteration (fall through / continue)
    lv = calc.leaving
    how = ""
    if lv:
        x0 = lv[0]
        line = getattr(x0.node, "lineno", "?")
        stmt = " ".join(u(x0.node).split())[:80] if x0.node is not None else "?"
        when = ", ".join(fmt(f) for f in x0.facts) or "always"
        if x0.kind == "escape":
            tr = calc.sym.escape_to.get(id(x0.node))
            how = (f"`{stmt}` (line {line}) raises a lookup error when {when}, and the handler that catches it belongs to "
                   f"the `try` at line {getattr(tr, 'lineno', '?')}, which encloses the whole loop: the exception ends the loop")
        else:
            how = f"`{stmt}` (line {line}) leaves the loop when {when}"
    run.check(not lv, "C18.EXCL", fn.qual, "every working battery is visited: no path of one iteration leaves the loop",
              how + ". A working battery that is absent from the data or lacks a metric is SKIPPED, it does not end the "
              "aggregation: here the first such battery the (arbitrarily ordered) set iteration meets drops every working "
              "battery that would be visited after it, so the pool value is smaller than the aggregate over the qualifying "
              "batteries — or None although batteries qualify — depending on the iteration order. Keep the test per "
              "battery: `if b not in data: continue`, `data.get(b)` + None test, or `try: m = data[b] / except KeyError: "
              "continue` INSIDE the loop body. Also excluded: `break` / `return` on a missing entry or metric, a "
              "try/except of the lookup error around the loop or in the caller of a helper that holds the loop",
              node=lv[0].node if lv else loop, file=fn.file)
    if lv:
        return  # the guards below are stated for iterations that go on to the next battery
    run.check(calc.iter_term == calc.wb, "C18.EXCL", fn.qual, f"for battery_id in {calc.wb}",
              f"the aggregation iterates `{u(loop.iter)}` instead of the working batteries: batteries "
              "that are not working are included", node=loop, file=fn.file)
    q = calc.qualifying()
    qids = {id(x) for x in q}
    others = [x for x in calc.body if id(x) not in qids]
    ok = bool(q) and bool(others) and any(not calc.present(x) for x in others) and any(
        calc.present(x) and not calc.complete(x) for x in others) and not calc.raises
    run.check(ok, "C18.EXCL", fn.qual, "guards: present in data; every required metric not None",
              "the loop does not skip batteries that are absent from the data or lack one of the "
              f"required metrics ({sorted(calc.roles)})"
              + (f"; for some battery data an iteration raises instead (line {getattr(calc.raises[0].node, 'lineno', '?')}, "
                 f"when {', '.join(fmt(f) for f in calc.raises[0].facts) or 'always'})" if calc.raises else ""),
              node=loop, file=fn.file)
    if not ok:
        return
    if len(calc.carried) < 2:
        raise AnalysisError(f"{fn.qual}: accumulator / timestamp updates not found")
    for v in calc.carried:
        for name, holds in (("present in the data", calc.present), ("every required metric not None", calc.complete)):
            wit = [x for x in calc.body if calc.changed(x, v) and not holds(x)]
            run.check(not wit, "C18.EXCL", fn.qual, f"update of {v}",
                      "an accumulator or the timestamp sentinel is updated for a battery that is "
                      "absent or incomplete", node=loop, file=fn.file,
                      path=[f"path with {', '.join(fmt(f) for f in wit[0].facts) or 'no guard'}: "
                            f"{v} becomes {wit[0].env[v]!r}"] if wit else None,
                      instance=f"{fn.qual}: update of `{v}` behind `{name}`")
    # timestamp sentinel: moved exactly on the qualifying paths, together with the accumulators
    sen = calc.sentinel
    ok = sen is not None and all(calc.is_ts_update(x, sen) for x in q) and not any(
        calc.changed(x, sen) and not calc.is_ts_update(x, sen) for x in calc.body) and not any(
        any(calc.changed(x, v) for v in calc.accs) and not calc.is_ts_update(x, sen) for x in calc.body)
    run.check(ok, "C18.EXCL", fn.qual, "timestamp = max(timestamp, metrics.timestamp) with the accumulators",
              "the 'some battery qualified' sentinel is not updated together with the accumulators "
              "(on every path of a battery that is present and complete, and only there)",
              node=loop, file=fn.file)
    # None sample iff the sentinel still has its initial value
    ok = sen is not None
    if sen is not None:
        init = calc.pre_env[sen]
        ia = init.as_atom()
        ok = ia is not None and "min" in ia.lower() and "@" not in ia
        eq = ("==", frozenset({f"{sen}@loop", repr(init)}))
        for x in calc.post:
            r = result_of(calc, x)
            untouched, touched = eq in x.facts, cneg(eq) in x.facts
            if r is None or not (untouched or touched) or (untouched and touched):
                ok = False
            elif untouched:
                ok = ok and r[1] == NONE and repr(r[0]).startswith("datetime.now(")
            else:
                ok = ok and r[1] != NONE and "None" not in r[1].atoms()
        ok = ok and any(eq in x.facts for x in calc.post) and any(cneg(eq) in x.facts for x in calc.post)
    # a path that returns without reaching the loop: only for an empty working set / no data at all, and None
    nothing = {("falsy", calc.wb), ("falsy", calc.md), ("==", frozenset({f"len({calc.wb})", "0"})),
               ("==", frozenset({f"len({calc.md})", "0"}))}
    for x in calc.bypass:
        r = result_of(calc, x) if x.kind == "return" else None
        ok = ok and r is not None and r[1] == NONE and any(f in nothing for f in x.facts)
    run.check(ok, "C18.EXCL", fn.qual, "None sample iff the sentinel is untouched",
              "the result is not None exactly when no battery qualified", node=fn.node, file=fn.file)


# ---------------------------------------------------------------------------------------------
def check_fetcher(run: Run, prog: Program) -> None:
    """Every ComponentMetricsData built by fetch_next holds exactly the requested values v with `not isnan(v)`."""
    ff = prog.func(f"{FETCH}:LatestMetricsFetcher.fetch_next")
    run.analysed(ff.qual)
    node = inline_helpers(prog, ff)
    register_helpers(run, prog, ff, spliced=getattr(node, "_spliced", ()))
    built = [c for c in find_calls(node, lambda c: u(c.func) == "ComponentMetricsData")]
    if not built:
        raise AnalysisError(f"{ff.qual}: no ComponentMetricsData is built")
    sites = []
    ok = True
    for c in built:
        m = positional(c, ["component_id", "timestamp", "metrics"]).get("metrics")
        if m is None:
            ok = False
        else:
            sites.append((c, m))
    ok2, kept, n_dicts = _metric_dicts(run, prog, ff, node, sites)
    ok = ok and ok2
    run.check(ok and n_dicts >= 1, "C18.EXCL", ff.qual, "metrics[mid] = value only if not isnan(value)",
              "NaN metric values are stored (they would count as present)", node=ff.node, file=ff.file)
    run.check(kept and n_dicts >= 1, "C18.EXCL", ff.qual, "every requested metric that is not NaN is kept",
              "the record handed to the calculators does not hold, for every requested metric id, the value "
              "extracted from the component data: batteries with complete data would count as incomplete "
              "(and the pool result would be None although batteries qualify)", node=ff.node, file=ff.file)


def _metric_dicts(run: Run, prog: Program, fn: FuncInfo, node: Any, sites: list[tuple[ast.AST, ast.AST]],  # noqa: C901
                  depth: int = 2) -> tuple[bool, bool, int]:
    """(only non-NaN values stored, every requested non-NaN value stored, number of non-empty dicts) for
    the dict expressions `sites` = [(node of `node`'s tree that uses it, expression)]."""
    cfg = CFG(node, fn.file)
    parents = parent_map(node)

    def nan_test(t: ast.AST, value: ast.AST) -> str | None:
        """Label of the edge of test `t` on which `value` is known not to be NaN."""
        neg = False
        while isinstance(t, ast.UnaryOp) and isinstance(t.op, ast.Not):
            neg, t = not neg, t.operand
        if isinstance(t, ast.Call) and u(t.func) in ("math.isnan", "isnan") and len(t.args) == 1 and not t.keywords:
            a = t.args[0]
            if isinstance(a, ast.NamedExpr):  # isnan(v := …) tests the value bound to v
                a = a.target
            if u(a) == u(value):
                return "true" if neg else "false"
        return None

    def extracted(e: ast.AST | None, key: ast.AST) -> bool:
        """`e` is self._extract_metric(…) of the metric id `key`."""
        return isinstance(e, ast.Call) and method_call(e, "self", "_extract_metric") and any(
            u(a) == u(key) for a in list(e.args) + [k.value for k in e.keywords])

    def over_requested(it: ast.AST, at: int, depth: int = 3) -> bool:
        """The iterable ranges over all requested metrics (self._metrics, possibly through one local)."""
        if u(it) == "self._metrics":
            return True
        if isinstance(it, ast.Call) and isinstance(it.func, ast.Attribute) and it.func.attr in ("items", "keys") and not it.args:
            it = it.func.value
        if depth > 0:
            v, at2 = resolve(it, at)
            if isinstance(v, (ast.DictComp, ast.ListComp, ast.SetComp)) and len(v.generators) == 1:
                return over_requested(v.generators[0].iter, at2, depth - 1)
            if isinstance(v, ast.Attribute) and v is not it:
                return over_requested(v, at2, depth - 1)
        return False

    def resolve(e: ast.AST, at: int) -> tuple[ast.AST | None, int]:
        """The expression a local name stands for at node `at` (its single reaching definition)."""
        if isinstance(e, ast.Name):
            ds = reaching_defs(cfg, at, e.id)
            return (_assigned_value(cfg.nodes[ds[0]].ast), ds[0]) if len(ds) == 1 else (None, at)
        return e, at

    def comp_filters(dc: ast.DictComp) -> bool:
        return any(nan_test(i, dc.value) == "true" for g in dc.generators for i in g.ifs)

    def comp_keeps(dc: ast.DictComp, at: int) -> bool:
        if len(dc.generators) != 1:
            return False
        g = dc.generators[0]
        if not over_requested(g.iter, at):
            return False
        if extracted(dc.value, dc.key):
            return True
        # the value is bound by an assignment expression in the filter: … if not isnan(v := extract(k))
        if isinstance(dc.value, ast.Name) and any(
                isinstance(n, ast.NamedExpr) and n.target.id == dc.value.id and extracted(n.value, dc.key)
                for i in g.ifs for n in ast.walk(i)):
            return True
        # {k: v for k, v in raw.items() …} with raw = {k: extract(k) for k in self._metrics}
        src = g.iter.func.value if isinstance(g.iter, ast.Call) and isinstance(g.iter.func, ast.Attribute) else None
        if src is not None and isinstance(g.target, ast.Tuple) and len(g.target.elts) == 2 \
                and u(g.target.elts[0]) == u(dc.key) and u(g.target.elts[1]) == u(dc.value):
            v, _at = resolve(src, at)
            return isinstance(v, ast.DictComp) and extracted(v.value, v.key)
        return False

    def empty_dict(val: ast.AST | None) -> bool:
        return (isinstance(val, ast.Dict) and not val.keys) or (
            isinstance(val, ast.Call) and u(val.func) == "dict" and not val.args and not val.keywords)

    ok, kept, n_dicts = True, True, 0
    for anchor, m in sites:
        at_nodes = set(cfg.node_containing(anchor)) or set(cfg.nodes_of(anchor))
        if empty_dict(m):
            continue  # no metric at all: the battery counts as incomplete
        if isinstance(m, ast.DictComp):
            n_dicts += 1
            ok = ok and comp_filters(m)
            kept = kept and bool(at_nodes) and all(comp_keeps(m, a) for a in at_nodes)
            continue
        if isinstance(m, ast.Call) and depth > 0 and isinstance(m.func, ast.Attribute) and u(m.func.value) == "self" \
                and fn.cls is not None and prog.resolve_method(fn.cls, m.func.attr) is not None:
            # built by a private method that could not be spliced: decide it on that method's returns
            h = prog.resolve_method(fn.cls, m.func.attr)
            assert h is not None
            run.analysed(h.qual)
            hnode = inline_helpers(prog, h)
            rets = [(r, r.value) for r in body_walk(hnode) if isinstance(r, ast.Return) and r.value is not None]
            o2, k2, n2 = _metric_dicts(run, prog, h, hnode, rets, depth - 1)
            ok, kept, n_dicts = ok and o2 and bool(rets), kept and k2, n_dicts + n2
            continue
        if not isinstance(m, ast.Name):
            ok = False
            continue
        n_dicts += 1
        # the dict object: follow `a = b` renamings back to where it is created
        names = [m.id]
        while True:
            defs = {d for a in at_nodes for d in reaching_defs(cfg, a, names[-1])}
            vals = [_assigned_value(cfg.nodes[d].ast) for d in defs]
            if len(defs) == 1 and isinstance(vals[0], ast.Name) and vals[0].id not in names:
                names.append(vals[0].id)
                at_nodes = set(defs)
            else:
                break
        for d, val in zip(defs, vals):
            if isinstance(val, ast.DictComp):
                ok = ok and comp_filters(val)
                kept = kept and comp_keeps(val, d)
            elif not empty_dict(val):
                ok = False
        if not defs:
            ok = False
        stores = [n for n in cfg.nodes if n.kind == "stmt" and any(
            isinstance(w, ast.Subscript) and u(w.value) in names for w in node_writes(cfg, n.id))]
        other = [n for n in cfg.nodes if n.ast is not None and n.kind == "stmt" and any(
            method_call(k, nm, a) for nm in names for a in ("update", "setdefault", "__setitem__")
            for k in find_calls(n.ast, lambda _c: True))]
        if other:
            ok = False
        if not any(isinstance(v, ast.DictComp) for v in vals):
            # filled by stores: one of them keeps, for every requested metric id, the extracted value
            def keeps(st: Any) -> bool:
                s = st.ast
                if not (isinstance(s, ast.Assign) and len(s.targets) == 1 and isinstance(s.targets[0], ast.Subscript)):
                    return False
                key = s.targets[0].slice
                loop = parents.get(s)
                while loop is not None and not (isinstance(loop, ast.For) and u(loop.target) == u(key)):
                    loop = parents.get(loop)
                if loop is None or not over_requested(loop.iter, st.id) or cfg.path(cfg.entry, [st.id]) is None:
                    return False
                v: ast.AST | None = s.value
                if isinstance(v, ast.Name):
                    ds = reaching_defs(cfg, st.id, v.id)
                    v = _assigned_value(cfg.nodes[ds[0]].ast) if len(ds) == 1 else None
                return v is not None and extracted(v, key)

            kept = kept and any(keeps(st) for st in stores)
        for st in stores:
            s = st.ast
            if not isinstance(s, ast.Assign) or len(s.targets) != 1 or not isinstance(s.value, ast.Name):
                ok = False
                continue
            safe = {(t.id, lab) for t in cfg.nodes if t.kind == "test" and t.ast is not None
                    for lab in [nan_test(t.ast, s.value)] if lab is not None}
            if not safe:
                ok = False
                continue
            # every path to the store takes a "not NaN" edge …
            if cfg.path(cfg.entry, [st.id], edge_ok=lambda a, _b, lab: (a, lab) not in safe) is not None:
                ok = False
            # … and the tested value is not rebound between the test and the store
            after = [b for (t, lab) in safe for b, l2 in cfg.succ[t] if l2 == lab]
            writers = [n.id for n in cfg.nodes if n.id != st.id and any(u(w) == s.value.id for w in node_writes(cfg, n.id))]
            if any(cfg.path(a, [w], avoid=[st.id]) is not None and cfg.path(w, [st.id], avoid=[t for t, _ in safe]) is not None
                   for a in after for w in writers):
                ok = False
    return ok, kept, n_dicts


# ---------------------------------------------------------------------------------------------
class SetTerms:
    """Set-algebra normal form of an expression at a CFG node (locals resolved through their single
    reaching definition; `a & b` == `a.intersection(b)` == `b & a`)."""

    def __init__(self, cfg: CFG, alias: dict[str, str], state: str) -> None:
        self.cfg, self.alias, self.state = cfg, alias, state
        self.reads: set[int] = set()  # nodes at which `state` was read while forming the last term

    def term(self, nid: int, e: ast.AST, depth: int = 8) -> Any:  # noqa: C901
        if isinstance(e, ast.Name):
            defs = reaching_defs(self.cfg, nid, e.id)
            if len(defs) == 1 and depth > 0:
                s = self.cfg.nodes[defs[0]].ast
                if isinstance(s, ast.Assign) and len(s.targets) == 1 and u(s.targets[0]) == e.id:
                    return self.term(defs[0], s.value, depth - 1)
                if isinstance(s, ast.AnnAssign) and u(s.target) == e.id and s.value is not None:
                    return self.term(defs[0], s.value, depth - 1)
            return self.alias.get(e.id, e.id)
        if isinstance(e, ast.Call) and isinstance(e.func, ast.Attribute) and len(e.args) == 1 and not e.keywords \
                and e.func.attr in ("intersection", "union", "difference"):
            a, b = self.term(nid, e.func.value, depth), self.term(nid, e.args[0], depth)
            return self._op(e.func.attr, a, b)
        if isinstance(e, ast.BinOp) and isinstance(e.op, (ast.BitAnd, ast.BitOr, ast.Sub)):
            a, b = self.term(nid, e.left, depth), self.term(nid, e.right, depth)
            return self._op({ast.BitAnd: "intersection", ast.BitOr: "union", ast.Sub: "difference"}[type(e.op)], a, b)
        if isinstance(e, ast.Call) and u(e.func) in ("set", "frozenset") and len(e.args) == 1 and not e.keywords:
            return self.term(nid, e.args[0], depth)
        if isinstance(e, (ast.SetComp, ast.GeneratorExp, ast.ListComp)) and len(e.generators) == 1:
            # {x for x in A if x [not] in B}  is  A − B  /  A ∩ B
            g = e.generators[0]
            if isinstance(g.target, ast.Name) and u(e.elt) == g.target.id and len(g.ifs) == 1 and not g.is_async:
                t = g.ifs[0]
                neg = False
                while isinstance(t, ast.UnaryOp) and isinstance(t.op, ast.Not):
                    neg, t = not neg, t.operand
                if isinstance(t, ast.Compare) and len(t.ops) == 1 and isinstance(t.ops[0], (ast.In, ast.NotIn)) \
                        and u(t.left) == g.target.id:
                    member = isinstance(t.ops[0], ast.In) != neg
                    return self._op("intersection" if member else "difference",
                                    self.term(nid, g.iter, depth), self.term(nid, t.comparators[0], depth))
        if isinstance(e, ast.Attribute):
            base = self.term(nid, e.value, depth)
            text = f"{base}.{e.attr}" if isinstance(base, str) else u(e)
            text = self.alias.get(text, text)
            if text == self.state:
                self.reads.add(nid)
            return text
        return u(e)

    @staticmethod
    def _op(name: str, a: Any, b: Any) -> Any:
        if name == "difference":
            return ("−", a, b)
        return ("∩" if name == "intersection" else "∪", frozenset({a, b}))


def _attr_writes(cfg: CFG, attr: str) -> list[int]:
    return [n.id for n in cfg.nodes if n.kind == "stmt" and any(u(w) == attr for w in node_writes(cfg, n.id))]


def _assigned_value(s: ast.AST | None) -> ast.AST | None:
    return s.value if isinstance(s, (ast.Assign, ast.AnnAssign)) else None


def check_working_set(run: Run, prog: Program) -> None:  # noqa: C901
    init = prog.func(f"{METH}:SendOnUpdate.__init__")
    upd = prog.func(f"{METH}:SendOnUpdate.update_working_batteries")
    run.analysed(upd.qual)
    run.analysed(init.qual)
    WS, CALC = "self._working_batteries", "self._metric_calculator"
    if len(init.params) < 3 or len(upd.params) < 2:
        raise AnalysisError(f"{init.qual}: signature changed")
    want = ("∩", frozenset({"REPORTED", "CALC.batteries"}))
    # ---- construction
    icfg = CFG(inline_helpers(prog, init), init.file)
    alias_i = {init.params[1]: "REPORTED", CALC: "CALC", WS: "WORKING"}
    stored = [cfg_n for cfg_n in _attr_writes(icfg, CALC)]
    if all(u(_assigned_value(icfg.nodes[n].ast)) == init.params[2] for n in stored):
        alias_i[init.params[2]] = "CALC"  # the parameter and the attribute are the same object
    st_i = SetTerms(icfg, alias_i, "WORKING")
    wr_i = _attr_writes(icfg, WS)
    vals_i = [_assigned_value(icfg.nodes[n].ast) for n in wr_i]
    ok_i = len(wr_i) == 1 and vals_i[0] is not None and st_i.term(wr_i[0], vals_i[0]) == want
    # ---- update
    unode = inline_helpers(prog, upd)
    register_helpers(run, prog, upd, spliced=getattr(unode, "_spliced", ()))
    cfg = CFG(unode, upd.file)
    st = SetTerms(cfg, {upd.params[1]: "REPORTED", CALC: "CALC", WS: "WORKING"}, "WORKING")
    wr = _attr_writes(cfg, WS)
    terms_u = [st.term(n, v) if v is not None else None for n in wr for v in [_assigned_value(cfg.nodes[n].ast)]]
    ok_u = bool(wr) and all(t == want for t in terms_u)
    # nobody else replaces the working set
    for m in prog.cls(f"{METH}:SendOnUpdate").methods.values():
        if m.name not in ("__init__", "update_working_batteries") and any(
                u(w) == WS for n in body_walk(m.node) for w in writes_of(n) if isinstance(n, ast.stmt)):
            ok_u = False
    run.check(ok_i and ok_u, "C18.EXCL", upd.qual, "working set = reported ∩ calculator batteries (both sites)",
              "the initial working set and its updates are not both `reported working ∩ this calculator's "
              "batteries` (sibling sites disagree: a battery reported not working before a metric is first "
              "requested would be aggregated)", node=(icfg.nodes[wr_i[0]].ast if wr_i else init.node), file=init.file)
    if ok_u:
        # the loop over `old working − new`, with the old set read before it is replaced
        stopped = ("−", "WORKING", want)
        loops = []
        for h in cfg.nodes:
            if h.kind == "for" and isinstance(h.ast, ast.For):
                st.reads = set()
                if st.term(h.id, h.ast.iter) == stopped:
                    loops.append((h, set(st.reads)))
        ok = len(loops) == 1 and bool(loops[0][1]) and not any(
            cfg.path(w, sorted(loops[0][1]), include_src=False) is not None for w in wr)
        run.check(ok, "C18.EXCL", upd.qual, "stopped = old working − new, computed before the old set is replaced",
                  "the set of batteries that stopped working is computed after the working set was already "
                  "replaced (it is then always empty and stale cached metrics survive)", node=upd.node, file=upd.file)
        if ok:
            loop: ast.For = loops[0][0].ast  # type: ignore[assignment]
            up = parent_map(unode)

            def own_loop(n: ast.AST) -> ast.AST | None:
                cur = up.get(n)
                while cur is not None and not isinstance(cur, (ast.For, ast.While)):
                    cur = up.get(cur)
                return cur

            def is_state(e: ast.AST, attr: str) -> bool:
                """`e` is self.<attr>, possibly through local aliases."""
                return any(st.term(nid, e) == attr for nid in cfg.node_containing(e))

            def pops(scope: ast.For) -> bool:
                """The loop itself (not a nested one) pops its own variable from the metrics cache."""
                return isinstance(scope.target, ast.Name) and any(
                    isinstance(c.func, ast.Attribute) and c.func.attr == "pop" and len(c.args) == 2 and not c.keywords
                    and u(c.args[0]) == scope.target.id and own_loop(c) is scope and is_state(c.func.value, "self._cached_metrics")
                    for s_ in scope.body for c in find_calls(s_, lambda _c: True))

            inner = [n for s_ in loop.body for n in walk_no_nested(s_) if isinstance(n, ast.For)
                     and isinstance(n.iter, ast.Subscript) and u(n.iter.slice) == u(loop.target)
                     and is_state(n.iter.value, "self._bat_inv_map")]
            ok = pops(loop) and len(inner) == 1 and pops(inner[0])
            if not ok:
                # … or one loop over the battery and its inverters: for c in (b, *self._bat_inv_map[b])
                both = [n for s_ in loop.body for n in walk_no_nested(s_) if isinstance(n, ast.For)
                        and isinstance(n.iter, (ast.Tuple, ast.List))
                        and any(u(x) == u(loop.target) for x in n.iter.elts)
                        and any(isinstance(x, ast.Starred) and isinstance(x.value, ast.Subscript)
                                and u(x.value.slice) == u(loop.target) and is_state(x.value.value, "self._bat_inv_map")
                                for x in n.iter.elts)]
                ok = len(both) == 1 and pops(both[0])
            run.check(ok, "C18.EXCL", upd.qual, "evict cached metrics of the stopped batteries and their inverters",
                      "cached metrics of batteries that stopped working are not evicted", node=upd.node, file=upd.file)
        # … and it is replaced on every path, except where it is known to be equal to the new set
        equal_edges = set()
        for t in cfg.nodes:
            e, neg = t.ast, False
            if t.kind != "test" or e is None:
                continue
            while isinstance(e, ast.UnaryOp) and isinstance(e.op, ast.Not):
                e, neg = e.operand, not neg
            if isinstance(e, ast.Compare) and len(e.ops) == 1 and isinstance(e.ops[0], (ast.Eq, ast.NotEq)) \
                    and {repr(st.term(t.id, e.left)), repr(st.term(t.id, e.comparators[0]))} == {repr("WORKING"), repr(want)}:
                equal_edges.add((t.id, "true" if isinstance(e.ops[0], ast.Eq) != neg else "false"))
        wit = cfg.path(cfg.entry, [cfg.exit], avoid=wr,
                       edge_ok=lambda a, _b, lab: (a, lab) not in equal_edges and not lab.startswith("exc:"))
        run.check(wit is None, "C18.EXCL", upd.qual, "the working set is replaced unless it equals the new set",
                  "a path leaves update_working_batteries without storing the new working set although it may "
                  "differ from the old one: batteries that stopped working keep being aggregated",
                  node=upd.node, file=upd.file, path=cfg.describe_path(wit))
        # … a replaced working set triggers a recomputation: the event the sending loop waits for is set
        cls = prog.cls(f"{METH}:SendOnUpdate")
        waited = {u(c.func.value) for m in cls.methods.values()
                  if find_calls(m.node, lambda c: method_call(c, CALC, "calculate"))
                  for c in find_calls(m.node, lambda c: method_call(c, None, "wait") and not c.args)
                  if isinstance(c.func, ast.Attribute)}
        if not waited:
            raise AnalysisError(f"{upd.qual}: the event that triggers the recomputation was not found")
        sets = [n.id for n in cfg.nodes if n.ast is not None and n.kind == "stmt" and any(
            method_call(c, ev, "set") for ev in waited for c in find_calls(n.ast, lambda _c: True))]
        # (a synchronous method: whether the event is set just before or after the store is unobservable)
        wit = next((p_ for w in wr for p_ in [cfg.path(w, [cfg.exit], avoid=sets, include_src=False,
                                                      edge_ok=lambda _a, _b, lab: not lab.startswith("exc:"))]
                    if p_ is not None and (upd.is_async or cfg.path(cfg.entry, [w], avoid=sets) is not None)), None)
        run.check(wit is None, "C18.EXCL", upd.qual, "a replaced working set triggers a recomputation",
                  f"after the working set is replaced, a path returns without `{sorted(waited)[0]}.set()`: the pool value "
                  "keeps including batteries that stopped working (and is not None when none is left) until some "
                  "component happens to send new data", node=upd.node, file=upd.file, path=cfg.describe_path(wit))
        # … and the state this method works on exists: every attribute it reads is initialised at construction
        reads = {n.attr for n in body_walk(unode) if isinstance(n, ast.Attribute) and isinstance(n.ctx, ast.Load)
                 and isinstance(n.value, ast.Name) and n.value.id == "self" and prog.resolve_method(cls, n.attr) is None}
        inits = {w.attr for n in icfg.nodes if n.kind == "stmt" for w in node_writes(icfg, n.id)
                 if isinstance(w, ast.Attribute) and isinstance(w.value, ast.Name) and w.value.id == "self"
                 and icfg.path(icfg.entry, [n.id]) is not None}
        missing = sorted(reads - inits - set(cls.class_assigns))
        run.check(not missing, "C18.EXCL", upd.qual, "state read by update_working_batteries is initialised in __init__",
                  f"update_working_batteries reads self.{', self.'.join(missing)} which __init__ never assigns: the update "
                  "raises before / after the working set is replaced and stopped batteries are not evicted",
                  node=init.node, file=init.file)
        run.check(ok_u, "C18.EXCL", upd.qual, "self._working_batteries = reported ∩ calculator batteries",
                  "the working set is replaced by something else than the filtered new set", node=upd.node, file=upd.file)
    calls = [c for m in prog.cls(f"{METH}:SendOnUpdate").methods.values()
             for c in find_calls(m.node, lambda c: method_call(c, CALC, "calculate"))]
    ok = len(calls) == 1
    for m in prog.cls(f"{METH}:SendOnUpdate").methods.values():
        if any(c in calls for c in find_calls(m.node, lambda _c: True)):
            run.analysed(m.qual)
    if ok:
        a = positional(calls[0], prog.func(f"{MC}:SoCCalculator.calculate").params[1:])
        ok = len(calls[0].args) + len(calls[0].keywords) == 2 and {k: u(v) for k, v in a.items()} == {
            "metrics_data": "self._cached_metrics", "working_batteries": WS}
    run.check(ok, "C18.EXCL", f"{METH}:SendOnUpdate", "calculate(self._cached_metrics, self._working_batteries)",
              "the calculator is not given the cached metrics and the current working set", node=calls[0] if calls else None,
              file=init.file)


# =============================================================================================
# C18.FRESH  the values handed to the calculators are the working batteries' *current* metrics
# =============================================================================================
def record_class(prog: Program) -> ClassInfo:
    """The class of the component records: what the fetcher builds, the aggregator caches and the
    calculators read through `ACCESSOR` (bound by that role; the name is whatever the fetcher constructs)."""
    ff = prog.func(f"{FETCH}:LatestMetricsFetcher.fetch_next")
    found: dict[str, ClassInfo] = {}
    for c in find_calls(inline_helpers(prog, ff), lambda _c: True):
        obj = prog.resolve_name(ff.module, u(c.func)) if isinstance(c.func, (ast.Name, ast.Attribute)) else None
        if isinstance(obj, ClassInfo) and prog.resolve_method(obj, ACCESSOR) is not None:
            found[obj.qual] = obj
    if len(found) != 1:
        raise AnalysisError(f"{ff.qual}: the class of the component records was not found ({sorted(found)})")
    return next(iter(found.values()))


def _reads_of_self(fn: FuncInfo) -> set[str]:
    me = fn.params[0] if fn.params else "self"
    return {n.attr for n in body_walk(fn.node) if isinstance(n, ast.Attribute) and isinstance(n.ctx, ast.Load)
            and isinstance(n.value, ast.Name) and n.value.id == me}


def _spellings(prog: Program, cls: ClassInfo, attr: str) -> set[str]:
    """Names under which `self.<attr>` is read: the attribute itself and the properties that return it."""
    out = {attr}
    for c in prog.mro(cls):
        for m in c.methods.values():
            body = [s for s in m.node.body if not (isinstance(s, ast.Expr) and isinstance(s.value, ast.Constant))]
            if any(u(d) == "property" for d in m.node.decorator_list) and len(body) == 1 \
                    and isinstance(body[0], ast.Return) and m.params and u(body[0].value) == f"{m.params[0]}.{attr}":
                out.add(m.name)
    return out


def _exact_view(sym: SymExec, name: str) -> str:
    """`dict(x)` / `tuple(x)` / `list(x)` / `x.items()` compare equal exactly when x does."""
    st = sym.struct.get(name)
    if st is not None and st[0] == "call" and not st[3]:
        if st[1] in ("dict", "tuple", "list") and len(st[2]) == 1:
            return _exact_view(sym, repr(st[2][0]))
        if st[1].endswith(".items") and not st[2]:
            return _exact_view(sym, st[1][:-len(".items")])
    return name


def _equal_pairs(sym: SymExec, f: Any) -> list[frozenset[str]]:
    """The pairs of terms an `==` fact states to be equal (a comparison of two tuples is elementwise)."""
    if not (isinstance(f, tuple) and len(f) == 2 and f[0] == "==" and isinstance(f[1], frozenset) and len(f[1]) == 2):
        return []
    a, b = sorted(f[1])
    sa, sb = sym.struct.get(a), sym.struct.get(b)
    if sa is not None and sb is not None and sa[0] == sb[0] == "tuple" and len(sa[1]) == len(sb[1]):
        return [p for x, y in zip(sa[1], sb[1]) for p in _equal_pairs(sym, ("==", frozenset({repr(x), repr(y)})))]
    return [frozenset({_exact_view(sym, a), _exact_view(sym, b)})]


def check_record_equality(run: Run, prog: Program, rec: ClassInfo, user: str) -> None:
    """Two records compare equal only if the values the calculators read from them are equal (`==`)."""
    get = prog.resolve_method(rec, ACCESSOR)
    assert get is not None
    payload = sorted(a for a in _reads_of_self(get) if prog.resolve_method(rec, a) is None)
    if not payload:
        raise AnalysisError(f"{get.qual}: the state a metric value is read from was not found")
    for op, claims_when in (("__eq__", True), ("__ne__", False)):
        fn = prog.resolve_method(rec, op)
        construct = f"{rec.name}.{op}"
        if fn is None:
            # identity / generated field-wise equality (or `!=` as the negation of __eq__): nothing tolerant —
            # unless a generated (dataclass) comparison is told to leave the payload out
            left_out = [a for a in payload for v in [rec.class_assigns.get(a)] if isinstance(v, ast.Call) and any(
                k.arg == "compare" and isinstance(k.value, ast.Constant) and k.value.value is False for k in v.keywords)]
            run.check(not left_out, "C18.FRESH", rec.qual, construct,
                      f"the generated comparison of {rec.name} leaves out {left_out} (compare=False), the state the "
                      f"calculators read metric values from: in {user} records with different values compare equal and "
                      "no recomputation is triggered", node=rec.node, file=rec.module.rel,
                      instance=f"{rec.qual}: {op} not user-defined")
            continue
        run.analysed(fn.qual)
        if len(fn.params) != 2:
            raise AnalysisError(f"{fn.qual}: signature changed")
        me, other = fn.params
        sym = SymExec(prog, fn)
        wit: list[str] = []
        for x in sym.run(list(fn.node.body), {}):
            if x.kind == "raise":
                continue
            if x.kind != "return":
                raise AnalysisError(f"{fn.qual}: a path ends in `{x.kind}`")
            val = x.value if x.value is not None else NONE
            shown, conj = repr(val), set(x.facts)
            st = sym.parts(val, "cond")
            if st is not None:
                c = st[1] if claims_when else cneg(st[1])
                if c == ("const", False):
                    continue
                conj |= set(facts_of(c))
            elif shown in (("False", "None", "0") if claims_when else ("True", "1")) or shown == "NotImplemented":
                continue  # this path does not say "equal"
            pairs = {p for f in conj for p in _equal_pairs(sym, f)}
            if frozenset({me, other}) in pairs:
                continue  # delegates to the sibling operator, decided there
            missing = [a for a in payload if not any(
                frozenset({f"{me}.{s1}", f"{other}.{s2}"}) in pairs
                for s1 in _spellings(prog, rec, a) for s2 in _spellings(prog, rec, a))]
            if missing:
                wit.append(f"returns `{shown[:120]}` when {', '.join(fmt(f) for f in x.facts) or 'always'}: "
                           f"{', '.join(f'{me}.{a} == {other}.{a}' for a in missing)} is not required")
        run.check(not wit, "C18.FRESH", fn.qual, construct,
                  f"{construct} decides in {user} whether a received record differs from the cached one, and it can "
                  f"call two records equal whose metric values (read by the calculators through `{ACCESSOR}` from "
                  f"{', '.join('self.' + a for a in payload)}) differ — {'; '.join(wit[:2])}. Such a message is not an update, "
                  "calculate() is not re-run and the published SoC / capacity stops being the aggregate of the working "
                  "batteries' current metrics (the error accumulates over many small steps). The record comparison must "
                  "be exact on the payload: no tolerance / rounding (isclose, round, abs(a-b) < eps), no comparison of "
                  "keys, ids or timestamps only, no constant True, no __ne__ that disagrees with __eq__",
                  node=fn.node, file=fn.file, instance=f"{rec.qual}: {op} exact on {payload}")


def check_fresh(run: Run, prog: Program) -> dict[str, Any]:  # noqa: C901
    """-> what the decision was read from: {"compared": a record comparison takes part, "live": quals executed}."""
    info: dict[str, Any] = {"compared": False, "live": set()}
    cls = prog.cls(f"{METH}:SendOnUpdate")
    CALC = "self._metric_calculator"
    calls = [c for m in cls.methods.values() for c in find_calls(m.node, lambda c: method_call(c, CALC, "calculate"))]
    if len(calls) != 1:
        return info  # reported by C18.EXCL
    cache = u(positional(calls[0], prog.func(f"{MC}:SoCCalculator.calculate").params[1:]).get("metrics_data"))
    if not cache.startswith("self."):
        return info  # reported by C18.EXCL
    waited = {u(c.func.value) for m in cls.methods.values()
              if find_calls(m.node, lambda c: method_call(c, CALC, "calculate"))
              for c in find_calls(m.node, lambda c: method_call(c, None, "wait") and not c.args)
              if isinstance(c.func, ast.Attribute)}
    if not waited:
        raise AnalysisError(f"{cls.qual}: the event that triggers the recomputation was not found")
    methods = [m for m in cls.methods.values() if m.name != "__init__"]

    def store_points(m: FuncInfo, via: set[str]) -> list[ast.AST]:
        names = {cache} | {t.id for s in body_walk(m.node) if isinstance(s, ast.Assign) and u(s.value) == cache
                           for t in s.targets if isinstance(t, ast.Name)}
        out: list[ast.AST] = []
        for n in body_walk(m.node):
            if isinstance(n, (ast.Assign, ast.AnnAssign, ast.AugAssign)):
                ts = n.targets if isinstance(n, ast.Assign) else [n.target]
                if any(isinstance(t, ast.Subscript) and u(t.value) in names for t in ts):
                    out.append(n)
            elif isinstance(n, ast.Call) and isinstance(n.func, ast.Attribute):
                if u(n.func.value) in names and n.func.attr in ("update", "setdefault", "__setitem__"):
                    raise AnalysisError(f"{m.qual}: records are cached through `{n.func.attr}` (shape not read)")
                if u(n.func.value) in ("self", "cls") and n.func.attr in via:
                    out.append(n)
        return out

    storing: set[str] = set()
    while True:  # the methods that store a record, directly or through a private helper
        more = {m.name for m in methods if m.name not in storing and store_points(m, storing)}
        if not more:
            break
        storing |= more
    if not storing:
        raise AnalysisError(f"{cls.qual}: no method stores a received record into {cache}")
    units: list[tuple[FuncInfo, ast.For]] = []
    loose: list[FuncInfo] = []
    for m in methods:
        pts = store_points(m, storing)
        if not pts:
            continue
        loops = [n for n in body_walk(m.node) if isinstance(n, ast.For)]
        for p in pts:
            holders = [lp for lp in loops if any(x is p for b in lp.body for x in walk_no_nested(b))]
            inner = [lp for lp in holders if not any(o is not lp and any(x is o for b in lp.body for x in walk_no_nested(b))
                                                     for o in holders)]
            if inner and not any(lp is inner[0] for _m, lp in units):
                units.append((m, inner[0]))
            elif not inner:
                loose.append(m)
    called = {n.func.attr for m in methods for n in body_walk(m.node) if isinstance(n, ast.Call)
              and isinstance(n.func, ast.Attribute) and u(n.func.value) in ("self", "cls")}
    for m in loose:
        if m.name not in called:
            raise AnalysisError(f"{m.qual}: a record is stored into {cache} outside a per-message loop (shape not read)")
    if not units:
        raise AnalysisError(f"{cls.qual}: the loop that stores the received records was not found")
    compared = False
    for m, loop in units:
        run.analysed(m.qual)
        if not isinstance(loop.target, ast.Name):
            raise AnalysisError(f"{m.qual}: unsupported loop target `{u(loop.target)}`")
        sym = EffectExec(prog, m, item_atom="ITEM")
        leaves = sym.run(list(loop.body), {loop.target.id: Poly.atom("ITEM")})
        register_helpers(run, prog, m, used=sym.used)
        info["live"] |= {m.qual} | set(sym.used)
        wit: list[str] = []
        n_store = 0
        for x in leaves:
            fired = any(isinstance(f, tuple) and f[0] == "effect" and f[1] in {f"{ev}.set" for ev in waited} for f in x.facts)
            for f in x.facts:
                if not (isinstance(f, tuple) and f[0] == "store" and f[1] == cache):
                    continue
                n_store += 1
                _k, _base, key, val = f
                old = {f"{cache}[{key}]", f"{cache}.get({key})", f"{cache}.get({key}, None)"}
                same = any(g == ("==", frozenset({val, o})) for g in x.facts for o in old)
                compared = compared or same or any(g == ("!=", frozenset({val, o})) for g in x.facts for o in old)
                if not (fired or same):
                    conds = [fmt(g) for g in x.facts if not (isinstance(g, tuple) and g[0] in ("store", "effect"))]
                    wit.append(f"{cache}[{key}] = {val} when {', '.join(conds) or 'always'}")
        ev = sorted(waited)[0]
        run.check(bool(n_store) and not wit, "C18.FRESH", m.qual, f"{cache}[id] = record  =>  {ev}.set() unless record == cached record",
                  f"a received record replaces the cached one without `{ev}.set()` on a path where it is not known to be "
                  f"equal (`==`, evaluated before the store) to the entry it replaces: {'; '.join(wit[:2]) or 'no store found on the paths'}. "
                  "The data the calculators read changes but calculate() is not re-run, so the published SoC / capacity is "
                  "not the aggregate of the working batteries' current metrics. Also excluded: the first record of a "
                  "component not counting as an update, a change test on identity / timestamps / another component's "
                  "entry, a comparison made after the cache was already overwritten, the trigger dropped on a branch",
                  node=loop, file=m.file, path=wit[:4] or None)
        # … and no received record is left out: the cache the calculators read holds the LATEST record received from
        # each component (arrival order), so every path that looked at a record (not None) stores it
        pairs = {(f[2], f[3]) for x in leaves for f in x.facts if isinstance(f, tuple) and f[0] == "store" and f[1] == cache}
        dropped: list[str] = []
        for x in leaves:
            if x.kind == "raise" or any(isinstance(f, tuple) and f[0] == "store" and f[1] == cache for f in x.facts):
                continue
            conds = [f for f in x.facts if not (isinstance(f, tuple) and f[0] in ("store", "effect"))]
            for key, val in sorted(pairs):
                if ("is", frozenset({val, "None"})) in conds or not any(val in fmt(f) for f in conds):
                    continue  # nothing was received / the path never looked at the record
                old = {f"{cache}[{key}]", f"{cache}.get({key})", f"{cache}.get({key}, None)"}
                if any(g == ("==", frozenset({val, o})) for g in conds for o in old):
                    compared = True
                    continue  # equal (exactly, C18.FRESH record comparison) to the entry it would replace
                dropped.append(f"`{val}` is not stored when {', '.join(fmt(f) for f in conds)}")
                break
        run.check(bool(pairs) and not dropped, "C18.FRESH", m.qual, f"every received record replaces {cache}[id]",
                  f"a path of the per-message loop receives a record and goes on without storing it into {cache}: "
                  f"{'; '.join(dropped[:2]) or 'no store found on the paths'}. calculate() is then handed an older entry "
                  "instead of the component's current metrics. The cache mixes records stamped by the component "
                  "(data.timestamp) with the EMPTY record the fetcher produces after MAX_BATTERY_DATA_AGE_SEC of silence, "
                  "stamped with the local clock: a filter on the record (its timestamp against the cached one, its "
                  "completeness, the working set, a rate limit) lets such an entry survive — a working battery whose clock "
                  "lags and that delivers every metric again stays excluded from the pool SoC / capacity, or (dropping empty "
                  "records) a silent battery keeps contributing stale values. The order of arrival decides which record is "
                  "current: store every record that is not None, unconditionally. Also excluded: `>` / `>=` timestamp "
                  "guards ('keep the most recent sample'), `if metrics.get(…) is not None` before the store, storing only "
                  "for batteries in the working set, storing only when the record changed by a comparison that is not the "
                  "exact record comparison", node=loop, file=m.file, path=dropped[:4] or None,
                  instance=f"{m.qual}: every received record is stored")
    rec = record_class(prog)
    if compared:
        check_record_equality(run, prog, rec, f"{cls.name}")
    else:
        # every stored record triggers a recomputation: no record comparison takes part in the decision
        run.check(True, "C18.FRESH", cls.qual, "every stored record triggers a recomputation", "",
                  instance=f"{cls.qual}: no record comparison on the store paths")
    info["compared"] = compared
    return info


CONTROLS = [
    ("clamp dropped", MC, "            soc_scaled = min(max(soc_scaled, 0.0), 100.0)\n", "", "C18.RANGE"),
    ("upper - soc", MC, "                    (soc - soc_lower_bound)\n", "                    (soc_upper_bound - soc)\n", "C18.FORM"),
    ("unweighted accumulation", MC, "            used_capacity_x100 += usable_capacity_x100 * soc_scaled\n",
     "            used_capacity_x100 += soc_scaled\n", "C18.FORM"),
    ("iterating metrics_data", MC,
     "        total_capacity_x100: float = 0.0\n\n        for battery_id in working_batteries:",
     "        total_capacity_x100: float = 0.0\n\n        for battery_id in metrics_data:", "C18.EXCL"),
    ("timestamp updated above the guard", MC,
     "            metrics = metrics_data[battery_id]\n\n            capacity = metrics.get(ComponentMetricId.CAPACITY)\n            soc_upper_bound = metrics.get(ComponentMetricId.SOC_UPPER_BOUND)\n            soc_lower_bound = metrics.get(ComponentMetricId.SOC_LOWER_BOUND)\n            soc = metrics.get(ComponentMetricId.SOC)",
     "            metrics = metrics_data[battery_id]\n            timestamp = max(timestamp, metrics.timestamp)\n\n            capacity = metrics.get(ComponentMetricId.CAPACITY)\n            soc_upper_bound = metrics.get(ComponentMetricId.SOC_UPPER_BOUND)\n            soc_lower_bound = metrics.get(ComponentMetricId.SOC_LOWER_BOUND)\n            soc = metrics.get(ComponentMetricId.SOC)",
     "C18.EXCL"),
    ("union instead of intersection at construction", METH,
     "        self._working_batteries: set[int] = working_batteries.intersection(",
     "        self._working_batteries: set[int] = working_batteries.union(", "C18.EXCL"),
    ("pool value forced to 100 unless close to 100", MC, "            if math.isclose(pct, 100.0):",
     "            if not math.isclose(pct, 100.0):", "C18.FORM"),
    ("working set replaced only when unchanged", METH, "        if new_set != self._working_batteries:",
     "        if new_set == self._working_batteries:", "C18.EXCL"),
    ("no recomputation after a working-set change", METH,
     "            self._working_batteries = new_set\n            self._update_event.set()\n",
     "            self._working_batteries = new_set\n", "C18.EXCL"),
    ("working set filtered in place", MC, "        timestamp = _MIN_TIMESTAMP\n        total_capacity = 0.0\n",
     "        timestamp = _MIN_TIMESTAMP\n        total_capacity = 0.0\n"
     "        working_batteries.intersection_update(metrics_data.keys())\n", "C18.EXCL"),
    ("inverter map not initialised", METH, "        self._bat_inv_map = _get_battery_inverter_mappings(",
     "        bat_inv_map = _get_battery_inverter_mappings(", "C18.EXCL"),
    ("metrics never stored", FETCH, "                metrics[mid] = value\n", "                pass\n", "C18.EXCL"),
    ("a changed record does not trigger a recomputation", METH,
     "                if self._metric_updated(metrics):\n                    self._update_event.set()\n", "", "C18.FRESH"),
    ("record compared with the cache after it was overwritten", METH,
     "                if self._metric_updated(metrics):\n                    self._update_event.set()\n\n"
     "                cid = metrics.component_id\n                # Save metric even if not changed to update its timestamp.\n"
     "                self._cached_metrics[cid] = metrics\n",
     "                cid = metrics.component_id\n                self._cached_metrics[cid] = metrics\n"
     "                if self._metric_updated(metrics):\n                    self._update_event.set()\n", "C18.FRESH"),
]


# ---------------------------------------------------------------------------------------------
# structural controls: the same kind of defects, located by structure in the tree under analysis
# (whole-source replacements, so they apply to every shape of the anchors); they come in addition
# to the textual controls above, which are skipped when their text has been refactored away
# ---------------------------------------------------------------------------------------------
def _splice(source: str, edits: list[tuple[ast.AST, str]]) -> str:
    lines = source.splitlines(keepends=True)
    starts = [0]
    for ln in lines:
        starts.append(starts[-1] + len(ln))

    def off(lineno: int, col: int) -> int:
        return starts[lineno - 1] + len(lines[lineno - 1].encode("utf-8")[:col].decode("utf-8"))

    spans = sorted(((off(n.lineno, n.col_offset), off(n.end_lineno, n.end_col_offset), new)  # type: ignore[attr-defined]
                    for n, new in edits), reverse=True)
    for a, b, new in spans:
        source = source[:a] + new + source[b:]
    return source


def structural_controls(prog: Program) -> list[tuple[str, str, str, str, str]]:  # noqa: C901
    out: list[tuple[str, str, str, str, str]] = []

    def seg(mod_src: str, n: ast.AST) -> str:
        t = ast.get_source_segment(mod_src, n)
        if t is None:
            raise AnalysisError("source segment not available")
        return t

    def add(name: str, module: str, edits: list[tuple[ast.AST, str]], rule: str) -> None:
        src = prog.module(module).source
        if edits:
            out.append((name, module, src, _splice(src, edits), rule))

    def class_nodes(cls_qual: str) -> list[ast.AST]:
        return [n for m in prog.cls(cls_qual).methods.values() for n in body_walk(m.node)]

    mc = prog.module(MC).source
    for cname, wrapper, mutate in (("SoCCalculator", "Percentage.from_percent", "100.0 - ({})"),
                                   ("CapacityCalculator", "Energy.from_watt_hours", "({}) * 2")):
        fn = prog.func(f"{MC}:{cname}.calculate")
        try:
            calc = Calc(prog, fn)
            rec = calc.rec
            md_names = [n for n, v in rec.pre_env.items() if v == Poly.atom(fn.params[1])] or [fn.params[1]]
            wb_names = [n for n, v in rec.pre_env.items() if v == Poly.atom(fn.params[2])] or [fn.params[2]]
            if rec.fn.module.name == MC:
                add(f"{cname}: loop over all the data", MC, [(rec.orig.iter, md_names[0])], "C18.EXCL")
                # the iteration edits the caller's containers (the working set is pruned / a cached record removed)
                first, tgt = rec.orig.body[0], u(rec.orig.target)
                stmt = f"{wb_names[0]}.discard({tgt})" if cname == "SoCCalculator" else f"{md_names[0]}.pop({tgt}, None)"
                if isinstance(rec.orig.target, ast.Name):
                    add(f"{cname}: an argument is changed in place", MC,
                        [(first, f"{stmt}\n{' ' * first.col_offset}{seg(mc, first)}")], "C18.EXCL")
                # an absent battery ends the aggregation: `break` instead of going on with the next battery …
                conts = [n for b in rec.orig.body for n in ast.walk(b) if isinstance(n, ast.Continue)]
                if conts:
                    add(f"{cname}: the first skipped battery ends the loop", MC, [(conts[0], "break")], "C18.EXCL")
                # … or the membership test turned into a bare lookup whose KeyError is caught around the whole loop
                g = first
                if isinstance(g, ast.If) and not g.orelse and len(g.body) == 1 and isinstance(g.body[0], ast.Continue) \
                        and isinstance(g.test, ast.Compare) and len(g.test.ops) == 1 and isinstance(g.test.ops[0], ast.NotIn) \
                        and u(g.test.left) == tgt and u(g.test.comparators[0]) in md_names and isinstance(rec.orig.target, ast.Name):
                    col = rec.orig.col_offset
                    text = seg(mc, rec.orig).replace(seg(mc, g), f"_probe = {md_names[0]}[{tgt}]", 1).splitlines()
                    wrapped = "\n".join(["try:", " " * (col + 4) + text[0]] + ["    " + ln if ln.strip() else ln for ln in text[1:]]
                                        + [" " * col + "except KeyError:", " " * (col + 4) + "pass"])
                    add(f"{cname}: lookup error of an absent battery caught around the whole loop", MC,
                        [(rec.orig, wrapped)], "C18.EXCL")
            # an accumulator replaced by "collect the contributions in a set, sum after the loop"
            body = list(fn.node.body)
            augs = [n for b in rec.orig.body for n in ast.walk(b) if isinstance(n, ast.AugAssign) and isinstance(n.op, ast.Add)
                    and isinstance(n.target, ast.Name) and n.target.id in calc.accs]
            at = next((i for i, b in enumerate(body) if isinstance(b, ast.For) and (b.lineno, b.col_offset) == (
                rec.orig.lineno, rec.orig.col_offset)), None)  # (the executor works on a copy of the tree)
            if rec.fn is fn and at is not None and at + 1 < len(body) and augs:
                a = augs[0].target.id
                inits = [b for b in body[:at] if isinstance(b, (ast.Assign, ast.AnnAssign)) and b.value is not None
                         and [u(t) for t in (b.targets if isinstance(b, ast.Assign) else [b.target])] == [a]]
                nxt = body[at + 1]
                if len(inits) == 1 and len([x for x in augs if x.target.id == a]) == 1:
                    add(f"{cname}: contributions collected in a set before they are summed", MC,
                        [(inits[0], f"{a}__c: set[float] = set()"), (augs[0], f"{a}__c.add({seg(mc, augs[0].value)})"),
                         (nxt, f"{a} = sum({a}__c)\n{' ' * nxt.col_offset}{seg(mc, nxt)}")], "C18.FORM")
        except AnalysisError:
            pass
        nodes = class_nodes(f"{MC}:{cname}")
        # the sentinel test after the loop, reversed
        cmps = [n for n in body_walk(fn.node) if isinstance(n, ast.Compare) and len(n.ops) == 1
                and isinstance(n.ops[0], (ast.Eq, ast.NotEq)) and "_MIN_TIMESTAMP" in (u(n.left), u(n.comparators[0]))]
        if len(cmps) == 1:
            c = cmps[0]
            flipped = "!=" if isinstance(c.ops[0], ast.Eq) else "=="
            add(f"{cname}: sentinel test reversed", MC, [(c, f"{seg(mc, c.left)} {flipped} {seg(mc, c.comparators[0])}")], "C18.EXCL")
        # the sentinel keeps the earliest instead of the latest timestamp
        mx = [n for n in nodes if isinstance(n, ast.Call) and u(n.func) == "max" and len(n.args) == 2
              and any(isinstance(a, ast.Attribute) and a.attr == "timestamp" for a in n.args)]
        if len(mx) == 1:
            add(f"{cname}: sentinel moved by min", MC, [(mx[0].func, "min")], "C18.EXCL")
        # the wrapped result is not the aggregate
        wr = [n for n in nodes if isinstance(n, ast.Call) and u(n.func) == wrapper and len(n.args) == 1
              and not isinstance(n.args[0], ast.Constant)]
        if wr:
            add(f"{cname}: result distorted", MC, [(w.args[0], mutate.format(seg(mc, w.args[0]))) for w in wr], "C18.FORM")
    soc_nodes = class_nodes(f"{MC}:SoCCalculator")

    def is_mm(n: ast.AST, names: tuple[str, ...] = ("min", "max")) -> bool:
        return isinstance(n, ast.Call) and u(n.func) in names and len(n.args) == 2 and not n.keywords

    clamps = []
    for n in soc_nodes:
        if is_mm(n):
            inner = [a for a in n.args if is_mm(a, ("max",) if u(n.func) == "min" else ("min",))]  # type: ignore[attr-defined]
            consts = [a for a in n.args if isinstance(a, ast.Constant)]  # type: ignore[attr-defined]
            if len(inner) == 1 and len(consts) == 1:
                core = [a for a in inner[0].args if not isinstance(a, ast.Constant)]  # type: ignore[attr-defined]
                if len(core) == 1:
                    clamps.append((n, core[0]))
    if len(clamps) == 1:
        add("SoCCalculator: clamp dropped", MC, [(clamps[0][0], seg(mc, clamps[0][1]))], "C18.RANGE")
    divs = [n for n in soc_nodes if isinstance(n, ast.BinOp) and isinstance(n.op, ast.Div)
            and any(isinstance(x, ast.BinOp) and isinstance(x.op, ast.Sub) for x in ast.walk(n.left))]
    if len(divs) == 1:
        sub = [x for x in ast.walk(divs[0].left) if isinstance(x, ast.BinOp) and isinstance(x.op, ast.Sub)][0]
        add("SoCCalculator: rescaling numerator reversed", MC,
            [(sub, f"{seg(mc, sub.right)} - {seg(mc, sub.left)}")], "C18.FORM")
    # fetcher: the NaN test tests something else
    ff = prog.func(f"{FETCH}:LatestMetricsFetcher.fetch_next")
    nan = [n.func for n in body_walk(ff.node) if isinstance(n, ast.Call) and u(n.func) in ("math.isnan", "isnan")]
    add("fetcher: NaN values are kept", FETCH, [(f, "math.isinf") for f in nan], "C18.EXCL")
    stores = [n for n in body_walk(ff.node) if isinstance(n, ast.Assign) and len(n.targets) == 1
              and isinstance(n.targets[0], ast.Subscript) and isinstance(n.targets[0].value, ast.Name)]
    if len(stores) == 1:
        add("fetcher: metrics never stored", FETCH, [(stores[0], "pass")], "C18.EXCL")
    # the snapping test of the pool value, negated
    snaps = [n for n in soc_nodes if isinstance(n, ast.If) and isinstance(n.test, ast.Call)
             and u(n.test.func) in ("math.isclose", "isclose") and any(isinstance(a, ast.Constant) for a in n.test.args)]
    if len(snaps) == 1:
        add("SoCCalculator: snapping test negated", MC, [(snaps[0].test, f"not {seg(mc, snaps[0].test)}")], "C18.FORM")
        if not snaps[0].orelse:  # the bare float quotient reaches the result: 100.00000000000001 for some full pools
            add("SoCCalculator: snap to 100 removed", MC, [(snaps[0], "pass")], "C18.RANGE")
    snapx = [n for n in soc_nodes if isinstance(n, ast.IfExp) and isinstance(n.test, ast.Call)
             and u(n.test.func) in ("math.isclose", "isclose") and any(isinstance(a, ast.Constant) for a in n.test.args)]
    if len(snapx) == 1 and not snaps:
        add("SoCCalculator: snap to 100 removed", MC, [(snapx[0], f"({seg(mc, snapx[0].orelse)})")], "C18.RANGE")
    # the working set is replaced exactly when it did not change
    upd = prog.func(f"{METH}:SendOnUpdate.update_working_batteries")
    eqs = [n for n in body_walk(upd.node) if isinstance(n, ast.Compare) and len(n.ops) == 1
           and isinstance(n.ops[0], (ast.Eq, ast.NotEq))
           and "self._working_batteries" in (u(n.left), u(n.comparators[0]))]
    if len(eqs) == 1:
        ms = prog.module(METH).source
        flipped = "!=" if isinstance(eqs[0].ops[0], ast.Eq) else "=="
        add("SendOnUpdate.update_working_batteries: change test reversed", METH,
            [(eqs[0], f"{seg(ms, eqs[0].left)} {flipped} {seg(ms, eqs[0].comparators[0])}")], "C18.EXCL")
    # the recomputation trigger is dropped / state of the eviction is not initialised
    trig = [n for n in body_walk(upd.node) if isinstance(n, ast.Expr) and isinstance(n.value, ast.Call)
            and isinstance(n.value.func, ast.Attribute) and n.value.func.attr == "set" and not n.value.args]
    if len(trig) == 1:
        add("SendOnUpdate.update_working_batteries: recomputation not triggered", METH, [(trig[0], "pass")], "C18.EXCL")
    init_fn = prog.func(f"{METH}:SendOnUpdate.__init__")
    used = {n.attr for n in body_walk(upd.node) if isinstance(n, ast.Attribute) and isinstance(n.value, ast.Name)
            and n.value.id == "self" and isinstance(n.ctx, ast.Load)}
    tg = [t for n in init_fn.node.body if isinstance(n, (ast.Assign, ast.AnnAssign))
          for t in (n.targets if isinstance(n, ast.Assign) else [n.target])
          if isinstance(t, ast.Attribute) and isinstance(t.value, ast.Name) and t.value.id == "self"
          and t.attr in used and t.attr not in ("_working_batteries", "_metric_calculator")]
    if tg:
        add("SendOnUpdate.__init__: state of the update not initialised", METH, [(tg[0], "_unused")], "C18.EXCL")
    # working set: unfiltered at construction / on update
    for mname in ("__init__", "update_working_batteries"):
        m = prog.func(f"{METH}:SendOnUpdate.{mname}")
        ws = [n for n in body_walk(m.node) if isinstance(n, (ast.Assign, ast.AnnAssign)) and n.value is not None
              and any(u(t) == "self._working_batteries" for t in (n.targets if isinstance(n, ast.Assign) else [n.target]))]
        if ws and len(m.params) >= 2:
            add(f"SendOnUpdate.{mname}: working set not intersected", METH, [(n.value, m.params[1]) for n in ws], "C18.EXCL")  # type: ignore[misc]
    # ---- C18.FRESH: the record comparison / the change test / the trigger, located by role in the code
    # the decision is actually read from (a control on a comparison that takes no part in it proves nothing)
    try:
        info = check_fresh(Run("C18", "quick", 0), prog)
        rec = record_class(prog) if info["compared"] else None
    except AnalysisError:
        info, rec = {"compared": False, "live": set()}, None
    live = info["live"]
    if f"{METH}:SendOnUpdate._metric_updated" in live:
        out.append(("first record of a component is not an update", METH,
                    "            cid not in self._cached_metrics or new_metrics != self._cached_metrics[cid]",
                    "            cid in self._cached_metrics and new_metrics != self._cached_metrics[cid]", "C18.FRESH"))
    if rec is not None:
        out.append(("records compared by their metric ids only", REC, "self._metrics == other._metrics",
                    "self._metrics.keys() == other._metrics.keys()", "C18.FRESH"))
    eq = prog.resolve_method(rec, "__eq__") if rec is not None else None
    get = prog.resolve_method(rec, ACCESSOR) if rec is not None else None
    if rec is not None and eq is not None and get is not None and len(eq.params) == 2:
        payload = {a for a in _reads_of_self(get) if prog.resolve_method(rec, a) is None}
        sides = {f"{p_}.{a}" for p_ in eq.params for a in payload}
        cmps = [n for n in body_walk(eq.node) if isinstance(n, ast.Compare) and len(n.ops) == 1 and isinstance(n.ops[0], ast.Eq)
                and {u(n.left), u(n.comparators[0])} <= sides and u(n.left) != u(n.comparators[0])]
        rs = eq.module.source
        add(f"{rec.name}.__eq__: metric values compared with a tolerance", eq.module.name,
            [(c, f"all(abs(v - {seg(rs, c.comparators[0])}.get(k, v)) < 1e-3 for k, v in {seg(rs, c.left)}.items())")
             for c in cmps], "C18.FRESH")
        rets = [n for n in body_walk(eq.node) if isinstance(n, ast.Return) and n.value is not None
                and any(x in cmps for x in ast.walk(n.value))]
        add(f"{rec.name}.__eq__: every record equals every other", eq.module.name, [(r.value, "True") for r in rets], "C18.FRESH")
    sou = prog.cls(f"{METH}:SendOnUpdate")
    ms = prog.module(METH).source
    waits = {u(c.func.value) for m in sou.methods.values()
             if find_calls(m.node, lambda c: method_call(c, "self._metric_calculator", "calculate"))
             for c in find_calls(m.node, lambda c: method_call(c, None, "wait") and not c.args) if isinstance(c.func, ast.Attribute)}
    for m in sou.methods.values():
        if m.qual not in live:
            continue
        trig = [n for n in body_walk(m.node) if isinstance(n, ast.Expr) and isinstance(n.value, ast.Call)
                and any(method_call(n.value, ev, "set") for ev in waits)]
        if trig:
            add(f"SendOnUpdate.{m.name}: recomputation not triggered by a changed record", METH, [(t, "pass") for t in trig], "C18.FRESH")
        # a received record is stored only when it is not older than the cached entry ("keep the most recent sample")
        sts = [n for n in body_walk(m.node) if isinstance(n, ast.Assign) and len(n.targets) == 1
               and isinstance(n.targets[0], ast.Subscript) and u(n.targets[0].value) == "self._cached_metrics"
               and isinstance(n.value, ast.Name)]
        if len(sts) == 1:
            k_, v_, pad = seg(ms, sts[0].targets[0].slice), sts[0].value.id, " " * sts[0].col_offset
            add(f"SendOnUpdate.{m.name}: a record older than the cached entry is not stored", METH,
                [(sts[0], f"if {k_} not in self._cached_metrics or {v_}.timestamp >= self._cached_metrics[{k_}].timestamp:\n"
                          f"{pad}    {seg(ms, sts[0])}")], "C18.FRESH")
        from_cache = {t.id for n in body_walk(m.node) if isinstance(n, ast.Assign) and "self._cached_metrics" in u(n.value)
                      for t in n.targets if isinstance(t, ast.Name)}
        neq = [n for n in body_walk(m.node) if isinstance(n, ast.Compare) and len(n.ops) == 1 and isinstance(n.ops[0], ast.NotEq)
               and any("self._cached_metrics" in u(x) or u(x) in from_cache for x in (n.left, n.comparators[0]))]
        if len(neq) == 1 and info["compared"]:
            add(f"SendOnUpdate.{m.name}: records compared by their timestamps", METH,
                [(neq[0], f"{seg(ms, neq[0].left)}.timestamp != {seg(ms, neq[0].comparators[0])}.timestamp")], "C18.FRESH")
    return out


def run_rules(run: Run, prog: Program) -> None:
    check_form(run, prog)
    check_excl(run, prog)
    check_fresh(run, prog)


def check(run: Run, prog: Program, tier: str) -> str:
    run.rule("C18.FORM", "SoC = Σ w·s / Σ w with w = capacity·(upper − lower), s = (soc − lower)/(upper − lower)·100; "
             "capacity = Σ w/100 (same weight)")
    run.rule("C18.RANGE", "per-battery clamp of s to [0, 100]; no division by a zero total; the float quotient handed to "
             "the result is bounded above by 100 on every path (snap on isclose(…, 100), `<= 100` test or min(…, 100))")
    run.rule("C18.SCALE", "numerator and denominator homogeneous of degree 1 in capacity")
    run.rule("C18.MONO", "s non-decreasing in soc on both branches")
    run.rule("C18.EXCL", "iteration over working batteries; absent/incomplete batteries skipped before any "
             "accumulator or sentinel update; no path of an iteration leaves the loop (break / return / a lookup error "
             "caught around the loop); None iff none qualified; NaN metrics dropped; working-set "
             "intersection at both sites; eviction of stopped batteries")
    run.rule("C18.FRESH", "a received record that differs from the cached one triggers a recomputation: the event the "
             "sending loop waits for is set on every path that stores a record, except where the record is known equal "
             "to the entry it replaces — by a record comparison that is exact on the values the calculators read; every "
             "received record (not None) is stored: no filter on timestamps / completeness / working set before the store")
    run_rules(run, prog)
    run.floor("C18.FORM", 6)
    run.floor("C18.EXCL", 14)
    run.floor("C18.FRESH", 3)
    from ..engine.controls import run_controls

    run_controls(run, CONTROLS + structural_controls(prog), run_rules, tier, base_prog=prog)
    run.assume("capacity >= 0 and lower <= upper (the property's quantifier): weights are non-negative, so "
               "a weighted mean of values clamped to [0,100] stays in [0,100]")
    run.assume("metric values are not NaN inside the calculators (the fetcher drops NaN, C18.EXCL): order "
               "comparisons are read as total (`not a >= b` is `a < b`)")
    run.undecided("the absolute-tolerance zero test is not scale-free for tiny totals (numeric)")
    return ("Every path of one loop iteration and of the code after the loop is executed symbolically; "
            "polynomial normal forms of what a qualifying iteration adds to the loop-carried variables "
            "identify numerator/denominator and their shared weight; the quotient by the weight is the "
            "per-battery value s, whose min/max nest gives the clamp interval and whose core gives the "
            "rescaling; homogeneity degree in capacity and sign of the soc coefficient give scale-invariance "
            "/ monotonicity; the branch facts of each path decide which batteries contribute; sibling rules "
            "on set-algebra terms decide the working-set handling.")
