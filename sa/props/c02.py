"""C02  No inverter or battery group is commanded outside its power bounds — cap/guard discipline.

Analysed: `_distribution_algorithm/_battery_distribution_algorithm.py` (BatteryDistributionAlgorithm,
AggregatedBatteryData) and `_component_managers/_battery_manager.py` (admission).  Every rule is decided
per symbolic path of a function region (top level / loop body; helpers spliced in, locals substituted,
conditions atomic and canonical — see `_c02_util.py`), with the bound tables / headroom table / ledgers
bound by dataflow, so renamed locals and private parameters, introduced or inlined locals, `+=` vs
`x = x + e`, flipped comparisons, De Morgan, early `continue` vs if/else, extracted helpers, keyword
vs positional arguments and reordered independent statements do not matter.

  C02.CAP    every change of a cell's power in the greedy top-up has the shape
             rest + min(.., cap - rest, ..) with cap = that cell's upper_bound (no new cells, no cap
             rewritten); cells are created in the loop over the availability records with
             upper_bound = min(Σ_i incl[inverter i], incl[battery]) and power = min_power of the loop
             element; min_power = max(excl[battery], min_i excl[inverter_i]) over the record's own ids.
  C02.INV    in the per-inverter split every store into the returned set-point table is zero, or the whole
             allocation under `len(set) == 1`, or min(incl[i], remaining) on a path that established
             excl[i] <= remaining, where `remaining` is reduced by exactly the stored value.
  C02.AVAIL  the headroom table handed to _distribute_power is written with max(0, upper - soc) /
             max(0, soc - lower) of the keyed battery; the ratio is k * pow(headroom[own battery], exponent);
             every non-zero cell creation and every top-up happens on a path that established that the
             set's own ratio / allocation is not zero; every result of _distribute_power is the bounded
             split or all zeros.
  C02.BOOK   the remainder handed to the top-up is request - ledger; the ledger starts at zero and per path
             of the reservation loops changes by what the cells receive; deficit covering runs while a
             deficit remains, moves reserve from the donor's entry to the deficit, takes at most what the
             donor holds and gives up only when nothing is left to take (the covering may live in a private
             helper the reserve table is handed to: followed by that argument, a `return` of the helper ends
             the covering of the deficit at hand and returns what is left of it).
  C02.RES    per allocating path of the reservation loop: one ledger (starting at zero) grows by
             max(share, min_power); share = (request - ledger) * q with the element's own ratio in q; the
             reserve stored is cap - min_power, or share - min_power under min_power <= share <= cap; a share
             below min_power records share - min_power as deficit; a skipped group reserves nothing
             (merged arms: a two-operand min/max whose order the path established is the operand it selects).
  C02.TAB    _inclusion_exclusion_bounds stores per component id that component's own bound of the table's
             kind in the requested direction (upper / negated lower; inclusion may be clipped further);
             consume asks for the consume tables, supply for the supply tables.
  C02.SIGN   consume: request handed on unchanged, result returned untouched; supply: request negated,
             every set-point of that result negated back (a loop over the table, its keys or its items —
             the value name standing for the entry —, or a one-clause dict comprehension rebuilding it).
  C02.SOCAGG a group's SoC and both SoC limits are the same aggregate of the batteries' values.
  C02.ADM    the admission check precedes the distribution on every path, its verdict is honoured, both see
             the same data; whatever it admits is outside the exclusion zone / inside the inclusion bounds
             (order domain); the enforced exclusion bound dominates Σ_g min_power_g.
  C02.PURE   the algorithm writes no instance state.
The numeric range of the proportional shares is not decided.
"""
from __future__ import annotations

import ast
import copy
from typing import Any

from ..engine.cfg import CFG
from ..engine.normalize import positional
from ..engine.report import AnalysisError, Run
from ..engine.resolver import FuncInfo, Program, body_walk
from ..engine.terms import Poly, TermEval
from ..engine.util import find_calls, method_call, nodes_with_call, u
from ._c02_util import (BDA, BM, MOD, MinMax, Region, Roles, Wrong, all_calls, at, at_least, callee, created_as,
                        ctor_args,
                        discover_roles, entry, entry_bind, fields_of, has, is_zero, negative_established, nonzero_established, ordered,
                        zero_test,
                        prep, q, regions, sc, settle_minmax, strictly, table_sources, test_paths, the_call, value_before, writes)


# --------------------------------------------------------------------------------------------- shapes
def _sub(e: ast.AST, base: str, index: str | None = None) -> bool:
    """`e` is `<base>[<index>]` (index None: any)."""
    return isinstance(e, ast.Subscript) and u(e.value) == base and (index is None or u(e.slice) == index)


def _over(e: ast.AST, fn: str, table: str, domain: str) -> bool:
    """`e` is `<fn>(<table>[v] for v in <domain>)` (generator or list, one clause, no filter)."""
    if not (isinstance(e, ast.Call) and u(e.func) == fn and len(e.args) == 1 and not e.keywords
            and isinstance(e.args[0], (ast.GeneratorExp, ast.ListComp))):
        return False
    g = e.args[0]
    if len(g.generators) != 1 or g.generators[0].ifs or g.generators[0].is_async:
        return False
    c = g.generators[0]
    return isinstance(c.target, ast.Name) and u(c.iter) == domain and _sub(g.elt, table, c.target.id)


def _two(e: ast.AST, fn: str) -> list[ast.AST] | None:
    if isinstance(e, ast.Call) and u(e.func) == fn and len(e.args) == 2 and not e.keywords \
            and not any(isinstance(a, ast.Starred) for a in e.args):
        return list(e.args)
    return None


def _either(args: list[ast.AST] | None, p1: Any, p2: Any) -> bool:
    return args is not None and ((p1(args[0]) and p2(args[1])) or (p1(args[1]) and p2(args[0])))


class _PowTerms:
    """Term evaluator that keeps `pow(a, b)` / `a ** b` as one registered atom."""

    def __init__(self) -> None:
        self.reg: dict[str, tuple[ast.AST, ast.AST]] = {}
        self.te = TermEval(atom_hook=self._hook)

    def _hook(self, e: ast.AST, _te: TermEval) -> Poly | None:
        a = b = None
        if isinstance(e, ast.Call) and u(e.func) in ("pow", "math.pow") and len(e.args) == 2 and not e.keywords:
            a, b = e.args
        elif isinstance(e, ast.BinOp) and isinstance(e.op, ast.Pow):
            a, b = e.left, e.right
        if a is None or b is None:
            return None
        name = f"pow({u(a)}, {u(b)})"
        self.reg[name] = (a, b)
        return Poly.atom(name)


def _ratio_table(args: dict[str, ast.AST]) -> str | None:
    """The table T such that the record's ratio is `k * pow(T[<battery id of the record>], exponent)`:
    every monomial of the ratio carries that one power, so no headroom means ratio zero."""
    if "ratio" not in args or "battery_id" not in args:
        return None
    pt = _PowTerms()
    poly = pt.te.ev(args["ratio"])
    if len(pt.reg) != 1 or poly.is_zero():
        return None
    (name, (base, expo)), = pt.reg.items()
    if not all(any(a == name and n == 1 for a, n in mono) for mono in poly.terms):
        return None
    if not (isinstance(base, ast.Subscript) and isinstance(base.value, ast.Name)
            and u(base.slice) == u(args["battery_id"]) and u(expo) == "self._distributor_exponent"):
        return None
    return base.value.id


def _records(prog: Program, arn: FuncInfo, regs: list[Region]) -> list[tuple[Region, Any, Any, dict[str, ast.AST]]]:
    fields = fields_of(prog, f"{MOD}:AvailabilityRatio")
    out = []
    for r, p, e in all_calls(regs, "AvailabilityRatio"):
        out.append((r, p, e, ctor_args(e.node, fields, arn.qual)))
    if not out:
        raise AnalysisError(f"{arn.qual}: no AvailabilityRatio record is built")
    return out


def _headroom_table(prog: Program):
    def find(arn: FuncInfo, regs: list[Region]) -> str | None:
        tabs = {_ratio_table(a) for _r, _p, _e, a in _records(prog, arn, regs)}
        # not one table: C02.AVAIL reports the shape of the ratio; the headroom role stays unbound
        return next(iter(tabs)) if len(tabs) == 1 else None
    return find


_ROLES: list[Any] = []          # [program, roles] of the program analysed last


def _roles(prog: Program) -> Roles:
    if not _ROLES or _ROLES[0] is not prog:
        try:
            _ROLES[:] = [prog, discover_roles(prog, _headroom_table(prog))]
        except Wrong as w:
            _ROLES[:] = [prog, w]
    if isinstance(_ROLES[1], Wrong):
        raise _ROLES[1]
    return _ROLES[1]


# --------------------------------------------------------------------------------------------- GRPX
def check_group_total(run: Run, prog: Program) -> None:
    """C02.GRPX ("the total assigned to the inverters of one battery group lies ... when non-zero, outside its exclusion
    zone"): the per-inverter split hands a group's power out greedily and may strand a rest that is smaller than the next
    inverter's exclusion bound.  The group's total is then its allocation minus that rest -- possibly inside the
    *battery's* exclusion zone (the allocation was at least the group's minimum power, the total need not be).  A split
    that can strand a rest must therefore look at it: on the way from the inverter loop to the point where the rest is
    booked as undistributed, some condition reads the rest (to re-split, to zero the group, to compare the total with
    the battery's exclusion bound).  Decided on the split function (bound by role); a split written in another shape is
    left undecided, not reported."""
    if not has(prog, "mip"):
        run.undecided("C02.GRPX: the per-inverter split is not a function of its own in this tree")
        return
    fn = prog.func(q(prog, "mip"))
    run.analysed(fn.qual)
    rets = [st.value.elts[1].id for st in body_walk(fn.node) if isinstance(st, ast.Return) and isinstance(st.value, ast.Tuple)
            and len(st.value.elts) == 2 and isinstance(st.value.elts[1], ast.Name)]
    if len(set(rets)) != 1:
        run.undecided("C02.GRPX: the split's undistributed total was not identified")
        return
    und = rets[0]
    found = 0
    for suite_owner in ast.walk(fn.node):
        for field in ("body", "orelse", "finalbody"):
            suite = getattr(suite_owner, field, None)
            if not isinstance(suite, list):
                continue
            for i, st in enumerate(suite):
                if not (isinstance(st, ast.AugAssign) and isinstance(st.op, ast.Add) and u(st.target) == und
                        and isinstance(st.value, ast.Name)):
                    continue
                rest = st.value.id
                loops = [j for j in range(i) if isinstance(suite[j], (ast.For, ast.While)) and any(
                    isinstance(x, ast.AugAssign) and isinstance(x.op, ast.Sub) and u(x.target) == rest for x in ast.walk(suite[j]))]
                if not loops:
                    continue
                found += 1
                between = suite[loops[-1] + 1:i + 1]
                looked = any(isinstance(x, ast.If) and any(isinstance(n, ast.Name) and n.id == rest for n in ast.walk(x.test))
                             for b in between for x in ast.walk(b)) or isinstance(suite_owner, ast.If) and False
                # reported under the role, not the method's name: a listed finding must survive a rename of the helper
                where = (fn.cls.qual if fn.cls is not None else fn.qual.split(":")[0]) + " [per-inverter split]"
                run.check(looked, "C02.GRPX", where, "the rest a group's split strands is booked without being looked at",
                          f"`{u(st)}` books whatever the greedy split over the group's inverters could not place, and nothing between "
                          f"the inverter loop and this statement reads `{rest}`: when the rest is smaller than the next inverter's "
                          "exclusion bound the group is commanded its allocation minus the rest, which can lie inside the battery's own "
                          "exclusion zone (battery (-1000, -250, 250, 1000) behind inverters (-200, -100, 100, 200) and (-1000, -100, 100, "
                          "1000): request 250 W -> {200, 0}, remainder 50: total 200 W inside (-250, 250); three inverters "
                          "(-300, -200, 200, 300) behind a battery with a 450 W exclusion bound: 450 W -> {300, 0, 0})",
                          node=st, file=fn.file, instance=f"{where}: a stranded rest is examined before it is booked")
    if not found:
        run.undecided("C02.GRPX: no 'rest booked after the inverter loop' statement in the split function")


# --------------------------------------------------------------------------------------------- CAP
def check_cap(run: Run, prog: Program) -> None:
    roles = _roles(prog)
    pf = fields_of(prog, f"{MOD}:_Power")
    if "power" not in pf or "upper_bound" not in pf:
        raise AnalysisError(f"{MOD}:_Power: fields power / upper_bound not found")
    # ---- greedy top-up: every change of a cell's power is capped by that cell's own upper bound and
    #      happens only after the cell's allocation was found to be non-zero
    #      (when the top-up is not a function of its own the allocation function plays its role: there the
    #      hand-out of the reserve — a cell raised by the item value of the table the loop runs over — is
    #      the matter of C02.BOOK / C02.RES, every other change of a cell's power is a top-up)
    own = has(prog, "greedy")
    gr = prep(prog, q(prog, "greedy"))
    run.analysed(gr.qual)
    n = 0
    for r in regions(gr.node):
        for p, _st in r.paths:
            touched: set[str] = set()
            for e in p.effects:
                if own and e.kind == "call" and callee(e.node) == "_Power":
                    a = ctor_args(e.node, pf, gr.qual)  # type: ignore[arg-type]
                    if not ("power" in a and is_zero(a["power"])):
                        n += 1
                        run.violation("C02.CAP", gr.qual, f"{u(e.node)}",
                                      "the top-up creates a new allocation cell with a non-zero power: the "
                                      "amount is not capped by `upper_bound - power` of an existing cell",
                                      node=at(e.lineno), file=gr.file)
                if e.kind != "write":
                    continue
                tgt, val = e.node.elts  # type: ignore[attr-defined]
                if not isinstance(tgt, ast.Attribute) or tgt.attr not in ("power", "upper_bound"):
                    continue
                cell = u(tgt.value)
                text = f"{u(tgt)} = {u(val)}"
                if tgt.attr == "upper_bound":
                    run.violation("C02.CAP", gr.qual, text, "the top-up rewrites a group's cap", node=at(e.lineno),
                                  file=gr.file)
                    continue
                if cell in touched:
                    raise AnalysisError(f"{gr.qual}: line {e.lineno}: a cell's power is written twice on one path")
                touched.add(cell)
                mm = MinMax()
                new = mm.ev(val)
                if new == Poly.atom(f"{cell}.power"):
                    continue
                if not own and _hands_out(r, new - Poly.atom(f"{cell}.power")):
                    continue
                n += 1
                run.check(mm.capped(new, Poly.atom(f"{cell}.upper_bound")), "C02.CAP", gr.qual, text,
                          "an allocation is topped up by an amount that is not capped by "
                          "`upper_bound - power` of that same cell: the group can exceed its inclusion "
                          "bound", node=at(e.lineno), file=gr.file,
                          instance=f"{gr.qual}: top-up increment is min(upper_bound - power, ...) of the same cell")
                run.check(nonzero_established(p, f"{cell}.power"), "C02.AVAIL", gr.qual, text,
                          "the greedy top-up can add power to a set whose allocation is zero (no SoC "
                          "headroom / no capacity): the `power.power ≈ 0 → skip` guard is missing",
                          node=at(e.lineno), file=gr.file, path=p.describe(),
                          instance=f"{gr.qual}: top-up skips zero-allocation sets")
    if n < 1:
        raise AnalysisError(f"{gr.qual}: no top-up increment found")

    # ---- cell creation in _distribute_power
    dp = prep(prog, q(prog, "dp"))
    run.analysed(dp.qual)
    incl = roles.dp["incl"]
    nonzero = _nonzero_creations(prog, dp, pf)
    for r, _p, e, a, elem in nonzero:
        ub, pw = a["upper_bound"], a["power"]
        ok = elem is not None and _either(
            _two(ub, "min"), lambda x: _sub(x, incl, f"{elem}.battery_id"),
            lambda x: _over(x, "sum", incl, f"{elem}.inverter_ids"))
        run.check(ok, "C02.CAP", dp.qual, f"upper_bound = {u(ub)}",
                  "a group's cap is not min(Σ inverter inclusion bounds, battery inclusion bound)",
                  node=at(e.lineno), file=dp.file,
                  instance=f"{dp.qual}: cell cap = min(Σ inverter inclusion, battery inclusion) of the loop element")
        ok = elem is not None and u(pw) == f"{elem}.min_power"
        run.check(ok, "C02.CAP", dp.qual, f"power = {u(pw)}",
                  "a group's initial allocation is not its minimum power", node=at(e.lineno), file=dp.file,
                  instance=f"{dp.qual}: cell starts at the loop element's min_power")
    # ---- min_power definition
    ar = prep(prog, q(prog, "ar"))
    run.analysed(ar.qual)
    excl = roles.ar["excl"]
    for _r, _p, e, a in _records(prog, ar, regions(ar.node)):
        ok = _min_power_shape(a, excl)
        run.check(ok, "C02.CAP", ar.qual, "min_power = max(excl[battery], min_i excl[inverter_i])",
                  "a group's minimum power is not max(battery exclusion bound, smallest inverter "
                  "exclusion bound): allocations can fall inside an exclusion zone", node=at(e.lineno),
                  file=ar.file, instance=f"{ar.qual}: min_power = max(excl[battery], min_i excl[inverter_i])")


def _hands_out(r: Region, change: Poly) -> bool:
    """The change of a cell's power is the item value of the table the region's loop iterates with `.items()`."""
    it = getattr(r.loop, "iter", None)
    return isinstance(it, ast.Call) and isinstance(it.func, ast.Attribute) and it.func.attr == "items" and any(
        change == Poly.atom(val) for _k, val in r.cell_pairs())


def _top_ups(prog: Program, dp: FuncInfo) -> list[tuple[Region, Any, str, str | None]]:
    """Top-up sites inside the allocation function (top-up inlined): (region, path, cell text, name of the
    remainder the path reduces by exactly what the cell receives)."""
    out = []
    te = TermEval()
    for r in regions(dp.node):
        if r.kind == "top":
            continue
        for p, _st in r.paths:
            for _e, tgt, val in writes(p, lambda t, _v: isinstance(t, ast.Attribute) and t.attr == "power"):
                d = te.ev(val) - Poly.atom(u(tgt))
                if d.is_zero() or _hands_out(r, d):
                    continue
                rem = [nm for nm in p.env if not nm.startswith("<") and _delta(te, p, nm) == -d]
                out.append((r, p, u(tgt.value), rem[0] if len(rem) == 1 else None))  # type: ignore[attr-defined]
    return out


def _min_power_shape(a: dict[str, ast.AST], excl: str) -> bool:
    """The record's min_power is max(excl[its battery id], min(excl[v] for v in its inverter ids))."""
    mp = a.get("min_power")
    return mp is not None and "battery_id" in a and "inverter_ids" in a and _either(
        _two(mp, "max"), lambda x: _sub(x, excl, u(a["battery_id"])),
        lambda x: _over(x, "min", excl, u(a["inverter_ids"])))


def _nonzero_creations(prog: Program, dp: FuncInfo, pf: list[str]):
    """(_Power creations that are not the all-zero cell) with the element of the allocation loop they
    belong to (None when they are outside a loop over the availability records)."""
    out = []
    for r, p, e in all_calls(regions(dp.node), "_Power"):
        a = ctor_args(e.node, pf, dp.qual)
        if "power" not in a or "upper_bound" not in a:
            raise AnalysisError(f"{dp.qual}: line {e.lineno}: _Power(...) without cap / power")
        if is_zero(a["power"]) and is_zero(a["upper_bound"]):
            continue
        elem = None
        if r.kind == "loop" and r.element() is not None and r.headers and all(
                isinstance(h, ast.Subscript) and isinstance(h.slice, ast.Constant) and h.slice.value == 0
                and callee(h.value) == sc(prog, "ar") for h in r.headers):
            elem = r.element()
        out.append((r, p, e, a, elem))
    if not out:
        raise AnalysisError(f"{dp.qual}: no non-zero _Power creation found")
    return out


# --------------------------------------------------------------------------------------------- INV
def check_inv(run: Run, prog: Program) -> None:
    roles = _roles(prog)
    fn = prep(prog, q(prog, "mip"))
    run.analysed(fn.qual)
    incl, excl = roles.mip["incl"], roles.mip["excl"]
    outs = set()
    if not has(prog, "mip"):
        # the split is part of the allocation function: its table is what that function returns as set-points
        t = _split_table(prog, fn)
        if t is None:
            raise AnalysisError(f"{fn.qual}: no split function and no set-point table filled here and returned")
        outs.add(t)
    for st in body_walk(fn.node) if has(prog, "mip") else ():
        if isinstance(st, ast.Return):
            if not (isinstance(st.value, ast.Tuple) and st.value.elts and isinstance(st.value.elts[0], ast.Name)):
                raise AnalysisError(f"{fn.qual}: result is not (set-point table, undistributed): {u(st)}")
            outs.add(st.value.elts[0].id)
    if len(outs) != 1:
        raise AnalysisError(f"{fn.qual}: set-point table not identified from the returns ({sorted(outs)})")
    out = next(iter(outs))
    sites: set[tuple[int, str]] = set()
    regs = regions(fn.node)
    before = len(run.violations)
    # tables merged wholesale into the result (`result.update(part)`) are part of the result
    tables = {out}
    grew = True
    while grew:
        grew = False
        for r in regs:
            for p, _st in r.paths:
                for e in p.calls(lambda c: isinstance(c.func, ast.Attribute) and c.func.attr == "update"
                                 and u(c.func.value) in tables and len(c.args) == 1 and not c.keywords):
                    a = e.node.args[0]  # type: ignore[attr-defined]
                    if isinstance(a, ast.Name) and a.id not in tables:
                        tables.add(a.id)
                        grew = True

    def is_out(t: ast.AST, _v: ast.AST | None = None) -> bool:
        return isinstance(t, ast.Subscript) and u(t.value) in tables

    # every pass through a loop that hands out set-points stores one (directly or in a nested loop)
    storing = {id(r.loop) for r in regs if r.kind == "loop" and any(
        writes(p, is_out) for p, _st in r.paths)}
    grew = True
    while grew:
        grew = False
        for r in regs:
            if r.kind == "loop" and id(r.loop) not in storing and any(
                    e.kind == "loop" and id(e.orig) in storing for p, _st in r.paths for e in p.effects):
                storing.add(id(r.loop))
                grew = True
    for r in regs:
        if r.kind != "loop" or id(r.loop) not in storing:
            continue
        for p, st in r.paths:
            if st not in ("next", "continue"):
                continue
            stored = bool(writes(p, is_out)) or any(
                e.kind == "loop" and id(e.orig) in storing for e in p.effects)
            run.check(stored, "C02.INV", fn.qual, f"loop at line {getattr(r.loop, 'lineno', '?')}: pass without a store",
                      f"a pass through this loop stores no set-point into `{out}`: the inverter is left without "
                      "a (zero or bounded) set-point while the group's power is still accounted for",
                      node=at(p.conds[-1][3] if p.conds else getattr(r.loop, "lineno", 0)), file=fn.file,
                      path=p.describe(), instance=f"{fn.qual}: every pass through a set-point loop stores a set-point")
    for r in regs:
        for p, _st in r.paths:
            for e, tgt, val in writes(p, is_out):
                idx = u(tgt.slice)  # type: ignore[attr-defined]
                text = f"{u(tgt)} = {u(val)}"
                if is_zero(val):
                    sites.add((e.lineno, "zero"))
                    run.ok("C02.INV", f"{fn.qual}: a store that is not guarded stores zero")
                    continue
                if isinstance(val, ast.Attribute) and val.attr == "power":
                    # single inverter: the whole (already capped) group allocation
                    sites.add((e.lineno, "whole"))
                    ok = any(c == u(val.value) and p.outcome(("==", frozenset({f"len({k})", "1"}))) is True
                             for k, c in r.cell_pairs())
                    run.check(ok, "C02.INV", fn.qual, text,
                              "a whole group allocation is assigned to one inverter outside the "
                              "single-inverter case", node=at(e.lineno), file=fn.file, path=p.describe(),
                              instance=f"{fn.qual}: whole allocation only to the inverter of a one-inverter set")
                    continue
                sites.add((e.lineno, "split"))
                args = _two(val, "min")
                rem = None
                if args is not None:
                    for a, b in ((args[0], args[1]), (args[1], args[0])):
                        if _sub(a, incl, idx) and isinstance(b, ast.Name):
                            rem = b.id
                run.check(rem is not None, "C02.INV", fn.qual, text,
                          "a non-zero inverter set-point is not min(inclusion bound of that inverter, "
                          "remaining group power)", node=at(e.lineno), file=fn.file,
                          instance=f"{fn.qual}: split set-point = min(incl[i], remaining)")
                if rem is None:
                    continue
                # the remaining group power is what is left after this store
                left = p.env.get(rem)
                te = TermEval()
                ok = left is not None and te.ev(left) == Poly.atom(rem) - te.ev(val)
                run.check(ok, "C02.INV", fn.qual, f"{rem} after {text}",
                          f"`{rem}` is not reduced by exactly the set-point just stored, so it is not the "
                          "remaining group power the next inverter's guard and cap refer to",
                          node=at(e.lineno), file=fn.file, path=p.describe(),
                          instance=f"{fn.qual}: remaining power reduced by the stored set-point")
                run.check(at_least(p, f"{excl}[{idx}]", rem), "C02.INV", fn.qual, f"guard of {text}",
                          "a non-zero inverter set-point is stored without the guard `excl_bounds[i] <= "
                          "remaining`: an inverter can be commanded inside its exclusion zone",
                          node=at(e.lineno), file=fn.file, path=p.describe(),
                          instance=f"{fn.qual}: split set-point guarded by excl[i] <= remaining")
    if (len(sites) < 3 or not any(k == "split" for _l, k in sites)) and len(run.violations) == before:
        raise AnalysisError(f"{fn.qual}: expected >=3 set-point stores incl. the per-inverter split, found "
                            f"{sorted(sites)}")


# --------------------------------------------------------------------------------------------- AVAIL
def check_avail(run: Run, prog: Program) -> None:
    roles = _roles(prog)
    for fname, want in (("consume", ("soc_upper_bound", "soc")), ("supply", ("soc", "soc_lower_bound"))):
        fn = entry(prog, fname)
        run.analysed(fn.qual)
        hr = roles.headroom.get(fname)
        if hr is None:
            run.violation("C02.AVAIL", fn.qual, "headroom table handed to _distribute_power",
                          "the table that carries the SoC headroom into the availability ratio cannot be "
                          "identified (the ratio is not a power of one headroom table)", node=fn.node, file=fn.file)
            continue
        sources = table_sources(prog, fn, hr[1], hr[0])
        if sources is None:
            raise AnalysisError(f"{fn.qual}: cannot tell how the SoC headroom table `{u(hr[0])}` is built")

        def clamped(key: ast.AST, val: ast.AST) -> bool:
            if not (isinstance(key, ast.Attribute) and key.attr == "component_id"):
                return False
            bat = u(key.value)
            mm = MinMax()
            got = mm.clamp(mm.ev(val))
            return got is not None and got[0] == "max" and len(got[1]) == 2 and any(
                a.is_zero() for a in got[1]) and any(
                a == Poly.atom(f"{bat}.{want[0]}") - Poly.atom(f"{bat}.{want[1]}") for a in got[1])

        ok = bool(sources)
        for kind, src in sources:
            if kind == "comp":
                ok = ok and clamped(src.key, src.value)
                continue
            stores = []
            for r in regions(fn.node):
                for p, _st in r.paths:
                    stores.extend(writes(p, lambda t, _v: _sub(t, src)))
            ok = ok and bool(stores) and all(clamped(tgt.slice, val) for _e, tgt, val in stores)  # type: ignore[attr-defined]
        run.check(ok, "C02.AVAIL", fn.qual, f"headroom[battery] = max(0.0, battery.{want[0]} - battery.{want[1]})",
                  "the SoC headroom in the requested direction is not clamped at zero / uses the "
                  "wrong limit: a battery at or beyond its SoC limit keeps a positive share",
                  node=fn.node, file=fn.file,
                  instance=f"{fn.qual}: headroom[battery] = max(0, {want[0]} - {want[1]})")
        # that this table is what _distribute_power receives as headroom is how it was identified
        run.ok("C02.AVAIL", f"{fn.qual}: the clamped headroom table is handed to _distribute_power")
    # ratio is built from that availability
    ar = prep(prog, q(prog, "ar"))
    for _r, _p, e, a in _records(prog, ar, regions(ar.node)):
        run.check(_ratio_table(a) is not None and _ratio_table(a) == roles.ar.get("avail"), "C02.AVAIL", ar.qual,
                  "ratio = capacity_ratio * available_soc ** exponent",
                  "a set's availability ratio is not proportional to a power of its own SoC headroom "
                  "(zero headroom must give ratio zero)", node=at(e.lineno), file=ar.file,
                  instance=f"{ar.qual}: ratio = k * pow(headroom[own battery], exponent)")
    # every non-zero cell creation in the main loop depends on the element's own ratio
    dp = prep(prog, q(prog, "dp"))
    pf = fields_of(prog, f"{MOD}:_Power")
    for _r, p, e, a, elem in _nonzero_creations(prog, dp, pf):
        ok = elem is not None and nonzero_established(p, f"{elem}.ratio")
        run.check(ok, "C02.AVAIL", dp.qual, u(e.node),
                  f"an inverter set receives a non-zero allocation ({u(a['power'])}) on a path that "
                  f"never tests that set's own availability `{elem}.ratio`: the only zero-test in the "
                  "loop looks at the remaining *total* ratio, so a battery with no SoC headroom "
                  "(ratio 0) that is not last in the order is still charged/discharged",
                  node=at(e.lineno), file=dp.file, path=p.describe(),
                  instance=f"{dp.qual}: non-zero allocation depends on the loop element's own ratio")


# --------------------------------------------------------------------------------------------- TAB / SIGN
def check_tab(run: Run, prog: Program) -> None:
    """The two bound tables hold, per component id, that component's own bound of the table's kind in the
    requested direction: consume -> the upper bound, supply -> the negated lower bound (so that the
    allocation routines work on magnitudes); an inclusion entry may additionally be clipped (min for upper,
    max for lower bounds).  The entry points ask for the direction they serve."""
    roles = _roles(prog)
    fn = prep(prog, q(prog, "ieb"))
    run.analysed(fn.qual)
    if roles.flag is None:
        raise AnalysisError(f"{fn.qual}: the direction parameter (a boolean constant at the call sites) was not found")
    word = {"incl": "inclusion", "excl": "exclusion"}
    n = 0
    for r in regions(fn.node):
        for p, _st in r.paths:
            for e, tgt, val in writes(p, lambda t, _v: isinstance(t, ast.Subscript) and u(t.value) in roles.tables):
                n += 1
                kind = roles.tables[u(tgt.value)]  # type: ignore[attr-defined]
                text = f"{u(tgt)} = {u(val)}"
                supply = p.outcome(("truthy", roles.flag))
                key = tgt.slice  # type: ignore[attr-defined]
                ok = supply is not None and isinstance(key, ast.Attribute) and key.attr == "component_id"
                if ok:
                    comp = u(key.value)  # type: ignore[attr-defined]
                    side = "lower" if supply else "upper"
                    own = [Poly.atom(f"{comp}.power_bounds.{word[kind]}_{side}"),
                           Poly.atom(f"{comp}.active_power_{word[kind]}_{side}_bound")]
                    mm = MinMax()
                    v = mm.ev(val)
                    w = -v if supply else v
                    ok = w in own
                    if not ok and kind == "incl":
                        got = mm.clamp(w)
                        ok = got is not None and got[0] == ("max" if supply else "min") and any(a in own for a in got[1])
                run.check(ok, "C02.TAB", fn.qual, text,
                          f"the {word[kind]} table entry of a component is not that component's own {word[kind]} "
                          "bound of the requested direction (upper bound for consume, negated lower bound for "
                          "supply; an inclusion bound may only be clipped further): set-points are bounded by the "
                          "wrong limit", node=at(e.lineno), file=fn.file, path=p.describe(),
                          instance=f"{fn.qual}: {word[kind]} table, {'supply' if supply else 'consume'} direction: "
                                   "own bound of the keyed component")
    if n < 4:
        raise AnalysisError(f"{fn.qual}: only {n} bound-table stores found")
    for fname, want in (("consume", False), ("supply", True)):
        efn = prog.func(q(prog, fname))
        a = roles.entry_flag.get(fname)
        ok = isinstance(a, ast.Constant) and a.value is want
        run.check(ok, "C02.TAB", efn.qual, f"_inclusion_exclusion_bounds(..., {roles.flag}={u(a) if a is not None else '?'})",
                  f"the {'supply' if want else 'consume'} path asks for the bound tables of the other direction: "
                  "set-points are bounded by the limits of the opposite sign", node=efn.node, file=efn.file,
                  instance=f"{efn.qual}: asks for the {'supply' if want else 'consume'} tables")


def _mapping_view(it: ast.AST) -> tuple[ast.AST, str] | None:
    """(mapping expression, 'keys' | 'items') when iterating `it` visits every key of a mapping exactly once: the
    mapping itself, `.keys()`, `.items()`, possibly through a `list` / `tuple` / `sorted` / `reversed` / `iter` copy."""
    while isinstance(it, ast.Call) and isinstance(it.func, ast.Name) and it.func.id in ("list", "tuple", "sorted", "reversed", "iter") \
            and len(it.args) == 1 and not it.keywords and not isinstance(it.args[0], ast.Starred):
        it = it.args[0]
    if isinstance(it, ast.Call):
        if isinstance(it.func, ast.Attribute) and it.func.attr in ("keys", "items") and not it.args and not it.keywords:
            return it.func.value, it.func.attr
        return None
    return (it, "keys") if isinstance(it, (ast.Name, ast.Attribute, ast.Subscript)) else None


def _negated_copy(v: ast.AST, mapping: str, te: TermEval) -> bool:
    """`v` is `{k: -M[k] for k in M}` / `{k: -x for k, x in M.items()}` (one clause, no filter) for the mapping text M."""
    if not (isinstance(v, ast.DictComp) and len(v.generators) == 1 and not v.generators[0].ifs and not v.generators[0].is_async):
        return False
    g = v.generators[0]
    view = _mapping_view(g.iter)
    if view is None or u(view[0]) != mapping:
        return False
    t = g.target
    if view[1] == "keys" and isinstance(t, ast.Name):
        key, alias = t.id, None
    elif view[1] == "items" and isinstance(t, ast.Tuple) and len(t.elts) == 2 and all(isinstance(x, ast.Name) for x in t.elts):
        key, alias = t.elts[0].id, t.elts[1].id  # type: ignore[attr-defined]
    else:
        return False
    if not (isinstance(v.key, ast.Name) and v.key.id == key):
        return False
    entry_of_key = ast.Subscript(value=view[0], slice=ast.Name(id=key, ctx=ast.Load()), ctx=ast.Load())
    val = _NameTo(alias, entry_of_key).visit(copy.deepcopy(v.value)) if alias is not None else v.value
    return te.ev(val) == -Poly.atom(u(entry_of_key))


class _NameTo(ast.NodeTransformer):
    """Replace the loads of one name by an expression."""

    def __init__(self, name: str, value: ast.AST) -> None:
        self.name, self.value = name, value

    def visit_Name(self, node: ast.Name) -> ast.AST:  # noqa: N802
        if node.id == self.name and isinstance(node.ctx, ast.Load):
            return copy.deepcopy(self.value)
        return node


def check_sign(run: Run, prog: Program) -> None:
    """Sign mirror as far as the bounds need it: the consume path hands the request on unchanged and returns
    the result untouched; the supply path hands on the negated request (the tables hold magnitudes) and
    negates every set-point of the result before returning that result."""
    roles = _roles(prog)
    ieb = _own_params(prog.func(q(prog, "ieb")))
    dpp = _own_params(prog.func(q(prog, "dp")))
    req_param: str | None = None
    te = TermEval()
    for fname, sign in (("consume", 1), ("supply", -1)):
        fn = entry(prog, fname)
        run.analysed(fn.qual)
        regs = regions(fn.node)
        passed_on = set()
        for _r, _p, e in all_calls(regs, sc(prog, "ieb")):
            passed_on |= {v.id for v in positional(e.node, ieb).values() if isinstance(v, ast.Name)}  # type: ignore[arg-type]
        own = [x for x in _own_params(fn) if x not in passed_on and x not in entry_bind(prog, fname)]
        if len(own) != 1:
            raise AnalysisError(f"{fn.qual}: the request parameter was not identified ({own})")
        args = roles.entry_args[fname]
        if req_param is None:
            hits = [k for k in dpp if k in args and te.ev(args[k]) in (Poly.atom(own[0]), -Poly.atom(own[0]))]
            if len(hits) != 1:
                raise AnalysisError(f"{fn.qual}: the request is not handed to _distribute_power unchanged")
            req_param = hits[0]
        a = args.get(req_param)
        want = Poly.atom(own[0]) if sign == 1 else -Poly.atom(own[0])
        run.check(a is not None and te.ev(a) == want, "C02.SIGN", fn.qual, f"_distribute_power(..., {u(a)}, ...)",
                  "the request is not handed to the allocation " + ("unchanged" if sign == 1 else "negated (the "
                  "supply tables hold magnitudes)") + ": the allocation works against bounds of the wrong sign "
                  "or on a different amount", node=fn.node, file=fn.file,
                  instance=f"{fn.qual}: request handed on {'unchanged' if sign == 1 else 'negated'}")
        calls = all_calls(regs, sc(prog, "dp"))
        calls = [c for c in calls if c[0].kind == "top"] or calls
        res_text = u(calls[0][2].node)
        touched = [(r, p, t, v) for r in regs for p, _st in r.paths
                   for _e, t, v in writes(p, lambda t, _v: ".distribution" in u(t))]
        returned = all(p.exit != "return" or (p.ret is not None and u(p.ret) == res_text) for p, _st in regs[0].paths)
        if sign == 1:
            run.check(not touched and returned, "C02.SIGN", fn.qual, "result of _distribute_power returned untouched",
                      "the consume path changes the set-points after they were bounded, or returns something else",
                      node=fn.node, file=fn.file, instance=f"{fn.qual}: bounded result returned untouched")
            continue
        ok = returned
        # the loop over the result's set-points, in any spelling that visits every key once: the mapping itself,
        # `.keys()`, `.items()` (the value name then stands for the entry of the key), a list / sorted copy of them
        loops = []
        for r in regs:
            view = _mapping_view(r.loop.iter) if r.kind == "loop" and isinstance(r.loop, ast.For) else None  # type: ignore[union-attr]
            if view is None or not r.headers or not all(
                    (hv := _mapping_view(h)) is not None and hv[1] == view[1] and u(hv[0]) == f"{res_text}.distribution"
                    for h in r.headers):
                continue
            t = r.target
            if view[1] == "keys" and isinstance(t, ast.Name):
                loops.append((r, view[0], t.id, None))
            elif view[1] == "items" and isinstance(t, ast.Tuple) and len(t.elts) == 2 and all(isinstance(x, ast.Name) for x in t.elts):
                loops.append((r, view[0], t.elts[0].id, t.elts[1].id))  # type: ignore[attr-defined]
        # ... or the table is rebuilt in one go: `res.distribution = {k: -v for k, v in res.distribution.items()}`
        rebuilt = [(r, p, t, v) for r, p, t, v in touched if r.kind == "top" and u(t) == f"{res_text}.distribution"
                   and _negated_copy(v, u(t), te)]
        if rebuilt and not loops:
            ok = ok and len(touched) == len(rebuilt) and all(
                p.exit != "return" or sum(1 for _r, q2, _t, _v in rebuilt if q2 is p) == 1 for p, _st in regs[0].paths)
            run.check(ok, "C02.SIGN", fn.qual, "every set-point of the result negated, that result returned",
                      "the supply path does not negate every set-point of the (magnitude) result exactly once before "
                      "returning it: inverters are commanded with the sign of the opposite direction, outside the "
                      "bounds that were applied", node=fn.node, file=fn.file,
                      instance=f"{fn.qual}: every set-point negated back, that result returned")
            continue
        ok = ok and len(loops) == 1
        for r, base, key, alias in loops:
            tgt_text = f"{u(base)}[{key}]"
            entry_of_key = ast.Subscript(value=base, slice=ast.Name(id=key, ctx=ast.Load()), ctx=ast.Load())
            for p, st in r.paths:
                ws = writes(p, lambda t, _v: u(t) == tgt_text)
                ok = ok and st in ("next", "continue") and len(ws) == 1
                if ok:
                    val = _NameTo(alias, entry_of_key).visit(copy.deepcopy(ws[0][2])) if alias is not None else ws[0][2]
                    ok = te.ev(val) == -Poly.atom(tgt_text)
        loops = [r for r, _b, _k, _a in loops]
        ok = ok and all(any(r is lr for lr in loops) for r, _p, _t, _v in touched)
        run.check(ok, "C02.SIGN", fn.qual, "every set-point of the result negated, that result returned",
                  "the supply path does not negate every set-point of the (magnitude) result exactly once before "
                  "returning it: inverters are commanded with the sign of the opposite direction, outside the "
                  "bounds that were applied", node=fn.node, file=fn.file,
                  instance=f"{fn.qual}: every set-point negated back, that result returned")


def _split_table(prog: Program, dp: FuncInfo) -> str | None:
    """The fresh table the allocation function fills by stores and returns as the set-points of its result
    (only when the per-inverter split is not a function of its own)."""
    rf = fields_of(prog, f"{MOD}:DistributionResult")
    found = set()
    for p, _st in regions(dp.node)[0].paths:
        if p.exit == "return" and isinstance(p.ret, ast.Call) and callee(p.ret) == "DistributionResult":
            d = ctor_args(p.ret, rf, dp.qual).get(rf[0])
            if isinstance(d, ast.Name):
                made = created_as(p, d.id)
                if isinstance(made, ast.Dict) and not made.keys:
                    found.add(d.id)
    return next(iter(found)) if len(found) == 1 else None


def check_exits(run: Run, prog: Program) -> None:
    """Every result of _distribute_power carries either the per-inverter split of the cells or all zeros
    (nothing available -> nothing commanded)."""
    dp = prep(prog, q(prog, "dp"))
    rf = fields_of(prog, f"{MOD}:DistributionResult")

    def zero_table(e: ast.AST | None) -> bool:
        if isinstance(e, ast.Dict):
            return all(is_zero(v) for v in e.values)
        if isinstance(e, ast.DictComp):
            return is_zero(e.value)
        return False

    n = 0
    for p, _st in regions(dp.node)[0].paths:
        if p.exit != "return":
            continue
        n += 1
        ok, split = False, False
        if isinstance(p.ret, ast.Call) and callee(p.ret) == "DistributionResult":
            d = ctor_args(p.ret, rf, dp.qual).get(rf[0])
            if isinstance(d, ast.Subscript) and callee(d.value) == sc(prog, "mip"):
                ok = split = True
            elif isinstance(d, ast.Name):
                made = created_as(p, d.id)
                if isinstance(made, ast.Dict) and not made.keys:
                    # an empty table filled by stores: the per-inverter split done in place (C02.INV decides it)
                    ok = split = not has(prog, "mip") and _split_table(prog, dp) == d.id
                else:
                    ok = zero_table(made)
            else:
                ok = zero_table(d)
        run.check(ok, "C02.AVAIL", dp.qual, f"return {u(p.ret)[:120]}",
                  "a result of _distribute_power carries set-points that are neither the bounded per-inverter "
                  "split nor all zero (e.g. the nothing-available exit commands a non-zero power)",
                  node=at(p.lineno), file=dp.file, path=p.describe(),
                  instance=f"{dp.qual}: result is the " + ("bounded split" if split else "all-zero table"))
    if n < 1:
        raise AnalysisError(f"{dp.qual}: no returning path")


# --------------------------------------------------------------------------------------------- BOOK
def _delta(te: TermEval, p: Any, name: str) -> Poly:
    """Change of the local `name` along path `p` of a loop body (zero when it is not rebound)."""
    return te.ev(p.env[name]) - Poly.atom(name) if name in p.env else Poly()


def check_book(run: Run, prog: Program, facts: list[dict[str, Any]] | None = None) -> None:
    """Bookkeeping of the reservation in _distribute_power (what the remainder handed to the top-up is
    computed from).  A wrong book makes the remainder negative; the top-up then takes power back from
    the first group, which ends below its minimum power, i.e. inside its exclusion zone.

      (a) per path of every loop body: the change of the distributed-power ledger equals the power the
          allocation cells received on that path (a group that is skipped books nothing);
      (b) per path of the deficit covering: what the deficit being covered gains is exactly what the
          entries of the reserve table lose (the entry reduced is the donor's)."""
    import re

    dp = prep(prog, q(prog, "dp"))
    run.analysed(dp.qual)
    pf = fields_of(prog, f"{MOD}:_Power")
    regs = regions(dp.node)
    te = TermEval()
    # the ledger: the remainder handed to the top-up is `<request parameter> - <ledger after the loops>`
    ledgers: set[str] = set()
    request = None
    seen_args: list[str] = []
    remainders: list[ast.AST] = []
    complements: list[str] = []      # top-up inlined: the local(s) the top-up reduces by what the cells receive
    topup_loops: set[int] = set()
    if has(prog, "greedy"):
        grp = _own_params(prog.func(q(prog, "greedy")))
        for _r, _p, e in the_call(regs, sc(prog, "greedy"), dp, "C02.BOOK"):
            seen_args.append(u(e.node))
            remainders.extend(positional(e.node, grp).values())  # type: ignore[arg-type]
    else:
        sites = _top_ups(prog, dp)
        complements = sorted({rem for _r, _p, _c, rem in sites if rem is not None})
        topup_loops = {id(r.loop) for r, _p, _c, _rem in sites}
        if not sites:
            raise AnalysisError(f"{dp.qual}: no top-up function and no top-up loop found")
        if len(complements) != 1 or any(rem is None for _r, _p, _c, rem in sites):
            bad = next((x for x in sites if x[3] is None), sites[0])
            run.violation("C02.BOOK", dp.qual, f"change of {bad[2]}.power in the loop at line "
                          f"{getattr(bad[0].loop, 'lineno', '?')}",
                          "a cell's power is changed by an amount that is neither the reserve entry of its set nor "
                          "taken from one remainder that is reduced by exactly that amount: what is handed out is "
                          "not accounted for", node=at(getattr(bad[0].loop, "lineno", 0)), file=dp.file,
                          path=bad[1].describe())
            return
        vals = value_before(dp.node, complements)
        if vals is None:
            raise AnalysisError(f"{dp.qual}: value of `{complements[0]}` before the top-up not found")
        remainders.extend(vals)
        seen_args.append(f"{complements[0]} = {u(vals[0])}")
    if True:
        for a in remainders:
            poly = te.ev(a)
            pos = [m for m, c in poly.terms.items() if c == 1]
            neg = [m for m, c in poly.terms.items() if c == -1]
            if len(poly.terms) == 2 and len(pos) == 1 and len(neg) == 1 and len(pos[0]) == 1 and len(neg[0]) == 1 \
                    and pos[0][0][0] in _own_params(dp):
                m = re.fullmatch(r"<(\w+)@loop\d+>", neg[0][0][0])
                if m and neg[0][0][1] == 1:
                    ledgers.add(m.group(1))
                    request = pos[0][0][0]
    if len(ledgers) != 1:
        run.violation("C02.BOOK", dp.qual, seen_args[0] if seen_args else "top-up call",
                      "the remainder handed to the top-up is not `request - <what the loops booked as "
                      "distributed>`: the top-up adds to (or takes back from) the groups an amount that is not "
                      "what is left of the request", node=dp.node, file=dp.file)
        return
    ledger = next(iter(ledgers))
    # one quantity may travel under several names (handed to a helper and taken back): plain copies
    # between locals outside the loops join them
    names = _aliases(dp.node, ledger)
    # the ledger starts at zero: its value when the first loop that changes it is reached
    starts = _start_values(dp.node, names)
    run.check(bool(starts) and all(is_zero(v) for v in starts), "C02.BOOK", dp.qual,
              f"{ledger} = {', '.join(u(v) for v in starts) or '?'} before the loops",
              f"the distributed-power ledger `{ledger}` does not start at zero: the remainder handed to the "
              "top-up is off by that amount from the first call on", node=dp.node, file=dp.file,
              instance=f"{dp.qual}: the distributed-power ledger starts at zero")

    def cell_gain(p: Any) -> tuple[Poly, list[tuple[str, Poly]]]:
        total, incs = Poly(), []
        for e in p.effects:
            if e.kind == "call" and callee(e.node) == "_Power":
                a = ctor_args(e.node, pf, dp.qual)
                if "power" not in a:
                    raise AnalysisError(f"{dp.qual}: line {e.lineno}: _Power(...) without power")
                total = total + te.ev(a["power"])
        for _e, tgt, val in writes(p, lambda t, _v: isinstance(t, ast.Attribute) and t.attr == "power"):
            d = te.ev(val) - Poly.atom(u(tgt))
            total = total + d
            incs.append((u(tgt.value), d))  # type: ignore[attr-defined]
        return total, incs

    loops = [r for r in regs if r.kind != "top"]
    for p, _st in regs[0].paths:
        if not cell_gain(p)[0].is_zero():
            raise AnalysisError(f"{dp.qual}: allocation cells receive power outside the loops")
    # (a)
    reserve: set[str] = set()
    alloc: list[Region] = []
    k = 0
    for r in sorted(loops, key=lambda r: getattr(r.loop, "lineno", 0)):
        touched, ok, bad = False, True, None
        for p, _st in r.paths:
            gain, incs = cell_gain(p)
            booked = Poly()
            for nm in names:
                booked = booked + _delta(te, p, nm)
            if id(r.loop) in topup_loops:   # inlined top-up: what the remainder loses is what the cells gain
                for nm in complements:
                    booked = booked - _delta(te, p, nm)
            if gain.is_zero() and booked.is_zero():
                continue
            touched = True
            if gain != booked:
                ok, bad = False, bad or p
            for cell, d in incs:
                for key, val in r.cell_pairs():
                    it = r.loop.iter  # type: ignore[union-attr]
                    if d == Poly.atom(val) and isinstance(it, ast.Call) and isinstance(it.func, ast.Attribute) \
                            and isinstance(it.func.value, ast.Name):
                        reserve.add(it.func.value.id)
            if any(e.kind == "call" and callee(e.node) == "_Power" for e in p.effects):
                if r not in alloc:
                    alloc.append(r)
        if not touched:
            continue
        k += 1
        run.check(ok, "C02.BOOK", dp.qual, f"loop at line {getattr(r.loop, 'lineno', '?')}: {ledger} vs cells",
                  f"on a path through this loop body the amount booked into `{ledger}` differs from the power "
                  "the allocation cells receive (e.g. a group that is skipped for lack of SoC headroom is "
                  "booked with its minimum power): the remainder handed to the top-up is wrong, a negative "
                  "remainder is taken back from the first group, which ends inside its exclusion zone",
                  node=at(getattr(r.loop, "lineno", 0)), file=dp.file, path=bad.describe() if bad else None,
                  instance=f"{dp.qual}: loop #{k} books exactly what its cells receive")
    # (b)
    if len(reserve) != 1 and any(v.rule == "C02.BOOK" for v in run.violations):
        return      # already reported: the loop that hands the reserve to the cells does not book what they get
    if len(reserve) != 1:
        raise AnalysisError(f"{dp.qual}: the reserve table (whose entries are added to the cells and booked) "
                            f"was not identified: {sorted(reserve)}")
    res = next(iter(reserve))
    deficit_tables: set[str] = set()
    n = 0
    # where the covering lives: in loops of the allocation function itself, or in a private helper (static method /
    # method / module function) the reserve table is handed to -- followed by the argument that carries the table;
    # a `return` of such a helper ends the covering of the deficit at hand (what it returns is what is left of it)
    others = [r for r in regs if r not in alloc]
    sites: list[tuple[FuncInfo, Region, str, Any]] = [(dp, r, res, None) for r in others if r.kind != "top"]
    sites += _covering_helpers(prog, dp, others, res, None)
    for cf, r, tab, ctx in sites:
        paths = [(p, writes(p, lambda t, _v: _sub(t, tab))) for p, _st in r.paths]
        if not any(w for _p, w in paths):
            continue
        where = f"loop at line {getattr(r.loop, 'lineno', '?')}" if r.loop is not None else f"{cf.name}()"
        line = getattr(r.loop, "lineno", 0) if r.loop is not None else getattr(cf.node, "lineno", 0)
        got = _covered_quantity(cf, r, ctx)
        if got is None:
            raise AnalysisError(f"{cf.qual}: {where}: the reserve table is changed outside a loop over the deficits")
        covered, dtab = got
        if dtab is not None:
            deficit_tables.add(dtab)
        if isinstance(r.loop, ast.While) and r.kind == "loop":
            entered = [tp for tp, o in test_paths(r.loop.test) if o]
            # ... by the loop's own test, or (`while True:` with the test as a guard in the body) by the conditions
            # of every pass that takes something from the table
            by_test = bool(entered) and all(nonzero_established(tp, covered) or negative_established(tp, covered)
                                            for tp in entered)
            by_guard = all(nonzero_established(p, covered) or negative_established(p, covered)
                           for p, ws in paths if ws)
            run.check(by_test or by_guard, "C02.BOOK", dp.qual,
                      f"while {u(r.loop.test)}",
                      f"the covering loop is entered without having established that `{covered}` is a remaining "
                      "(non-zero / negative) deficit: deficits stay uncovered, more than the request stays "
                      "reserved and the top-up takes the difference back from the first group",
                      node=r.loop, file=cf.file,
                      instance=f"{dp.qual}: deficit covering #{n + 1} runs while a deficit remains")
        ok, bad = True, None
        ta = TermEval(atom_hook=_item_alias)
        norm = _Items(prog)
        within, bad_w, gives_up, bad_g, n_break = True, None, True, None, 0
        for (p, ws), (_p2, st) in zip(paths, r.paths):
            # a helper's return (or its end) hands back what is left of the deficit
            leaves = ctx is not None and (st == "return" or (r.kind == "top" and st == "next"))
            before = Poly.atom(covered)
            if leaves and p.ret is not None:
                after = ta.ev(norm.visit(copy.deepcopy(p.ret)))
            elif covered in p.env:
                after = ta.ev(norm.visit(copy.deepcopy(p.env[covered])))
            else:
                after = before
            taken = Poly()
            known = _norm_conds(p, norm)
            for _e, tgt, val in ws:
                old, new = ta.ev(norm.visit(copy.deepcopy(tgt))), ta.ev(norm.visit(copy.deepcopy(val)))
                taken = taken + new - old
                # (e) a donor gives at most what it holds: the entry becomes zero, or changes by an amount
                #     the path established to be covered by the entry
                held = new.is_zero() or _covered_by(known, new - old, old)
                if facts is not None:
                    # (for C01's sign clause) one record per store into the reserve table during deficit covering
                    facts.append({"function": cf, "loop": r.loop, "table": tab, "lineno": _e.lineno, "path": p,
                                  "store": f"{u(tgt)} = {u(val)}", "entry": repr(old), "change": repr(new - old),
                                  "ok": held, "compared": _compared_with(known, new - old)})
                if not held:
                    within, bad_w = False, bad_w or p
            moved = after - before + taken
            # a helper that returns nothing and leaves having taken the whole deficit from the table has covered it
            whole = leaves and p.ret is None and after == before and taken == before
            if not moved.is_zero() and not whole:
                ok, bad = False, bad or p
            if r.kind == "loop" and (st == "break" or (leaves and not (
                    after.is_zero() or whole or (after == before and _settled(p, covered))))):
                n_break += 1
                if not _nothing_left(p, tab):
                    gives_up, bad_g = False, bad_g or p
        n += 1
        run.check(ok, "C02.BOOK", dp.qual, f"{where}: {tab} vs {covered}",
                  f"deficit covering: on a path the change of `{covered}` is not the negated change of the "
                  f"entries of `{tab}` (e.g. the entry that is zeroed is not the donor's): reserve is counted "
                  "twice, more than the request is handed out and the top-up takes the difference back from "
                  "the first group, which ends inside its exclusion zone",
                  node=at(line), file=cf.file, path=bad.describe() if bad else None,
                  instance=f"{dp.qual}: deficit covering #{n} moves reserve from the donor to the deficit")
        run.check(within, "C02.BOOK", dp.qual, f"{where}: amount taken from {tab}",
                  f"deficit covering: an entry of `{tab}` is reduced by an amount that the path has not "
                  "established to be at most what the entry holds: the donor's reserve becomes negative and the "
                  "donor ends below its minimum power", node=at(line), file=cf.file,
                  path=bad_w.describe() if bad_w else None,
                  instance=f"{dp.qual}: deficit covering #{n}: a donor gives at most its reserve")
        if n_break:
            run.check(gives_up, "C02.BOOK", dp.qual, f"{where}: break",
                      f"deficit covering gives up on a path that has not established that `{tab}` is empty or that "
                      "the chosen donor holds nothing: deficits stay uncovered although reserve is available",
                      node=at(line), file=cf.file, path=bad_g.describe() if bad_g else None,
                      instance=f"{dp.qual}: deficit covering #{n} gives up only when nothing is left to take")
    if n < 1:
        raise AnalysisError(f"{dp.qual}: no deficit covering over `{res}` found")
    _check_res(run, prog, dp, request, res, next(iter(deficit_tables)) if len(deficit_tables) == 1 else None)


_HELPERS: list[Any] = [None, {}]      # [program, prepared helper per function node]


def _helper_info(prog: Program, fn: FuncInfo, h: Any) -> FuncInfo:
    """A private helper of `fn`'s class / module prepared like an anchored function (analysis-only copy)."""
    from ..engine.normalize import inline_helpers
    from ._c02_util import anchors, splice_blocks

    if _HELPERS[0] is not prog:
        _HELPERS[:] = [prog, {}]
    got = _HELPERS[1].get(id(h))
    if got is None or got[0] is not h:
        mf = fn.module.functions.get(h.name)
        raw = FuncInfo(h.name, fn.module, h, None if mf is not None and mf.node is h else fn.cls)
        keep = set(anchors(prog).values())
        node = inline_helpers(prog, raw, node=splice_blocks(prog, raw, keep), exclude=keep)
        got = _HELPERS[1][id(h)] = (h, FuncInfo(raw.name, raw.module, node, raw.cls))
    return got[1]


def _covering_helpers(prog: Program, fn: FuncInfo, regs: list[Region], table: str, ctx: Any,
                      depth: int = 2) -> list[tuple[FuncInfo, Region, str, Any]]:
    """Regions of the private helpers the table `table` of `fn` is handed to as an argument:
    (helper, region, the helper's parameter that is the table, (caller, calling region, bindings, caller's context))."""
    from ..engine.normalize import _bind, _helper_target
    from ._c02_util import anchors

    out: list[tuple[FuncInfo, Region, str, Any]] = []
    if depth <= 0:
        return out
    keep = set(anchors(prog).values())
    seen: set[tuple[int, int, str]] = set()
    for r in regs:
        for p, _st in r.paths:
            for e in p.effects:
                if e.kind != "call" or not isinstance(e.node, ast.Call):
                    continue
                args = list(e.node.args) + [k.value for k in e.node.keywords]
                if not any(isinstance(a, ast.Name) and a.id == table for a in args):
                    continue
                key = (id(r), e.lineno, u(e.node))
                if key in seen:
                    continue
                seen.add(key)
                h = _helper_target(prog, fn, e.node, {})
                if h is None or h.name in keep or h.name == fn.name or isinstance(h, ast.AsyncFunctionDef):
                    continue
                binds = _bind(h, e.node)
                if binds is None:
                    continue
                mine = [k for k, v in binds.items() if isinstance(v, ast.Name) and v.id == table]
                if len(mine) != 1:
                    continue
                hf = _helper_info(prog, fn, h)
                hregs = regions(hf.node)
                hctx = (fn, r, binds, ctx)
                out.extend((hf, hr, mine[0], hctx) for hr in hregs)
                out.extend(_covering_helpers(prog, hf, hregs, mine[0], hctx, depth - 1))
    return out


def _covered_quantity(fn: FuncInfo, r: Region, ctx: Any) -> tuple[str, str | None] | None:
    """(the local of `fn` that holds the deficit being covered in region `r`, the deficit table in terms of the
    allocation function): the item value of the enclosing loop over a mapping -- in `fn`, or around the call that
    brought the analysis into `fn`, the value then arriving as a parameter."""
    def up(name: str | None, c: Any) -> str | None:
        while c is not None and name is not None:
            v = c[2].get(name)
            name = v.id if isinstance(v, ast.Name) else None
            c = c[3]
        return name

    cur: Region | None = r
    while cur is not None:
        if cur.kind == "loop" and isinstance(cur.loop, (ast.For, ast.AsyncFor)) and cur.cell_pairs():
            it = cur.loop.iter
            tab = it.func.value.id if isinstance(it, ast.Call) and isinstance(it.func, ast.Attribute) \
                and isinstance(it.func.value, ast.Name) else None
            return cur.cell_pairs()[0][1], up(tab, ctx)
        cur = cur.parent
    if ctx is None:
        return None
    caller, creg, binds, cctx = ctx
    got = _covered_quantity(caller, creg, cctx)
    if got is None:
        return None
    mine = [k for k, v in binds.items() if u(v) == got[0]]
    return (mine[0], got[1]) if len(mine) == 1 else None


def _settled(p: Any, operand: str) -> bool:
    """A condition of the path says that the deficit `operand` is (close to) zero or not negative."""
    for _k, _ko, atom, _ln, o in p.conds:
        if isinstance(atom, ast.Call) and zero_test(atom, operand) is True and o:
            return True
        if isinstance(atom, ast.Compare) and len(atom.ops) == 1:
            left, op, right = atom.left, atom.ops[0], atom.comparators[0]
            if u(left) == operand and is_zero(right) and (
                    (isinstance(op, (ast.Eq, ast.GtE)) and o) or (isinstance(op, ast.Lt) and not o)):
                return True
            if u(right) == operand and is_zero(left) and (
                    (isinstance(op, (ast.Eq, ast.LtE)) and o) or (isinstance(op, ast.Gt) and not o)):
                return True
    return False


def _item_alias(e: ast.AST, _te: TermEval) -> Poly | None:
    """`d[t[0]]` with `t = max(d.items(), ...)` (or min) is the value `t[1]` of that very item."""
    if isinstance(e, ast.Subscript) and isinstance(e.value, ast.Name) and isinstance(e.slice, ast.Subscript) \
            and isinstance(e.slice.slice, ast.Constant) and e.slice.slice.value == 0:
        t = e.slice.value
        if isinstance(t, ast.Call) and u(t.func) in ("max", "min") and t.args \
                and u(t.args[0]) == f"{e.value.id}.items()":
            return Poly.atom(f"{u(t)}[1]")
    return None


class _Items(ast.NodeTransformer):
    """`C(*t).<field i>` of a dataclass C is `t[i]` (constructor semantics), so that a snapshot of a
    dict item and the item itself are one term."""

    def __init__(self, prog: Program) -> None:
        self.prog = prog

    def visit_Attribute(self, node: ast.Attribute) -> ast.AST:  # noqa: N802
        self.generic_visit(node)
        c = node.value
        if isinstance(c, ast.Call) and isinstance(c.func, ast.Name) and len(c.args) == 1 and not c.keywords \
                and isinstance(c.args[0], ast.Starred):
            try:
                flds = fields_of(self.prog, f"{MOD}:{c.func.id}")
            except (AnalysisError, KeyError):
                return node
            if node.attr in flds:
                return ast.Subscript(value=c.args[0].value, slice=ast.Constant(flds.index(node.attr)), ctx=ast.Load())
        return node


def _norm_conds(p: Any, norm: _Items) -> dict[Any, Any]:
    """Outcome per canonical condition of the path, with item snapshots normalised; ('close', a, b) -> True for
    an established math.isclose(a, b)."""
    from ..engine.sympath import cond_key

    known: dict[Any, Any] = {}
    for _k, _ko, atom, _ln, o in p.conds:
        a = norm.visit(copy.deepcopy(atom))
        key, pol = cond_key(a)
        known[key] = (o == pol)
        if isinstance(a, ast.Call) and u(a.func) in ("math.isclose", "isclose") and len(a.args) >= 2 and o:
            known[("close", frozenset((u(a.args[0]), u(a.args[1]))))] = True
    return known


def _covered_by(known: dict[Any, Any], change: Poly, old: Poly) -> bool:
    """The conditions establish `-change <= old` for a change of one term (±x) of an entry worth `old`."""
    o = old.as_atom()
    if o is None or len(change.terms) != 1:
        return False
    (mono, coeff), = change.terms.items()
    if len(mono) != 1 or mono[0][1] != 1 or coeff not in (1, -1):
        return False
    amount = mono[0][0] if coeff == -1 else f"-{mono[0][0]}"
    return (known.get(("<=", amount, o)) is True or known.get(("<", amount, o)) is True
            or known.get(("<", o, amount)) is False or known.get(("<=", o, amount)) is False
            or known.get(("close", frozenset((o, amount)))) is True)


def _compared_with(known: dict[Any, Any], change: Poly) -> list[str]:
    """What the conditions of the path compare the amount taken (a change of one term ±x) with."""
    if len(change.terms) != 1:
        return []
    (mono, coeff), = change.terms.items()
    if len(mono) != 1 or mono[0][1] != 1 or coeff not in (1, -1):
        return []
    amount = mono[0][0] if coeff == -1 else f"-{mono[0][0]}"
    out: list[str] = []
    for key, _o in known.items():
        if isinstance(key, tuple) and len(key) == 3 and key[0] in ("<", "<=") and amount in key[1:]:
            out.extend(str(x) for x in key[1:] if x != amount)
        elif isinstance(key, tuple) and len(key) == 2 and key[0] == "close" and amount in key[1]:
            out.extend(str(x) for x in key[1] if x != amount)
    return sorted(set(out))


def _nothing_left(p: Any, res: str) -> bool:
    """A condition of the path says that the reserve table is empty or that a value taken from it is
    (close to) zero or negative."""
    if p.outcome(("truthy", res)) is False:
        return True
    for _k, _ko, atom, _ln, o in p.conds:
        ops: list[ast.AST] = []
        if isinstance(atom, ast.Call) and atom.args:
            ops = [atom.args[0]]
        elif isinstance(atom, ast.Compare) and len(atom.ops) == 1:
            ops = [atom.left, atom.comparators[0]]
        for x in ops:
            t = u(x)
            if res not in t:
                continue
            z = zero_test(atom, t)
            if z is not None and o == z:
                return True
            if isinstance(atom, ast.Compare):
                left, op, right = atom.left, atom.ops[0], atom.comparators[0]
                if u(left) == t and is_zero(right) and ((isinstance(op, ast.Lt) and o) or (isinstance(op, ast.GtE) and not o)):
                    return True
                if u(right) == t and is_zero(left) and ((isinstance(op, ast.Gt) and o) or (isinstance(op, ast.LtE) and not o)):
                    return True
    return False


def _aliases(fn: ast.AST, name: str) -> list[str]:
    """Locals joined to `name` by plain copies `a = b` outside the loops (one quantity under several names)."""
    pairs: list[tuple[str, str]] = []

    def suite(stmts: list[ast.stmt]) -> None:
        for st in stmts:
            if isinstance(st, (ast.For, ast.AsyncFor, ast.While, ast.FunctionDef, ast.AsyncFunctionDef, ast.ClassDef)):
                continue
            tgt = val = None
            if isinstance(st, ast.Assign) and len(st.targets) == 1:
                tgt, val = st.targets[0], st.value
            elif isinstance(st, ast.AnnAssign):
                tgt, val = st.target, st.value
            if isinstance(tgt, ast.Name) and isinstance(val, ast.Name):
                pairs.append((tgt.id, val.id))
            for f in ("body", "orelse", "finalbody"):
                sub = getattr(st, f, None)
                if isinstance(sub, list) and sub and isinstance(sub[0], ast.stmt):
                    suite(sub)

    suite(fn.body)  # type: ignore[attr-defined]
    out = [name]
    grew = True
    while grew:
        grew = False
        for a, b in pairs:
            for x, y in ((a, b), (b, a)):
                if x in out and y not in out:
                    out.append(y)
                    grew = True
    return out


def _start_values(fn: ast.AST, names: list[str]) -> list[ast.AST]:
    """Values the quantity called `names` holds when the first top-level loop that re-binds it is reached
    (symbolically, over the statements before that loop); falls back to the bindings outside the loops."""
    from ._c02_util import value_before

    got = value_before(fn, names)
    if got is not None:
        return got
    out: list[ast.AST] = []
    for nm in names:
        out.extend(v for v in _bindings_outside_loops(fn, nm) if not (isinstance(v, ast.Name) and v.id in names))
    return out


def _bindings_outside_loops(fn: ast.AST, name: str) -> list[ast.AST]:
    """Values bound to the local `name` by statements that are not inside a loop."""
    out: list[ast.AST] = []

    def suite(stmts: list[ast.stmt]) -> None:
        for st in stmts:
            if isinstance(st, (ast.For, ast.AsyncFor, ast.While, ast.FunctionDef, ast.AsyncFunctionDef, ast.ClassDef)):
                continue
            if isinstance(st, ast.Assign) and any(isinstance(t, ast.Name) and t.id == name for t in st.targets):
                out.append(st.value)
            elif isinstance(st, ast.AnnAssign) and isinstance(st.target, ast.Name) and st.target.id == name \
                    and st.value is not None:
                out.append(st.value)
            elif isinstance(st, ast.AugAssign) and isinstance(st.target, ast.Name) and st.target.id == name:
                out.append(st)
            for f in ("body", "orelse", "finalbody"):
                sub = getattr(st, f, None)
                if isinstance(sub, list) and sub and isinstance(sub[0], ast.stmt):
                    suite(sub)
            for h in getattr(st, "handlers", []) or []:
                suite(h.body)

    suite(fn.body)  # type: ignore[attr-defined]
    return out


def _check_res(run: Run, prog: Program, dp: FuncInfo, request: str | None, res: str, deficits: str | None) -> None:
    """C02.RES — shape of the reservation in the allocation loop (per path that creates a non-zero cell with
    power m and cap U for the loop element E):

      (a) exactly one local R grows by max(c, m): the reservation ledger and the share c of the group;
          a pass that allocates nothing leaves R unchanged;
      (b) c == (request - R) * q with the element's own ratio as a factor of q: the share is taken from
          what is not yet reserved;
      (c) what is stored for the group in the reserve table is U - m, or c - m on a path that established
          m <= c <= U; what is stored in the deficit table is c - m on a path that established c <= m, and a
          path that established c < m stores it.
    Otherwise min_power + reserve exceeds the cap, or the reserved total exceeds the request and the top-up
    takes the difference back from the first group, which ends inside its exclusion zone."""
    pf = fields_of(prog, f"{MOD}:_Power")
    ledgers: set[str] = set()
    regions_seen: list[Region] = []
    for r, p, e, a, elem in _nonzero_creations(prog, dp, pf):
        if elem is None:
            continue            # not in the loop over the availability records: reported by C02.CAP
        if r not in regions_seen:
            regions_seen.append(r)
        mm = MinMax()
        m_poly, cap = mm.ev(a["power"]), mm.ev(a["upper_bound"])
        m_text, cap_text = u(a["power"]), u(a["upper_bound"])
        cands = []
        for name, val in p.env.items():
            got = mm.clamp(mm.ev(val) - Poly.atom(name))
            if got is not None and got[0] == "max" and len(got[1]) == 2 and m_poly in got[1] and got[1][0] != got[1][1]:
                share = got[1][1] if got[1][0] == m_poly else got[1][0]
                node = next((x for c in ast.walk(val) if isinstance(c, ast.Call) and u(c.func) == "max"
                             for x in c.args if mm.ev(x) == share), None)
                if node is not None:
                    cands.append((name, share, u(node)))
        ok = len(cands) == 1
        run.check(ok, "C02.RES", dp.qual, f"allocation of {m_text} at line {e.lineno}",
                  "on the path that allocates a group no local is raised by exactly max(share, min_power): what "
                  "is reserved for the groups handled so far is not tracked, later shares are computed from power "
                  "that is already taken and the reserved total can exceed the request",
                  node=at(e.lineno), file=dp.file, path=p.describe(),
                  instance=f"{dp.qual}: the reservation ledger grows by max(share, min_power) per allocated group")
        if not ok:
            continue
        ledger, share, share_text = cands[0]
        ledgers.add(ledger)
        # (b)
        q_req, q_led, bad = Poly(), Poly(), request is None
        for mono, coeff in share.terms.items():
            in_req = [x for x in mono if x[0] == request]
            in_led = [x for x in mono if x[0] == ledger]
            rest = tuple(x for x in mono if x[0] not in (request, ledger))
            if in_req == [(request, 1)] and not in_led:
                q_req = q_req + Poly({rest: coeff})
            elif in_led == [(ledger, 1)] and not in_req:
                q_led = q_led + Poly({rest: coeff})
            else:
                bad = True
        ok = not bad and not q_req.is_zero() and q_req == -q_led and all(
            (f"{elem}.ratio", 1) in mono for mono in q_req.terms)
        run.check(ok, "C02.RES", dp.qual, f"share = {share_text}",
                  f"the share of a group is not `({request} - {ledger}) * q` with the group's own ratio as a "
                  "factor: it is not taken from what is still unreserved of the request",
                  node=at(e.lineno), file=dp.file,
                  instance=f"{dp.qual}: share = (request - reserved) * own ratio / ...")
        # (c)
        cell_keys = {u(t.slice) for _e2, t, v in writes(p) if isinstance(t, ast.Subscript) and u(v) == u(e.node)}
        wrote_deficit = False
        for e2, tgt, val in writes(p, lambda t, _v: isinstance(t, ast.Subscript) and u(t.value) in (res, deficits)):
            v = mm.ev(settle_minmax(p, val))     # min(share, cap) is the operand the path's conditions select
            own_key = u(tgt.slice) in cell_keys  # type: ignore[attr-defined]
            text = f"{u(tgt)} = {u(val)}"
            if u(tgt.value) == res:  # type: ignore[attr-defined]
                ok = own_key and (v == cap - m_poly or (v == share - m_poly and ordered(p, m_text, share_text)
                                                        and ordered(p, share_text, cap_text)))
                run.check(ok, "C02.RES", dp.qual, text,
                          "the reserve stored for a group is neither `cap - min_power` nor `share - min_power` on a "
                          "path that established min_power <= share <= cap: min_power + reserve can exceed the "
                          "group's cap or fall below its minimum power",
                          node=at(e2.lineno), file=dp.file, path=p.describe(),
                          instance=f"{dp.qual}: reserve of a group is within [0, cap - min_power]")
            else:
                wrote_deficit = True
                ok = own_key and v == share - m_poly and ordered(p, share_text, m_text)
                run.check(ok, "C02.RES", dp.qual, text,
                          "the deficit stored for a group is not `share - min_power` on a path that established "
                          "share <= min_power: the covering loop takes the wrong amount from the other groups",
                          node=at(e2.lineno), file=dp.file, path=p.describe(),
                          instance=f"{dp.qual}: deficit of a group is share - min_power when the share is below it")
        if deficits is not None and strictly(p, share_text, m_text):
            run.check(wrote_deficit, "C02.RES", dp.qual, f"path with {share_text} < {m_text}",
                      "a group whose share is below its minimum power is allocated its minimum power without the "
                      "shortfall being recorded for covering: more than the request is handed out",
                      node=at(e.lineno), file=dp.file, path=p.describe(),
                      instance=f"{dp.qual}: a share below min_power records its deficit")
    for ledger in sorted(ledgers):
        starts = _start_values(dp.node, [ledger])
        run.check(bool(starts) and all(is_zero(v) for v in starts), "C02.RES", dp.qual,
                  f"{ledger} = {', '.join(u(v) for v in starts) or '?'} before the loop",
                  f"the reservation ledger `{ledger}` does not start at zero", node=dp.node, file=dp.file,
                  instance=f"{dp.qual}: the reservation ledger starts at zero")
    # a pass that allocates nothing reserves nothing
    te = TermEval()
    for r in regions_seen:
        for p, _st in r.paths:
            if any(ef.kind == "call" and callee(ef.node) == "_Power" and not is_zero(
                    ctor_args(ef.node, pf, dp.qual).get("power", ast.Constant(1))) for ef in p.effects):
                continue
            for ledger in ledgers:
                run.check(_delta(te, p, ledger).is_zero(), "C02.RES", dp.qual,
                          f"{ledger} on a pass that allocates nothing",
                          f"`{ledger}` changes on a pass through the allocation loop that allocates nothing",
                          node=at(getattr(r.loop, "lineno", 0)), file=dp.file, path=p.describe(),
                          instance=f"{dp.qual}: a skipped group reserves nothing")


# --------------------------------------------------------------------------------------------- SOCAGG
class _Abstract(ast.NodeTransformer):
    """Replace the aggregated field by a placeholder and name comprehension variables by position."""

    def __init__(self, fld: str) -> None:
        self.fld = fld
        self.ren: dict[str, str] = {}

    def _comp(self, node: Any) -> ast.AST:
        for g in node.generators:
            for n in ast.walk(g.target):
                if isinstance(n, ast.Name):
                    self.ren.setdefault(n.id, f"v{len(self.ren)}")
        return self.generic_visit(node)

    visit_GeneratorExp = visit_ListComp = visit_SetComp = visit_DictComp = _comp  # noqa: N815

    def visit_Lambda(self, node: ast.Lambda) -> ast.AST:  # noqa: N802
        for a in node.args.args:
            self.ren.setdefault(a.arg, f"v{len(self.ren)}")
            a.arg = self.ren[a.arg]
        return self.generic_visit(node)

    def visit_Name(self, node: ast.Name) -> ast.AST:  # noqa: N802
        return ast.Name(id=self.ren.get(node.id, node.id), ctx=node.ctx)

    def visit_Attribute(self, node: ast.Attribute) -> ast.AST:  # noqa: N802
        self.generic_visit(node)
        if node.attr == self.fld and u(node.value) != "self":
            node.attr = "FIELD"
        return node


def check_soc_agg(run: Run, prog: Program) -> None:
    """The SoC of a battery group and its two SoC limits are the same aggregate of the batteries' values
    (same weights): only then `limit - soc` is the weighted sum of the batteries' own headrooms, and a
    group whose batteries are all at their limit has headroom zero."""
    import copy

    fn = prep(prog, f"{MOD}:AggregatedBatteryData.__init__")
    run.analysed(fn.qual)
    fields = ("soc", "soc_upper_bound", "soc_lower_bound")
    n = 0
    for p, _st in regions(fn.node)[0].paths:
        last: dict[str, ast.AST] = {}
        for _e, tgt, val in writes(p, lambda t, _v: isinstance(t, ast.Attribute) and u(t.value) == "self"
                                   and t.attr in fields):
            last[tgt.attr] = val  # type: ignore[attr-defined]
        if not last:
            continue
        forms = {f: repr(TermEval().ev(_Abstract(f).visit(copy.deepcopy(v)))) for f, v in last.items()}
        ok = len(last) == len(fields) and len(set(forms.values())) == 1
        if any("FIELD" in x for x in forms.values()):
            n += 1
        run.check(ok, "C02.SOCAGG", fn.qual, "; ".join(f"{f} = {u(v)}" for f, v in sorted(last.items())),
                  "the aggregated SoC and the aggregated SoC limits of a battery group are not the same "
                  "aggregate of the batteries' values (different weights or a different field): "
                  "`soc_upper_bound - soc` / `soc - soc_lower_bound` can stay positive although every battery "
                  "of the group is at its own limit, so the group keeps a share",
                  node=at(p.lineno), file=fn.file, path=p.describe(),
                  instance=f"{fn.qual}: soc and both limits aggregated alike ({'weighted' if 'FIELD' in next(iter(forms.values())) else 'constant'} path)")
    if n < 1:
        raise AnalysisError(f"{fn.qual}: no path aggregates soc / soc_upper_bound / soc_lower_bound from the batteries")


# --------------------------------------------------------------------------------------------- GRP
PB = "microgrid._power_distributing.result:PowerBounds"


def _fold_over(e: ast.AST | None, fn: str, coll: str) -> str | None:
    """attr when `e` is `<fn>(v.<attr> for v in <coll>)` (generator or list, one clause, no filter)."""
    if not (isinstance(e, ast.Call) and u(e.func) == fn and len(e.args) == 1 and not e.keywords
            and isinstance(e.args[0], (ast.GeneratorExp, ast.ListComp)) and len(e.args[0].generators) == 1):
        return None
    g = e.args[0].generators[0]
    elt = e.args[0].elt
    if g.ifs or g.is_async or not isinstance(g.target, ast.Name) or u(g.iter) != coll:
        return None
    if isinstance(elt, ast.Attribute) and isinstance(elt.value, ast.Name) and elt.value.id == g.target.id:
        return elt.attr
    return None


def check_group_bounds(run: Run, prog: Program) -> None:
    """The power bounds of a battery group (what the cap of a group, the enforced bounds and the advertised
    bounds are computed from) aggregate the members' bounds so that the group's range is within what the
    members accept together:
      inclusion_upper / inclusion_lower   the SUM of the members' own inclusion bound of that side (not the
                                          widest member times the count, not another field, not another
                                          collection);
      exclusion_upper / exclusion_lower   the largest / smallest member bound times the number of members
                                          (every member, taking an equal part, stays out of its zone);
    and the per-battery record handed to the aggregation carries each battery's own `power_<field>_bound`.
    The aggregating function is bound by role: the callee whose result becomes `self.power_bounds` of
    AggregatedBatteryData."""
    te = TermEval()
    init = prep(prog, f"{MOD}:AggregatedBatteryData.__init__")
    flds = fields_of(prog, PB)
    calls: list[tuple[Any, ast.Call]] = []
    for p, _st in regions(init.node)[0].paths:
        for _e, tgt, val in writes(p, lambda t, _v: u(t) == "self.power_bounds"):
            if isinstance(val, ast.Call) and isinstance(val.func, ast.Name) and val.func.id in init.module.functions:
                calls.append((p, val))
            else:
                raise AnalysisError(f"{init.qual}: self.power_bounds is not the result of a module function: {u(val)[:80]}")
    if not calls:
        raise AnalysisError(f"{init.qual}: self.power_bounds is never set")
    names = {c.func.id for _p, c in calls}  # type: ignore[attr-defined]
    if len(names) != 1:
        raise AnalysisError(f"{init.qual}: several aggregating functions {sorted(names)}")
    agg = prep(prog, f"{MOD}:{next(iter(names))}")
    run.analysed(agg.qual)
    params = agg.params
    if not params:
        raise AnalysisError(f"{agg.qual}: no parameter")
    coll = params[0]
    # (1) the record per battery
    for p, c in calls:
        arg = c.args[0] if c.args else (c.keywords[0].value if c.keywords else None)
        if isinstance(arg, ast.Call) and u(arg.func) in ("list", "tuple") and len(arg.args) == 1:
            arg = arg.args[0]
        elem = ctor = None
        if isinstance(arg, ast.Call) and u(arg.func) == "map" and len(arg.args) == 2 and isinstance(arg.args[0], ast.Lambda) \
                and len(arg.args[0].args.args) == 1:
            elem, ctor = arg.args[0].args.args[0].arg, arg.args[0].body
        elif isinstance(arg, (ast.ListComp, ast.GeneratorExp)) and len(arg.generators) == 1 \
                and isinstance(arg.generators[0].target, ast.Name) and not arg.generators[0].ifs:
            elem, ctor = arg.generators[0].target.id, arg.elt
        if isinstance(ctor, ast.Call) and callee(ctor) == "PowerBounds" and elem is not None:
            a = ctor_args(ctor, flds, init.qual)
            ok = set(a) == set(flds) and all(u(v) == f"{elem}.power_{k}_bound" for k, v in a.items())
            run.check(ok, "C02.GRP", init.qual, u(ctor)[:160],
                      "the bounds record of a battery does not carry that battery's own bound in every field "
                      "(`<field> = battery.power_<field>_bound`): the group's bounds are aggregated from the "
                      "wrong limits", node=at(p.lineno or init.node.lineno), file=init.file,
                      instance=f"{init.qual}: per-battery record carries the battery's own four bounds")
    # (2) the aggregate
    n = 0
    for p, _st in regions(agg.node)[0].paths:
        if p.exit != "return":
            continue
        if not (isinstance(p.ret, ast.Call) and callee(p.ret) == "PowerBounds"):
            raise AnalysisError(f"{agg.qual}: result is not a PowerBounds(...): {u(p.ret)[:80]}")
        n += 1
        a = ctor_args(p.ret, flds, agg.qual)
        for fld in flds:
            e = a.get(fld)
            own = (fld, f"power_{fld}_bound")
            if fld.startswith("inclusion"):
                ok = _fold_over(e, "sum", coll) in own
                want = f"sum(b.{fld} for b in {coll})"
                why = ("the group's inclusion bound is not the sum of its members' inclusion bounds of that side "
                       "(e.g. the widest member times the count): with one derated member the group's cap, the "
                       "enforced and the advertised bounds exceed what the members accept together and the "
                       "inverters are commanded beyond it")
            else:
                ext = "max" if fld.endswith("upper") else "min"
                ok = isinstance(e, ast.BinOp) and isinstance(e.op, ast.Mult) and any(
                    _fold_over(x, ext, coll) in own and u(y) == f"len({coll})"
                    for x, y in ((e.left, e.right), (e.right, e.left)))
                want = f"{ext}(b.{fld} for b in {coll}) * len({coll})"
                why = (f"the group's exclusion bound is not the {ext}imum member bound times the number of "
                       "members: a group total outside the aggregated zone can leave a member, taking its equal "
                       "part, inside its own exclusion zone")
            run.check(ok, "C02.GRP", agg.qual, f"{fld} = {u(e)[:120] if e is not None else '?'} (needs {want})", why,
                      node=at(p.lineno), file=agg.file, instance=f"{agg.qual}: {fld} aggregated as {want.split('(')[0]}"
                      + ("" if fld.startswith("inclusion") else " * count"))
    if n < 1:
        raise AnalysisError(f"{agg.qual}: no returning path")
    del te


# --------------------------------------------------------------------------------------------- ADM
def _own_params(fn: FuncInfo) -> list[str]:
    ps = fn.params
    return ps[1:] if ps and ps[0] in ("self", "cls") else ps


def check_adm(run: Run, prog: Program) -> None:
    fn0 = prog.func(f"{BM}._get_distribution")
    run.analysed(fn0.qual)
    cfg = CFG(fn0.node, fn0.file)
    checks = nodes_with_call(cfg, lambda c: method_call(c, "self", "_check_request"))
    dists = nodes_with_call(cfg, lambda c: method_call(c, "self", "_get_power_distribution"))
    if not checks or not dists:
        raise AnalysisError(f"{fn0.qual}: _check_request/_get_power_distribution call sites not found")
    wit = cfg.path(cfg.entry, dists, avoid=checks)
    run.check(wit is None, "C02.ADM", fn0.qual, "self._check_request(...) before self._get_power_distribution(...)",
              "a request can be distributed without passing the bounds admission check",
              node=fn0.node, file=fn0.file, path=cfg.describe_path(wit))
    # per symbolic path: the distribution is reached only with the verdict of the check established
    # as "no error"; with an error established the error is what is returned
    fn = prep(prog, fn0.qual)
    top = regions(fn.node)[0]
    cp = _own_params(prog.func(f"{BM}._check_request"))
    gp = _own_params(prog.func(f"{BM}._get_power_distribution"))
    n_dist = 0
    honoured = same = True
    bad_path: list[str] = []
    for p, _st in top.paths:
        seq = [e for e in p.effects if e.kind == "call"]
        chk = [i for i, e in enumerate(seq) if callee(e.node) == "self._check_request"]
        dst = [i for i, e in enumerate(seq) if callee(e.node) == "self._get_power_distribution"]
        verdicts = {}
        for i in chk:
            t = u(seq[i].node)
            v = None
            if p.outcome(("truthy", t)) is not None:
                v = p.outcome(("truthy", t))
            elif p.outcome(("is", frozenset({t, "None"}))) is not None:
                v = not p.outcome(("is", frozenset({t, "None"})))
            verdicts[i] = (t, v)            # v: True = error established, False = no error, None = not looked at
        for d in dst:
            n_dist += 1
            before = [i for i in chk if i < d]
            if not before or verdicts[before[-1]][1] is not False:
                honoured = False
                bad_path = bad_path or p.describe()
                continue
            c1 = positional(seq[before[-1]].node, cp)  # type: ignore[arg-type]
            c2 = positional(seq[d].node, gp)  # type: ignore[arg-type]
            if [u(c1.get(k)) for k in cp] != [u(c2.get(k)) for k in gp]:
                same = False
        for i in chk:
            t, v = verdicts[i]
            if v is True and (any(d > i for d in dst) or p.exit != "return" or u(p.ret) != t):
                honoured = False
                bad_path = bad_path or p.describe()
    if n_dist == 0:
        raise AnalysisError(f"{fn0.qual}: no symbolic path reaches the distribution")
    run.check(honoured, "C02.ADM", fn0.qual, "if error: return error",
              "a rejected request is still distributed", node=fn0.node, file=fn0.file, path=bad_path)
    run.check(same, "C02.ADM", fn0.qual, "same (request, pairs_data) checked and distributed",
              "the admission check and the distribution see different data", node=fn0.node, file=fn0.file)


def check_adm_min(run: Run, prog: Program) -> None:
    """The exclusion bound enforced at admission dominates the sum of the groups' minimum powers.

    Lemma (all exclusion magnitudes >= 0):  Σ_g max(b_g, Σ_i x_gi) >= Σ_g max(b_g, min_i x_gi) = Σ_g min_power_g,
    so an admitted request never makes the reservation loop over-commit.  `max(Σ_g b_g, Σ_gi x_gi)`
    does NOT dominate it (battery-dominated and inverter-dominated groups mixed)."""
    from .c17 import enforced
    enf = enforced(prog)
    fn = enf["fn"]
    run.analysed(fn.qual)
    for fld, key, op in (("exclusion_upper", "eu", "max"), ("exclusion_lower", "el", "min")):
        e = enf["terms"].get(fld)
        ok = e == ("sum_g", op, (("leaf", ("bat", key)), ("sum_i", ("inv", key))))
        if not ok:
            # second reading of the same form, on the symbolic result of the function with its helpers
            # spliced in (`getattr(x, "name")` is `x.name`)
            ok = _per_group_bound(prog, fld, op)
        run.check(ok, "C02.ADM", fn.qual, f"{fld} = Σ_g {op}(battery aggregate, Σ_i inverter)",
                  f"the {fld.replace('_', ' ')} bound enforced at admission is not the per-group "
                  f"{op}(battery exclusion, Σ inverter exclusion) summed over the groups (found {e}): when the "
                  "exclusion zone sits on the battery in some groups and on the inverter in others a request "
                  "smaller than the sum of the groups' minimum powers is admitted; the reservation loop "
                  "over-commits and the difference is taken back from the first group, which ends inside its "
                  "exclusion zone or is commanded against the sign of the request",
                  node=fn.node, file=fn.file,
                  instance=f"{fn.qual}: {fld} dominates Σ_g min_power_g")
    # the other side of the lemma: min_power_g as the records carry it (same shape rule as C02.CAP, on the
    # function that plays the availability-ratio role)
    ar = prep(prog, q(prog, "ar"))
    try:
        excl = _roles(prog).ar.get("excl")
    except Wrong:
        excl = None
    recs = _records(prog, ar, regions(ar.node))
    ok = excl is not None and all(_min_power_shape(a, excl) for _r, _p, _e, a in recs)
    run.check(ok, "C02.ADM", ar.qual, "min_power_g = max(b_g, min_i x_i)",
              "a group's minimum power is not max(battery exclusion, smallest inverter exclusion): the "
              "dominance of the enforced exclusion bound over Σ_g min_power_g is not established",
              node=ar.node, file=ar.file)


class _GetAttr(ast.NodeTransformer):
    """`getattr(x, "name")` with a constant name is the attribute read `x.name`."""

    def visit_Call(self, node: ast.Call) -> ast.AST:  # noqa: N802
        self.generic_visit(node)
        if isinstance(node.func, ast.Name) and node.func.id == "getattr" and len(node.args) == 2 and not node.keywords \
                and isinstance(node.args[1], ast.Constant) and isinstance(node.args[1].value, str) \
                and node.args[1].value.isidentifier():
            return ast.copy_location(ast.Attribute(value=node.args[0], attr=node.args[1].value, ctx=ast.Load()), node)
        return node


def _per_group_bound(prog: Program, fld: str, op: str) -> bool:
    """Every result of `_get_bounds` has `<fld> = sum(op(<battery>.power_bounds.<fld>, sum(<inverter>.
    active_power_<fld>_bound for <inverter> in <inverters>)) for <battery>, <inverters> in <pairs parameter>)`
    (operands of op in either order; one clause per comprehension, no filter)."""
    fn = prep(prog, f"{BM}._get_bounds")
    params = _own_params(fn)
    try:
        flds = fields_of(prog, "microgrid._power_distributing.result:PowerBounds")
    except (AnalysisError, KeyError):
        return False
    inv_attr = f"active_power_{fld}_bound"
    n = 0
    for p, _st in regions(fn.node)[0].paths:
        if p.exit != "return":
            continue
        n += 1
        ret = _GetAttr().visit(copy.deepcopy(p.ret)) if p.ret is not None else None
        if not (isinstance(ret, ast.Call) and callee(ret) == "PowerBounds" and params):
            return False
        e = positional(ret, flds).get(fld)
        if not (isinstance(e, ast.Call) and u(e.func) == "sum" and len(e.args) == 1 and not e.keywords
                and isinstance(e.args[0], (ast.GeneratorExp, ast.ListComp)) and len(e.args[0].generators) == 1):
            return False
        g = e.args[0].generators[0]
        if g.ifs or g.is_async or u(g.iter) != params[0] or not (
                isinstance(g.target, ast.Tuple) and len(g.target.elts) == 2 and all(
                    isinstance(x, ast.Name) for x in g.target.elts)):
            return False
        bat, invs = g.target.elts[0].id, g.target.elts[1].id  # type: ignore[attr-defined]

        def is_bat(x: ast.AST) -> bool:
            return u(x) == f"{bat}.power_bounds.{fld}"

        def is_inv(x: ast.AST) -> bool:
            if not (isinstance(x, ast.Call) and u(x.func) == "sum" and len(x.args) == 1 and not x.keywords
                    and isinstance(x.args[0], (ast.GeneratorExp, ast.ListComp)) and len(x.args[0].generators) == 1):
                return False
            c = x.args[0].generators[0]
            return not c.ifs and not c.is_async and isinstance(c.target, ast.Name) and u(c.iter) == invs \
                and u(x.args[0].elt) == f"{c.target.id}.{inv_attr}"

        if not _either(_two(e.args[0].elt, op), is_bat, is_inv):
            return False
    return n > 0


def check_adm_order(run: Run, prog: Program) -> None:
    """Order-domain: whatever _check_request lets through is inside the enforced bounds."""
    from ._admission import explore_admission
    from .c03 import _report_orderings

    def post(it, res, ctx):
        P, zero = ctx["P"], ctx["zero"]
        rejected = getattr(res, "cls", None) == "OutOfBounds"
        if rejected or res is not None:
            return None
        if it.entails("=", P, zero):
            return None  # zero requests are always forwarded
        bad = []
        in_zone = [("<", ctx["el"], P), ("<", P, ctx["eu"])]
        for nz in ([("<", P, zero)], [("<", zero, P)]):
            if it.possible(in_zone + nz):
                bad.append("a non-zero request strictly inside the exclusion zone is admitted")
        if not ctx["adjust"]:
            if it.possible([("<", P, ctx["il"])]) or it.possible([("<", ctx["iu"], P)]):
                bad.append("a non-adjustable request outside the inclusion bounds is admitted")
        return ("bad", sorted(set(bad))) if bad else None

    fn, outs = explore_admission(prog, post)
    run.analysed(fn.qual)
    _report_orderings(run, "C02.ADM", fn, outs, "an admitted request lies outside the exclusion zone "
                      "(and, when not adjustable, inside the inclusion bounds)")
    if len(outs) < 10:
        raise AnalysisError(f"{fn.qual}: only {len(outs)} abstract paths")
    # the bounds used are the aggregated ones of the same data; the power compared is the request's
    try:
        from ._admission import bounds_from_pairs, reached_bounds
    except ImportError:             # older _admission: decide it on the call sites
        bounds_from_pairs = reached_bounds = None  # type: ignore[assignment]
    if reached_bounds is not None:
        # interpreter log: every `_get_bounds(x)` evaluated on a path received the pairs parameter object
        # (followed through helpers / keywords); the power atom of the run originates from request.power
        reached = [o for o in outs if reached_bounds(o)]
        ok = bool(reached) and all(bounds_from_pairs(o) for o in reached)
    else:
        params = _own_params(fn)
        if len(params) < 2:
            raise AnalysisError(f"{fn.qual}: (request, pairs) parameters not found")
        bcalls = find_calls(fn.node, lambda c: method_call(c, "self", "_get_bounds"))
        gb = _own_params(prog.func(f"{BM}._get_bounds"))
        wcalls = find_calls(fn.node, lambda c: method_call(c, None, "as_watts"))
        ok = bool(bcalls) and bool(wcalls) and bool(gb) and all(
            u(positional(c, gb).get(gb[0])) == params[1] for c in bcalls) and all(
            u(c.func.value) == f"{params[0]}.power" for c in wcalls)  # type: ignore[attr-defined]
    run.check(ok, "C02.ADM", fn.qual, "bounds from _get_bounds(pairs_data); power from the request",
              "the admission check does not compare the request's power with the bounds aggregated from "
              "the same component data", node=fn.node, file=fn.file)


class _PowerTo(ast.NodeTransformer):
    """Replace every occurrence of the request's power (as recognised by `is_power`) by one placeholder name."""

    NAME = "P__request"

    def __init__(self, is_power: Any) -> None:
        self.is_power = is_power

    def visit(self, node: ast.AST) -> ast.AST:
        if self.is_power(node):
            return ast.copy_location(ast.Name(id=self.NAME, ctx=ast.Load()), node)
        return super().visit(node)


def _zero_facts(prog: Program, fn: FuncInfo, p: Any, is_power: Any) -> tuple[list[tuple[float | None, str]], list[tuple[float | None, str]]]:
    """What the conditions of a path say about the request being zero: (established "zero to tolerance t",
    established "beyond tolerance t") as (t, text) lists.  A strict sign fact refutes exact zero (t = 0); `not > 0`
    together with `not < 0` establishes exact zero.  The tolerance of a close-to-zero test is resolved as for
    C01.L3 (literals, module / imported / class constants, the helper's own default); None: not a constant."""
    from .c01 import _sign_fact, _zero_test

    sat: list[tuple[float | None, str]] = []
    ref: list[tuple[float | None, str]] = []
    signs: dict[str, str] = {}
    for _k, _ko, atom, _ln, o in p.conds:
        a = _PowerTo(is_power).visit(copy.deepcopy(atom))
        if not any(isinstance(n, ast.Name) and n.id == _PowerTo.NAME for n in ast.walk(a)):
            continue
        for outcome, dst in ((o, sat), (not o, ref)):
            t = _zero_test(prog, fn, a, outcome, _PowerTo.NAME)
            if t is not None:
                dst.append((t[0], f"{u(atom)} is {'true' if o else 'false'}"))
        s = _sign_fact(a, o, _PowerTo.NAME)
        if s is not None:
            signs[s] = f"{u(atom)} is {'true' if o else 'false'}"
    for s in ("pos", "neg"):
        if s in signs:
            ref.append((0.0, signs[s]))
    if "nonpos" in signs and "nonneg" in signs:
        sat.append((0.0, f"{signs['nonpos']} and {signs['nonneg']}"))
    return sat, ref


def check_adm_zero(run: Run, prog: Program) -> None:
    """C02.ADM (zero agreement).  The admission check lets a request that it classifies as *zero* through without
    comparing it with the exclusion bounds ("zero power requests are always forwarded"): that is safe only because the
    algorithm answers such a request with all-zero set-points.  The two sites must therefore agree on what "zero" is:
    every request the admission forwards unchecked (|power| <= t_adm, the widest zero test under which
    `_check_request` accepts) must be recognised as zero by the dispatcher of the algorithm, i.e. every path of
    `distribute_power` that does NOT establish "the request is zero" must have refuted a zero test of tolerance
    >= t_adm.  Otherwise an unchecked request inside the exclusion zone reaches the reservation: every usable group is
    started at its minimum (exclusion-bound) power, the remainder `power - Σ min_power` is negative and the top-up
    takes it back from the first group, which ends inside its exclusion zone or is commanded against its inclusion
    bound."""
    from ..engine.sympath import follower, sym_paths
    from ._admission import check_request_fn
    from ._c15_util import typed_param

    adm = check_request_fn(prog)
    run.analysed(adm.qual)
    req = typed_param(adm, "Request", "request")
    if req is None:
        raise AnalysisError(f"{adm.qual}: no `Request` parameter")

    def adm_power(n: ast.AST) -> bool:
        # `<request>.power.as_watts()`: the requested power in watts (the unit the algorithm is called with, C01.B)
        return isinstance(n, ast.Call) and not n.args and not n.keywords and isinstance(n.func, ast.Attribute) \
            and n.func.attr == "as_watts" and isinstance(n.func.value, ast.Attribute) and n.func.value.attr == "power" \
            and isinstance(n.func.value.value, ast.Name) and n.func.value.value.id == req

    t_adm: float | None = None
    adm_text = ""
    adm_path: Any = None
    for p in sym_paths(adm.node, follow=follower(prog, adm)):
        accepted = p.exit == "fall" or (p.exit == "return" and (
            p.ret is None or (isinstance(p.ret, ast.Constant) and p.ret.value is None)))
        if not accepted:
            continue
        sat, _ref = _zero_facts(prog, adm, p, adm_power)
        if not sat:
            continue
        if any(t is None for t, _x in sat):
            raise AnalysisError(f"{adm.qual}: the tolerance of the zero-request test `{sat[0][1]}` is not a compile-time "
                                "constant: which requests are forwarded unchecked cannot be decided")
        t, text = min(sat, key=lambda x: x[0])      # several tests on one path: the tightest decides
        if t_adm is None or t > t_adm:              # several accepting paths: the widest decides
            t_adm, adm_text, adm_path = t, text, p
    dp = prep(prog, f"{BDA}.distribute_power")
    run.analysed(dp.qual)
    params = _own_params(dp)
    if not params:
        raise AnalysisError(f"{dp.qual}: no request parameter")
    power = params[0]
    if t_adm is None:
        run.ok("C02.ADM", f"{adm.qual}: no request is accepted on the strength of a zero test (nothing is forwarded unchecked)")
        return

    def alg_power(n: ast.AST) -> bool:
        return isinstance(n, ast.Name) and n.id == power and isinstance(n.ctx, ast.Load)

    n = 0
    bad: list[tuple[Any, float | None, str]] = []
    for p, _st in regions(dp.node)[0].paths:
        if p.exit != "return":
            continue
        sat, ref = _zero_facts(prog, dp, p, alg_power)
        if sat:
            continue        # the request is established zero here: what this path answers is C01.L3's matter
        n += 1
        known = [(t, x) for t, x in ref if t is not None]
        if ref and not known:
            raise AnalysisError(f"{dp.qual}: the tolerance of the zero-request test `{ref[0][1]}` is not a compile-time constant")
        best = max(known, key=lambda x: x[0]) if known else (None, "no test of the request against zero")
        if best[0] is None or best[0] < t_adm:
            bad.append((p, best[0], best[1]))
    if n < 1:
        raise AnalysisError(f"{dp.qual}: no path that treats the request as non-zero")
    p0, got, why = bad[0] if bad else (None, None, "")
    run.check(not bad, "C02.ADM", dp.qual,
              f"a request is allocated only after `not zero to {t_adm} W` was established ({why or 'every path'})",
              f"{adm.qual.split(':')[-1]} forwards every request with |power| <= {t_adm} W without comparing it with the "
              f"exclusion bounds (`{adm_text}`: zero requests are always forwarded), relying on the algorithm to answer "
              f"such a request with all-zero set-points; but {dp.name} hands a request on to the allocation on a path that "
              f"has only established `{why}`, i.e. that the request is not zero to "
              f"{got if got is not None else 'any'} W: a request of a magnitude in between (float noise of target "
              "arithmetic upstream, e.g. (0.3 - 0.1 - 0.2) kW = -2.8e-14 W) is admitted unchecked AND allocated -- every "
              "usable group is started at its minimum (exclusion-bound) power and the negative remainder is taken back "
              "from the first group, which ends inside its exclusion zone or beyond the inclusion bound of a charge-only / "
              "discharge-only battery.  Excluded alike: a dispatch on the bare sign (`> 0` / `< 0`), an exact `== 0` test, a "
              "tighter tolerance in the algorithm, a wider tolerance (argument, named constant, `abs(p) < eps`) in the "
              "admission check",
              node=at(p0.conds[-1][3] if p0 is not None and p0.conds else dp.node.lineno), file=dp.file,
              path=(["admission:"] + adm_path.describe() + ["algorithm:"] + p0.describe()) if p0 is not None else None,
              instance=f"{dp.qual}: what the admission forwards unchecked as zero (|p| <= {t_adm} W) is answered as zero")


def check_pure(run: Run, prog: Program) -> None:
    """The distribution algorithm keeps no state between calls (bounds are never memoised)."""
    cls = prog.cls(BDA)
    n = 0
    for m in cls.methods.values():
        if m.name == "__init__":
            continue
        n += 1
        bad = []
        for node in body_walk(m.node):
            tgts = []
            if isinstance(node, ast.Assign):
                tgts = node.targets
            elif isinstance(node, (ast.AugAssign, ast.AnnAssign)):
                tgts = [node.target]
            for t in tgts:
                for x in ast.walk(t):
                    if isinstance(x, ast.Attribute) and u(x.value) == "self":
                        bad.append(node)
            if isinstance(node, ast.Call) and isinstance(node.func, ast.Attribute) and isinstance(
                    node.func.value, ast.Attribute) and u(node.func.value.value) == "self" and node.func.attr in (
                    "append", "update", "setdefault", "add", "extend", "pop", "clear", "insert"):
                bad.append(node)
        for b in bad:
            run.violation("C02.PURE", m.qual, b,
                          "the distribution algorithm stores state on the long-lived instance: results of "
                          "a later call can depend on bounds/data of an earlier one (stale bounds after a "
                          "battery derates)", node=b, file=m.file)
        if not bad:
            run.ok("C02.PURE", f"{m.qual}: writes no instance state")
    if n < 8:
        raise AnalysisError("C02.PURE: BatteryDistributionAlgorithm methods not found")


CONTROLS = [
    ("admission forgets the exclusion zone when not adjusting",
     "microgrid._power_distributing._component_managers._battery_manager",
     "            if not (in_lower_range or in_upper_range):",
     "            if not (bounds.inclusion_lower <= power <= bounds.inclusion_upper):", "C02.ADM"),
    ("exclusion test closed on one edge for adjustable requests",
     "microgrid._power_distributing._component_managers._battery_manager",
     "            if bounds.exclusion_lower < power < bounds.exclusion_upper:",
     "            if bounds.exclusion_lower < power < bounds.exclusion_lower:", "C02.ADM"),
    ("memoised bounds", MOD,
     "        incl_bounds: dict[int, float] = {}\n        excl_bounds: dict[int, float] = {}\n        for battery, inverters in components:\n            if supply:",
     "        self._last_components = components\n        incl_bounds: dict[int, float] = {}\n        excl_bounds: dict[int, float] = {}\n        for battery, inverters in components:\n            if supply:",
     "C02.PURE"),
    ("available SoC clamp removed", MOD,
     "            available_soc[battery.component_id] = max(\n                0.0, battery.soc_upper_bound - battery.soc\n            )",
     "            available_soc[battery.component_id] = (\n                battery.soc_upper_bound - battery.soc\n            )",
     "C02.AVAIL"),
    ("top-up uses max instead of min", MOD,
     "additional_power = min(power.upper_bound - power.power, remaining_power)",
     "additional_power = max(power.upper_bound - power.power, remaining_power)", "C02.CAP"),
    ("inverter exclusion guard dropped", MOD,
     "                        not is_close_to_zero(remaining_power)\n                        and excl_bounds[inverter_id] <= remaining_power\n",
     "                        not is_close_to_zero(remaining_power)\n", "C02.INV"),
    ("supply path uses the upper SoC limit", MOD,
     "                0.0, battery.soc - battery.soc_lower_bound\n",
     "                0.0, battery.soc_upper_bound - battery.soc\n", "C02.AVAIL"),
    ("admission check skipped for adjustable requests",
     "microgrid._power_distributing._component_managers._battery_manager",
     "        error = self._check_request(request, pairs_data)\n        if error:\n            return error\n",
     "        error = None\n        if not request.adjust_power:\n            error = self._check_request(request, pairs_data)\n        if error:\n            return error\n",
     "C02.ADM"),
    ("a group skipped for lack of headroom is booked with its minimum power", MOD,
     "                    power=0.0,\n                )\n                continue\n",
     "                    power=0.0,\n                )\n                distributed_power += ratio_data.min_power\n"
     "                continue\n", "C02.BOOK"),
    ("deficit covering zeroes the entry of the group in deficit instead of the donor's", MOD,
     "                    excess_reserved[largest.inverter_ids] = 0.0\n",
     "                    excess_reserved[inverter_ids] = 0.0\n", "C02.BOOK"),
    ("upper SoC limit aggregated without the capacity weights", MOD,
     "                sum(b.soc_upper_bound * b.capacity for b in batteries) / self.capacity\n",
     "                sum(b.soc_upper_bound for b in batteries) / len(batteries)\n", "C02.SOCAGG"),
    ("reservation raised by min(share, min_power)", MOD,
     "            reserved_power += max(calculated_power, ratio_data.min_power)\n",
     "            reserved_power += min(calculated_power, ratio_data.min_power)\n", "C02.RES"),
    ("share classification negated (reserve above the cap)", MOD,
     "            if calculated_power > incl_bound:\n", "            if not calculated_power > incl_bound:\n", "C02.RES"),
    ("share taken from request plus reserved", MOD,
     "            power_to_distribute = power_w - reserved_power\n",
     "            power_to_distribute = power_w + reserved_power\n", "C02.RES"),
    ("shortfall of a share below min_power not recorded", MOD,
     "                deficits[inverter_set] = calculated_power - ratio_data.min_power\n",
     "                pass\n", "C02.RES"),
    ("consume path asks for the supply tables", MOD,
     "            components, supply=False\n", "            components, supply=True\n", "C02.TAB"),
    ("inverter inclusion bound widened to the battery's", MOD,
     "                    incl_bounds[inverter.component_id] = min(\n",
     "                    incl_bounds[inverter.component_id] = max(\n", "C02.TAB"),
    ("supply set-points not negated back", MOD,
     "            result.distribution[inverter_id] *= -1\n", "            result.distribution[inverter_id] *= 1\n",
     "C02.SIGN"),
    ("supply request handed on without its sign flipped", MOD,
     "            components, -1 * power_w, available_soc, incl_bounds, excl_bounds\n",
     "            components, power_w, available_soc, incl_bounds, excl_bounds\n", "C02.SIGN"),
    ("nothing-available exit commands a power", MOD,
     "                inverter.component_id: 0.0\n                for _, inverters in components\n"
     "                for inverter in inverters\n            }\n            return DistributionResult(final_distribution",
     "                inverter.component_id: 1.0\n                for _, inverters in components\n"
     "                for inverter in inverters\n            }\n            return DistributionResult(final_distribution",
     "C02.AVAIL"),
    ("distributed-power ledger starts at one", MOD,
     "        distributed_power: float = 0.0\n", "        distributed_power: float = 1.0\n", "C02.BOOK"),
    ("deficit covering loop guard negated", MOD,
     "            while not is_close_to_zero(deficit) and deficit < 0.0:\n",
     "            while is_close_to_zero(deficit) or not deficit < 0.0:\n", "C02.BOOK"),
    ("group inclusion bound aggregated as widest member times count", MOD,
     "    power_inclusion_upper_bound = math.fsum(\n        bounds.inclusion_upper for bounds in battery_metrics\n    )\n",
     "    power_inclusion_upper_bound = max(\n        bounds.inclusion_upper for bounds in battery_metrics\n"
     "    ) * len(battery_metrics)\n", "C02.GRP"),
    ("group exclusion bound aggregated as a plain sum", MOD,
     "    power_exclusion_upper_bound = max(\n        bounds.exclusion_upper for bounds in battery_metrics\n"
     "    ) * len(battery_metrics)\n",
     "    power_exclusion_upper_bound = sum(\n        bounds.exclusion_upper for bounds in battery_metrics\n    )\n",
     "C02.GRP"),
    ("per-battery record takes the inclusion bound from the exclusion field", MOD,
     "                        inclusion_upper=metrics.power_inclusion_upper_bound,\n",
     "                        inclusion_upper=metrics.power_exclusion_upper_bound,\n", "C02.GRP"),
    ("adjustable requests tested with abs() against the upper exclusion bound only",
     "microgrid._power_distributing._component_managers._battery_manager",
     "            if bounds.exclusion_lower < power < bounds.exclusion_upper:",
     "            if abs(power) < bounds.exclusion_upper:", "C02.ADM"),
    ("algorithm dispatches on the bare sign (only an exact 0.0 is answered as zero)", MOD,
     "        if is_close_to_zero(power):\n            return DistributionResult(",
     "        if power == 0.0:\n            return DistributionResult(", "C02.ADM"),
    ("admission forwards sub-milliwatt requests unchecked as zero",
     "microgrid._power_distributing._component_managers._battery_manager",
     "        if is_close_to_zero(power):\n            return None\n",
     "        if is_close_to_zero(power, abs_tol=1e-3):\n            return None\n", "C02.ADM"),
    ("split arm stores no set-point", MOD,
     "                        new_distribution[inverter_id] = new_power\n", "                        pass\n", "C02.INV"),
]


_NEEDS_ROLES = ("check_cap", "check_inv", "check_avail", "check_tab", "check_sign")


def _guarded(f: Any, run: Run, prog: Program) -> None:
    """Run one rule function; an anchor that is understood but recognisably wrong is a violation, and the
    rules that need the roles bound through it are skipped (it is reported once)."""
    try:
        if f.__name__ in _NEEDS_ROLES:
            _roles(prog)
    except Wrong as w:
        if not any(v.rule == w.rule and v.function == w.function and v.message == w.message for v in run.violations):
            run.violation(w.rule, w.function, w.construct, w.message, node=at(w.lineno), file=w.file)
        return
    try:
        f(run, prog)
    except Wrong as w:
        run.violation(w.rule, w.function, w.construct, w.message, node=at(w.lineno), file=w.file)


def run_rules(run: Run, prog: Program) -> None:
    for f in (check_cap, check_inv, check_avail, check_exits, check_tab, check_sign):
        _guarded(f, run, prog)
    _run_rest(run, prog)


def _run_rest(run: Run, prog: Program) -> None:
    _guarded(check_book, run, prog)
    check_soc_agg(run, prog)
    check_group_bounds(run, prog)
    check_adm(run, prog)
    check_adm_min(run, prog)
    check_adm_order(run, prog)
    check_adm_zero(run, prog)
    check_pure(run, prog)
    _guarded(check_group_total, run, prog)


def _rules_for(rule_id: str):
    """The rule functions that can report `rule_id` (a control re-runs only those)."""
    table = {
        "C02.CAP": (check_cap,), "C02.INV": (check_inv,), "C02.AVAIL": (check_cap, check_avail, check_exits),
        "C02.BOOK": (check_book,), "C02.RES": (check_book,), "C02.SOCAGG": (check_soc_agg,),
        "C02.TAB": (check_tab,), "C02.SIGN": (check_sign,), "C02.GRP": (check_group_bounds,),
        "C02.ADM": (check_adm, check_adm_min, check_adm_order, check_adm_zero), "C02.PURE": (check_pure,),
        "C02.GRPX": (check_group_total,),
    }
    fns = table.get(rule_id)
    if fns is None:
        return run_rules

    def run_selected(run: Run, prog: Program) -> None:
        for f in fns:
            _guarded(f, run, prog)
    return run_selected


def check(run: Run, prog: Program, tier: str) -> str:
    run.rule("C02.CAP", "top-up increments are min(upper_bound - power, …) of the same cell; caps and "
             "minimum powers have the documented min/max shape")
    run.rule("C02.INV", "non-zero inverter set-points are guarded by excl[i] <= remaining and equal "
             "min(incl[i], remaining); otherwise zero")
    run.rule("C02.AVAIL", "SoC headroom is clamped at zero per direction and every non-zero "
             "allocation is control-dependent on that set's own availability ratio")
    run.rule("C02.ADM", "the admission check dominates the distribution, its error is returned, and (order "
             "domain) whatever it admits is outside the exclusion zone / inside the inclusion bounds; what it forwards "
             "unchecked as a zero request is answered as zero by the algorithm (same or wider zero tolerance)")
    run.rule("C02.PURE", "the distribution algorithm writes no instance state outside __init__")
    run.rule("C02.BOOK", "per path of the reservation loops the distributed-power ledger changes by what the "
             "cells receive, and deficit covering moves reserve from the donor's entry to the deficit")
    run.rule("C02.SOCAGG", "a group's SoC and its two SoC limits are the same aggregate of the batteries' values")
    run.rule("C02.GRP", "a battery group's inclusion bounds are the sums of its members' inclusion bounds, its exclusion "
             "bounds the extreme member bound times the member count, from each battery's own four bounds")
    run.rule("C02.RES", "per allocating path: the reservation ledger grows by max(share, min_power), the share is "
             "(request - reserved) * own ratio / ..., the stored reserve lies in [0, cap - min_power], a share below "
             "min_power records its deficit")
    run.rule("C02.TAB", "the bound tables hold each component's own bound of the table's kind in the requested "
             "direction (upper / negated lower); the entry points ask for their own direction")
    run.rule("C02.GRPX", "a rest the greedy per-inverter split strands is examined before it is booked as undistributed (the "
             "group's total = allocation - rest must stay outside the battery's exclusion zone): open finding F17")
    run.rule("C02.SIGN", "consume: request unchanged, result untouched; supply: request negated, every set-point "
             "negated back")
    run_rules(run, prog)
    run.floor("C02.CAP", 4)
    run.floor("C02.INV", 4)
    run.floor("C02.AVAIL", 7)
    run.floor("C02.ADM", 12)
    run.floor("C02.PURE", 8)
    run.floor("C02.BOOK", 3)
    run.floor("C02.SOCAGG", 1)
    run.floor("C02.RES", 5)
    run.floor("C02.TAB", 6)
    run.floor("C02.SIGN", 4)
    run.floor("C02.GRP", 5)
    from ..engine.controls import run_controls

    run_controls(run, CONTROLS, run_rules, tier, base_prog=prog, select=_rules_for)
    run.undecided("that proportional shares stay between minimum power and the inclusion bound for "
                  "every real input, and group totals after deficit covering (relational numeric "
                  "invariants over dict-indexed cells)")
    return ("Term-shape rules on caps, minimum powers and SoC headroom plus guard-dominance rules on "
            "the CFGs of the allocation loop, the greedy top-up and the per-inverter split. Decides "
            "the cap/guard discipline that the bounds property needs, not the numeric shares.")
