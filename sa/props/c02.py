"""C02  No inverter or battery group is commanded outside its power bounds — cap/guard discipline.

  C02.CAP    every increment of an allocation cell in the greedy top-up is min(upper_bound - power, …);
             cells are created with upper_bound = min(Σ inverter incl, battery incl) and
             power = max(battery excl, min_i inverter excl).
  C02.INV    in the per-inverter split a non-zero store is guarded by excl[i] <= remaining and its
             value is min(incl[i], remaining); all other paths store 0.
  C02.AVAIL  available SoC is max(0, upper - soc) / max(0, soc - lower) and every non-zero
             allocation to an inverter set is control-dependent on a test of *that set's own*
             availability ratio.
  C02.ADM    the request admission check precedes the distribution on every path.
The numeric range of the proportional shares is not decided.
"""
from __future__ import annotations

import ast
import re

from ..engine.cfg import CFG
from ..engine.report import AnalysisError, Run
from ..engine.resolver import Program, body_walk, walk_no_nested
from ..engine.terms import Poly, TermEval
from ..engine.util import find_calls, method_call, node_has_call, nodes_with_call, u
from .c01 import BDA, BM, MOD, Ledgers


def _is_zero_test(test: ast.AST, operand_pred) -> tuple[bool, bool] | None:
    """If `test` (possibly a disjunction) contains is_close_to_zero(X) with operand_pred(X):
    returns (found, zero_side_is_true)."""
    for x in ast.walk(test):
        if isinstance(x, ast.Call) and u(x.func) in ("is_close_to_zero", "math.isclose") and x.args \
                and operand_pred(x.args[0]):
            return True, True
        if isinstance(x, ast.Compare) and len(x.ops) == 1 and operand_pred(x.left) \
                and u(x.comparators[0]) in ("0", "0.0") and isinstance(x.ops[0], (ast.Eq, ast.LtE)):
            return True, True
    return None


def check_cap(run: Run, prog: Program) -> None:
    te = TermEval()
    gr = prog.func(f"{BDA}._greedy_distribute_remaining_power")
    run.analysed(gr.qual)
    lg = Ledgers(gr)
    n = 0
    for suite in lg.suites:
        for s, delta in lg.cell_deltas(suite):
            if delta.is_zero():
                continue
            n += 1
            # the increment must be a local defined as min(<cell>.upper_bound - <cell>.power, ...)
            cell = u(s.target.value) if isinstance(s, ast.AugAssign) and isinstance(s.target, ast.Attribute) else None  # type: ignore[union-attr]
            val = s.value if isinstance(s, ast.AugAssign) else None
            if isinstance(val, ast.Name):
                defs = [d for d in suite if isinstance(d, ast.Assign) and u(d.targets[0]) == val.id]
                val = defs[-1].value if defs else val
            ok = False
            if cell and isinstance(val, ast.Call) and u(val.func) == "min":
                head = Poly.atom(f"{cell}.upper_bound") - Poly.atom(f"{cell}.power")
                ok = any(te.ev(a) == head for a in val.args) and len(val.args) >= 2
            run.check(ok, "C02.CAP", gr.qual, s,
                      "an allocation is topped up by an amount that is not capped by "
                      "`upper_bound - power` of that same cell: the group can exceed its inclusion "
                      "bound", node=s, file=gr.file)
    if n < 1:
        raise AnalysisError(f"{gr.qual}: no top-up increment found")
    # top-up skips cells that hold zero (no availability) and stops when nothing remains
    cfg = CFG(gr.node, gr.file)
    incs = [x.id for x in cfg.nodes if x.kind == "stmt" and isinstance(x.ast, ast.AugAssign)
            and isinstance(x.ast.target, ast.Attribute) and x.ast.target.attr == "power"]
    for inc in incs:
        cell = u(cfg.nodes[inc].ast.target.value)  # type: ignore[union-attr]
        guards = []
        for t in cfg.nodes:
            if t.kind != "test" or t.ast is None:
                continue
            hit = _is_zero_test(t.ast, lambda e, c=cell: u(e) == f"{c}.power")
            if hit:
                # increment must not be reachable through the zero side within the iteration
                zero_side = [m for m, lab in cfg.succ[t.id] if lab == "true"]
                loops = [h.id for h in cfg.nodes if h.kind == "for"]
                if not any(inc in cfg.reachable([z], avoid=loops) for z in zero_side):
                    guards.append(t.id)
        wit = cfg.path(cfg.entry, [inc], avoid=guards)
        run.check(bool(guards) and wit is None, "C02.AVAIL", gr.qual, cfg.nodes[inc].ast,
                  "the greedy top-up can add power to a set whose allocation is zero (no SoC "
                  "headroom / no capacity): the `power.power ≈ 0 → skip` guard is missing",
                  node=cfg.nodes[inc].ast, file=gr.file, path=cfg.describe_path(wit),
                  instance=f"{gr.qual}: top-up skips zero-allocation sets")

    # cell creation in _distribute_power
    dp = prog.func(f"{BDA}._distribute_power")
    run.analysed(dp.qual)
    creations = [c for c in find_calls(dp.node, lambda c: u(c.func) == "_Power")]
    nonzero = []
    for c in creations:
        kws = {k.arg: k.value for k in c.keywords}
        if te.ev(kws["power"]).is_zero() and te.ev(kws["upper_bound"]).is_zero():
            continue
        nonzero.append((c, kws))
    if len(nonzero) != 1:
        raise AnalysisError(f"{dp.qual}: expected one non-zero _Power creation, found {len(nonzero)}")
    c, kws = nonzero[0]
    ub = kws["upper_bound"]
    ubdef = ub
    if isinstance(ub, ast.Name):
        ds = [s for s in body_walk(dp.node) if isinstance(s, ast.Assign) and u(s.targets[0]) == ub.id]
        ubdef = ds[-1].value if ds else ub
    loopvar = None
    for s in body_walk(dp.node):
        if isinstance(s, ast.For) and any(x is c for x in ast.walk(s)):
            loopvar = u(s.target)
    ok = False
    if isinstance(ubdef, ast.Call) and u(ubdef.func) == "min" and len(ubdef.args) == 2 and loopvar:
        txt = sorted(u(a).replace(" ", "") for a in ubdef.args)
        want = sorted([f"incl_bounds[{loopvar}.battery_id]",
                       f"sum((incl_bounds[inverter_id]forinverter_idin{loopvar}.inverter_ids))"])
        ok = txt == want
    run.check(ok, "C02.CAP", dp.qual, f"upper_bound = {u(ubdef)}",
              "a group's cap is not min(Σ inverter inclusion bounds, battery inclusion bound)",
              node=c, file=dp.file)
    ok = u(kws["power"]) == f"{loopvar}.min_power"
    run.check(ok, "C02.CAP", dp.qual, f"power = {u(kws['power'])}",
              "a group's initial allocation is not its minimum power", node=c, file=dp.file)
    # min_power definition
    ar = prog.func(f"{BDA}._compute_battery_availability_ratio")
    run.analysed(ar.qual)
    ctor = find_calls(ar.node, lambda c: u(c.func) == "AvailabilityRatio")
    ok = False
    if len(ctor) == 1:
        mp = {k.arg: k.value for k in ctor[0].keywords}.get("min_power")
        if isinstance(mp, ast.Call) and u(mp.func) == "max" and len(mp.args) == 2:
            txt = sorted(u(a).replace(" ", "") for a in mp.args)
            ok = txt == sorted(["excl_bounds[battery.component_id]",
                                "min((excl_bounds[inverter_id]forinverter_idininverter_ids))"])
    run.check(ok, "C02.CAP", ar.qual, "min_power = max(excl[battery], min_i excl[inverter_i])",
              "a group's minimum power is not max(battery exclusion bound, smallest inverter "
              "exclusion bound): allocations can fall inside an exclusion zone", node=ar.node,
              file=ar.file)


def check_inv(run: Run, prog: Program) -> None:
    fn = prog.func(f"{BDA}._distribute_multi_inverter_pairs")
    run.analysed(fn.qual)
    cfg = CFG(fn.node, fn.file)
    lg = Ledgers(fn)
    te = TermEval()
    stores = [n for n in cfg.nodes if n.kind == "stmt" and isinstance(n.ast, ast.Assign)
              and isinstance(n.ast.targets[0], ast.Subscript) and u(n.ast.targets[0].value) in lg.cell_dicts]
    if len(stores) < 3:
        raise AnalysisError(f"{fn.qual}: expected >=3 set-point stores, found {len(stores)}")
    for n in stores:
        s = n.ast
        key = u(s.targets[0].slice)  # type: ignore[union-attr]
        val = s.value  # type: ignore[union-attr]
        vdef = val
        if isinstance(val, ast.Name):
            defs = [d for d in body_walk(fn.node) if isinstance(d, ast.Assign) and u(d.targets[0]) == val.id]
            vdef = defs[-1].value if defs else val
        if te.ev(vdef).is_zero():
            run.ok("C02.INV", f"{fn.qual}: `{n.text(60)}` stores zero")
            continue
        if isinstance(vdef, ast.Attribute) and vdef.attr == "power":
            # single inverter: the whole (already capped) group allocation
            single = [t for t in cfg.nodes if t.kind == "test" and "len(" in t.label and "== 1" in t.label]
            wit = cfg.path(cfg.entry, [n.id], avoid=[t.id for t in single])
            run.check(bool(single) and wit is None, "C02.INV", fn.qual, s,
                      "a whole group allocation is assigned to one inverter outside the "
                      "single-inverter case", node=s, file=fn.file)
            continue
        comp = sorted(lg.complements)
        ok_val = isinstance(vdef, ast.Call) and u(vdef.func) == "min" and len(vdef.args) == 2 and sorted(
            u(a) for a in vdef.args) == sorted([f"incl_bounds[{key}]", comp[0] if comp else "?"])
        run.check(ok_val, "C02.INV", fn.qual, f"{u(s.targets[0])} = {u(vdef)}",  # type: ignore[union-attr]
                  "a non-zero inverter set-point is not min(inclusion bound of that inverter, "
                  "remaining group power)", node=s, file=fn.file)
        # guard: excl_bounds[key] <= remaining on the path
        guards = []
        for t in cfg.nodes:
            if t.kind != "test" or t.ast is None:
                continue
            for x in ast.walk(t.ast):
                if isinstance(x, ast.Compare) and len(x.ops) == 1:
                    l, r, op = u(x.left), u(x.comparators[0]), x.ops[0]
                    if (l == f"excl_bounds[{key}]" and comp and r == comp[0] and isinstance(op, (ast.LtE, ast.Lt))) or (
                            r == f"excl_bounds[{key}]" and comp and l == comp[0] and isinstance(op, (ast.GtE, ast.Gt))):
                        # must be a conjunct (not under `or`)
                        if not any(isinstance(b, ast.BoolOp) and isinstance(b.op, ast.Or)
                                   for b in ast.walk(t.ast)):
                            f_side = [m for m, lab in cfg.succ[t.id] if lab == "false"]
                            if not any(n.id in cfg.reachable([f], avoid=[h.id for h in cfg.nodes if h.kind == "for"])
                                       for f in f_side):
                                guards.append(t.id)
        wit = cfg.path(cfg.entry, [n.id], avoid=guards)
        run.check(bool(guards) and wit is None, "C02.INV", fn.qual, f"guard of {u(s.targets[0])}",  # type: ignore[union-attr]
                  "a non-zero inverter set-point is stored without the guard `excl_bounds[i] <= "
                  "remaining`: an inverter can be commanded inside its exclusion zone",
                  node=s, file=fn.file, path=cfg.describe_path(wit))


def check_avail(run: Run, prog: Program) -> None:
    te = TermEval()
    for fname, want in (("_distribute_consume_power", ("battery.soc_upper_bound", "battery.soc")),
                        ("_distribute_supply_power", ("battery.soc", "battery.soc_lower_bound"))):
        fn = prog.func(f"{BDA}.{fname}")
        run.analysed(fn.qual)
        stores = [s for s in body_walk(fn.node) if isinstance(s, ast.Assign)
                  and isinstance(s.targets[0], ast.Subscript) and u(s.targets[0].value) == "available_soc"]
        ok = len(stores) == 1
        if ok:
            v = stores[0].value
            ok = isinstance(v, ast.Call) and u(v.func) == "max" and len(v.args) == 2 and any(
                te.ev(a).is_zero() for a in v.args) and any(
                te.ev(a) == Poly.atom(want[0]) - Poly.atom(want[1]) for a in v.args) \
                and u(stores[0].targets[0].slice) == "battery.component_id"  # type: ignore[union-attr]
        run.check(ok, "C02.AVAIL", fn.qual, f"available_soc[battery] = max(0.0, {want[0]} - {want[1]})",
                  "the SoC headroom in the requested direction is not clamped at zero / uses the "
                  "wrong limit: a battery at or beyond its SoC limit keeps a positive share",
                  node=fn.node, file=fn.file)
        # the same dict reaches _distribute_power
        calls = find_calls(fn.node, lambda c: method_call(c, "self", "_distribute_power"))
        ok = len(calls) == 1 and len(calls[0].args) >= 3 and u(calls[0].args[2]) == "available_soc"
        run.check(ok, "C02.AVAIL", fn.qual, "available_soc handed to _distribute_power",
                  "the clamped headroom is not what the allocation routine receives", node=fn.node,
                  file=fn.file)
    # ratio is built from that availability
    ar = prog.func(f"{BDA}._compute_battery_availability_ratio")
    txt = u(ar.node).replace(" ", "")
    ok = "pow(available_soc[battery.component_id],self._distributor_exponent)" in txt and \
        "ratio=capacity_ratio*soc_factor" in txt
    run.check(ok, "C02.AVAIL", ar.qual, "ratio = capacity_ratio * available_soc ** exponent",
              "a set's availability ratio is not proportional to a power of its own SoC headroom "
              "(zero headroom must give ratio zero)", node=ar.node, file=ar.file)
    # every non-zero cell creation in the main loop depends on the element's own ratio
    dp = prog.func(f"{BDA}._distribute_power")
    cfg = CFG(dp.node, dp.file)
    loops = [h for h in cfg.nodes if h.kind == "for" and u(h.ast.iter) == "battery_availability_ratio"]  # type: ignore[union-attr]
    if len(loops) != 1:
        raise AnalysisError(f"{dp.qual}: allocation loop over battery_availability_ratio not found")
    h = loops[0]
    lv = u(h.ast.target)  # type: ignore[union-attr]
    body = cfg.reachable([m for m, lab in cfg.succ[h.id] if lab == "iter"], avoid=[h.id])
    creations = []
    for x in body:
        n = cfg.nodes[x]
        if n.kind == "stmt" and node_has_call(cfg, x, lambda c: u(c.func) == "_Power"):
            c = find_calls(n.ast, lambda c: u(c.func) == "_Power")[0]  # type: ignore[arg-type]
            kws = {k.arg: k.value for k in c.keywords}
            if not te.ev(kws["power"]).is_zero():
                creations.append(n)
    if not creations:
        raise AnalysisError(f"{dp.qual}: no non-zero allocation in the loop")
    for n in creations:
        guards = []
        for t in body:
            tn = cfg.nodes[t]
            if tn.kind != "test" or tn.ast is None:
                continue
            hit = _is_zero_test(tn.ast, lambda e: u(e) == f"{lv}.ratio")
            if not hit:
                continue
            # zero side (true) must not reach the creation within the iteration
            zero_side = [m for m, lab in cfg.succ[t] if lab == "true"]
            if any(n.id in cfg.reachable([z], avoid=[h.id]) for z in zero_side):
                continue
            # on the zero side a zero cell is stored for the set
            guards.append(t)
        first = [m for m, lab in cfg.succ[h.id] if lab == "iter"][0]
        wit = cfg.path(first, [n.id], avoid=guards + [h.id]) if first not in guards else None
        run.check(bool(guards) and wit is None, "C02.AVAIL", dp.qual, n.ast,
                  f"an inverter set receives a non-zero allocation ({lv}.min_power) on a path that "
                  f"never tests that set's own availability `{lv}.ratio`: the only zero-test in the "
                  "loop looks at the remaining *total* ratio, so a battery with no SoC headroom "
                  "(ratio 0) that is not last in the order is still charged/discharged",
                  node=n.ast, file=dp.file, path=cfg.describe_path(wit),
                  instance=f"{dp.qual}: non-zero allocation depends on {lv}.ratio")


def check_adm(run: Run, prog: Program) -> None:
    fn = prog.func(f"{BM}._get_distribution")
    run.analysed(fn.qual)
    cfg = CFG(fn.node, fn.file)
    checks = nodes_with_call(cfg, lambda c: method_call(c, "self", "_check_request"))
    dists = nodes_with_call(cfg, lambda c: method_call(c, "self", "_get_power_distribution"))
    if not checks or not dists:
        raise AnalysisError(f"{fn.qual}: _check_request/_get_power_distribution call sites not found")
    wit = cfg.path(cfg.entry, dists, avoid=checks)
    run.check(wit is None, "C02.ADM", fn.qual, "self._check_request(...) before self._get_power_distribution(...)",
              "a request can be distributed without passing the bounds admission check",
              node=fn.node, file=fn.file, path=cfg.describe_path(wit))
    # an error result of the check is returned, not ignored
    s = cfg.nodes[checks[0]].ast
    name = u(s.targets[0]) if isinstance(s, ast.Assign) else None
    ok = False
    if name:
        tests = [t for t in cfg.nodes if t.kind == "test" and u(t.ast) in (name, f"{name} is not None")]
        if len(tests) == 1:
            t = tests[0]
            t_side = [m for m, lab in cfg.succ[t.id] if lab == "true"]
            ok = bool(t_side) and isinstance(cfg.nodes[t_side[0]].ast, ast.Return) \
                and u(cfg.nodes[t_side[0]].ast.value) == name and not any(  # type: ignore[union-attr]
                    d in cfg.reachable(t_side) for d in dists)
    run.check(ok, "C02.ADM", fn.qual, "if error: return error",
              "a rejected request is still distributed", node=fn.node, file=fn.file)
    # both the data passed to the check and to the distribution are the same
    c1 = find_calls(fn.node, lambda c: method_call(c, "self", "_check_request"))[0]
    c2 = find_calls(fn.node, lambda c: method_call(c, "self", "_get_power_distribution"))[0]
    run.check([u(a) for a in c1.args] == [u(a) for a in c2.args], "C02.ADM", fn.qual,
              "same (request, pairs_data) checked and distributed",
              "the admission check and the distribution see different data", node=fn.node, file=fn.file)


def check_adm_min(run: Run, prog: Program) -> None:
    """The exclusion bound enforced at admission dominates the sum of the groups' minimum powers.

    Lemma (all exclusion magnitudes >= 0):  Σ_g max(b_g, Σ_i x_gi) >= Σ_g max(b_g, min_i x_gi) = Σ_g min_power_g,
    so an admitted request never makes the reservation loop over-commit.  `max(Σ_g b_g, Σ_gi x_gi)`
    does NOT dominate it (battery-dominated and inverter-dominated groups mixed)."""
    from .c17 import enforced, min_power_shape_ok
    enf = enforced(prog)
    fn = enf["fn"]
    run.analysed(fn.qual)
    for fld, key, op in (("exclusion_upper", "eu", "max"), ("exclusion_lower", "el", "min")):
        e = enf["terms"].get(fld)
        ok = e == ("sum_g", op, (("leaf", ("bat", key)), ("sum_i", ("inv", key))))
        run.check(ok, "C02.ADM", fn.qual, f"{fld} = Σ_g {op}(battery aggregate, Σ_i inverter)",
                  f"the {fld.replace('_', ' ')} bound enforced at admission is not the per-group "
                  f"{op}(battery exclusion, Σ inverter exclusion) summed over the groups (found {e}): when the "
                  "exclusion zone sits on the battery in some groups and on the inverter in others a request "
                  "smaller than the sum of the groups' minimum powers is admitted; the reservation loop "
                  "over-commits and the difference is taken back from the first group, which ends inside its "
                  "exclusion zone or is commanded against the sign of the request",
                  node=fn.node, file=fn.file,
                  instance=f"{fn.qual}: {fld} dominates Σ_g min_power_g")
    ar, ok = min_power_shape_ok(prog)
    run.check(ok, "C02.ADM", ar.qual, "min_power_g = max(b_g, min_i x_i)",
              "a group's minimum power is not max(battery exclusion, smallest inverter exclusion): the "
              "dominance of the enforced exclusion bound over Σ_g min_power_g is not established",
              node=ar.node, file=ar.file)


def check_adm_order(run: Run, prog: Program) -> None:
    """Order-domain: whatever _check_request lets through is inside the enforced bounds."""
    from ._admission import explore_admission
    from .c03 import _report_orderings

    def post(it, res, ctx):
        P, zero = ctx["P"], ctx["zero"]
        rejected = getattr(res, "cls", None) == "OutOfBounds"
        if rejected or res is not None:
            return None
        if it.entails("=", P, zero):
            return None  # zero requests are always forwarded
        bad = []
        in_zone = [("<", ctx["el"], P), ("<", P, ctx["eu"])]
        for nz in ([("<", P, zero)], [("<", zero, P)]):
            if it.possible(in_zone + nz):
                bad.append("a non-zero request strictly inside the exclusion zone is admitted")
        if not ctx["adjust"]:
            if it.possible([("<", P, ctx["il"])]) or it.possible([("<", ctx["iu"], P)]):
                bad.append("a non-adjustable request outside the inclusion bounds is admitted")
        return ("bad", sorted(set(bad))) if bad else None

    fn, outs = explore_admission(prog, post)
    run.analysed(fn.qual)
    _report_orderings(run, "C02.ADM", fn, outs, "an admitted request lies outside the exclusion zone "
                      "(and, when not adjustable, inside the inclusion bounds)")
    if len(outs) < 10:
        raise AnalysisError(f"{fn.qual}: only {len(outs)} abstract paths")
    # the bounds used are the aggregated ones of the same data, and rejection carries them
    txt = u(fn.node).replace(" ", "")
    run.check("bounds=self._get_bounds(pairs_data)" in txt and "power=request.power.as_watts()" in txt,
              "C02.ADM", fn.qual, "bounds from _get_bounds(pairs_data); power from the request",
              "the admission check does not compare the request's power with the bounds aggregated from "
              "the same component data", node=fn.node, file=fn.file)


def check_pure(run: Run, prog: Program) -> None:
    """The distribution algorithm keeps no state between calls (bounds are never memoised)."""
    cls = prog.cls(BDA)
    n = 0
    for m in cls.methods.values():
        if m.name == "__init__":
            continue
        n += 1
        bad = []
        for node in body_walk(m.node):
            tgts = []
            if isinstance(node, ast.Assign):
                tgts = node.targets
            elif isinstance(node, (ast.AugAssign, ast.AnnAssign)):
                tgts = [node.target]
            for t in tgts:
                for x in ast.walk(t):
                    if isinstance(x, ast.Attribute) and u(x.value) == "self":
                        bad.append(node)
            if isinstance(node, ast.Call) and isinstance(node.func, ast.Attribute) and isinstance(
                    node.func.value, ast.Attribute) and u(node.func.value.value) == "self" and node.func.attr in (
                    "append", "update", "setdefault", "add", "extend", "pop", "clear", "insert"):
                bad.append(node)
        for b in bad:
            run.violation("C02.PURE", m.qual, b,
                          "the distribution algorithm stores state on the long-lived instance: results of "
                          "a later call can depend on bounds/data of an earlier one (stale bounds after a "
                          "battery derates)", node=b, file=m.file)
        if not bad:
            run.ok("C02.PURE", f"{m.qual}: writes no instance state")
    if n < 8:
        raise AnalysisError("C02.PURE: BatteryDistributionAlgorithm methods not found")


CONTROLS = [
    ("admission forgets the exclusion zone when not adjusting",
     "microgrid._power_distributing._component_managers._battery_manager",
     "            if not (in_lower_range or in_upper_range):",
     "            if not (bounds.inclusion_lower <= power <= bounds.inclusion_upper):", "C02.ADM"),
    ("exclusion test closed on one edge for adjustable requests",
     "microgrid._power_distributing._component_managers._battery_manager",
     "            if bounds.exclusion_lower < power < bounds.exclusion_upper:",
     "            if bounds.exclusion_lower < power < bounds.exclusion_lower:", "C02.ADM"),
    ("memoised bounds", MOD,
     "        incl_bounds: dict[int, float] = {}\n        excl_bounds: dict[int, float] = {}\n        for battery, inverters in components:\n            if supply:",
     "        self._last_components = components\n        incl_bounds: dict[int, float] = {}\n        excl_bounds: dict[int, float] = {}\n        for battery, inverters in components:\n            if supply:",
     "C02.PURE"),
    ("available SoC clamp removed", MOD,
     "            available_soc[battery.component_id] = max(\n                0.0, battery.soc_upper_bound - battery.soc\n            )",
     "            available_soc[battery.component_id] = (\n                battery.soc_upper_bound - battery.soc\n            )",
     "C02.AVAIL"),
    ("top-up uses max instead of min", MOD,
     "additional_power = min(power.upper_bound - power.power, remaining_power)",
     "additional_power = max(power.upper_bound - power.power, remaining_power)", "C02.CAP"),
    ("inverter exclusion guard dropped", MOD,
     "                        not is_close_to_zero(remaining_power)\n                        and excl_bounds[inverter_id] <= remaining_power\n",
     "                        not is_close_to_zero(remaining_power)\n", "C02.INV"),
    ("supply path uses the upper SoC limit", MOD,
     "                0.0, battery.soc - battery.soc_lower_bound\n",
     "                0.0, battery.soc_upper_bound - battery.soc\n", "C02.AVAIL"),
    ("admission check skipped for adjustable requests",
     "microgrid._power_distributing._component_managers._battery_manager",
     "        error = self._check_request(request, pairs_data)\n        if error:\n            return error\n",
     "        error = None\n        if not request.adjust_power:\n            error = self._check_request(request, pairs_data)\n        if error:\n            return error\n",
     "C02.ADM"),
]


def run_rules(run: Run, prog: Program) -> None:
    check_cap(run, prog)
    check_inv(run, prog)
    check_avail(run, prog)
    check_adm(run, prog)
    check_adm_min(run, prog)
    check_adm_order(run, prog)
    check_pure(run, prog)


def check(run: Run, prog: Program, tier: str) -> str:
    run.rule("C02.CAP", "top-up increments are min(upper_bound - power, …) of the same cell; caps and "
             "minimum powers have the documented min/max shape")
    run.rule("C02.INV", "non-zero inverter set-points are guarded by excl[i] <= remaining and equal "
             "min(incl[i], remaining); otherwise zero")
    run.rule("C02.AVAIL", "SoC headroom is clamped at zero per direction and every non-zero "
             "allocation is control-dependent on that set's own availability ratio")
    run.rule("C02.ADM", "the admission check dominates the distribution, its error is returned, and (order "
             "domain) whatever it admits is outside the exclusion zone / inside the inclusion bounds")
    run.rule("C02.PURE", "the distribution algorithm writes no instance state outside __init__")
    run_rules(run, prog)
    run.floor("C02.CAP", 4)
    run.floor("C02.INV", 4)
    run.floor("C02.AVAIL", 7)
    run.floor("C02.ADM", 12)
    run.floor("C02.PURE", 8)
    from ..engine.controls import run_controls

    run_controls(run, CONTROLS, run_rules, tier)
    run.undecided("that proportional shares stay between minimum power and the inclusion bound for "
                  "every real input, and group totals after deficit covering (relational numeric "
                  "invariants over dict-indexed cells)")
    return ("Term-shape rules on caps, minimum powers and SoC headroom plus guard-dominance rules on "
            "the CFGs of the allocation loop, the greedy top-up and the per-inverter split. Decides "
            "the cap/guard discipline that the bounds property needs, not the numeric shares.")
