"""C20  Each component message reaches every subscribed metric stream exactly once — structure.

  C20.TAB    every key of the four extractor tables reads the attribute named like the metric
             (X_PHASE_n -> x_per_phase[n-1]); category -> table dispatch agrees between the extractor
             lookup and the request validators.
  C20.FAN    process_msg sends one Sample(message timestamp, extractor(message)) to every sender of
             every (extractor, senders) pair; pairs are built from one (metric, requests) item.
  C20.ATOM   between binding a message from the API receiver and create_task(process_msg(msg)) there
             is no await; the fan-out task is a plain task, not owned by the cancellable stream task.
  C20.ONCE   API receivers are created only when absent and never removed or replaced; stream tasks
             are written only in _update_streams after cancelling the previous one and never
             removed elsewhere.
  C20.DEDUP  add_metric: unknown components return before any state change; the duplicate scan
             dominates the append and the stream update with no await in between; the resampling
             actor's _subscribe tests and inserts without an await; get_or_create creates only
             when the key is absent.
"""
from __future__ import annotations

import ast
import re

from ..engine.cfg import CFG
from ..engine.report import AnalysisError, Run
from ..engine.resolver import Program, body_walk, contains_await
from ..engine.util import canon, find_calls, method_call, node_writes, nodes_with_call, u

SRC = "microgrid._data_sourcing.microgrid_api_source"
API = f"{SRC}:MicrogridApiSource"
TABLES = {"_MeterDataMethods": "METER", "_BatteryDataMethods": "BATTERY",
          "_InverterDataMethods": "INVERTER", "_EVChargerDataMethods": "EV_CHARGER"}


def expected_attr(metric: str) -> str:
    m = re.fullmatch(r"(.+)_PHASE_([123])", metric)
    if m:
        return f"msg.{m.group(1).lower()}_per_phase[{int(m.group(2)) - 1}]"
    return f"msg.{metric.lower()}"


def check_tab(run: Run, prog: Program) -> None:
    mod = prog.module(SRC)
    n = 0
    for tname in TABLES:
        node = mod.assigns.get(tname)
        if not isinstance(node, ast.Dict):
            raise AnalysisError(f"extractor table {tname} not found")
        for k, v in zip(node.keys, node.values):
            n += 1
            metric = u(k).split(".")[-1]
            ok = isinstance(v, ast.Lambda) and len(v.args.args) == 1
            got = ""
            if ok:
                p = v.args.args[0].arg
                got = u(v.body).replace(f"{p}.", "msg.", 1) if u(v.body).startswith(f"{p}.") else u(v.body)
                ok = got == expected_attr(metric)
            run.check(ok, "C20.TAB", f"{SRC}:{tname}", f"{metric}: {u(v)}",
                      f"the stream for {metric} would carry `{got}` instead of `{expected_attr(metric)}`: a "
                      "copy-pasted extractor reads another field of the message", node=v, file=mod.rel,
                      instance=f"{tname}[{metric}] reads {expected_attr(metric)}")
    if n < 50:
        raise AnalysisError(f"C20.TAB: only {n} extractor entries found")
    # dispatch agreement
    gm = prog.func(f"{API}._get_data_extraction_method")
    run.analysed(gm.qual)
    disp = {}
    for s in body_walk(gm.node):
        if isinstance(s, ast.If) and isinstance(s.test, ast.Compare) and u(s.test.left) == gm.params[1]:
            cat = u(s.test.comparators[0]).split(".")[-1]
            for r in s.body:
                if isinstance(r, ast.Return) and isinstance(r.value, ast.Subscript):
                    disp[cat] = (u(r.value.value), u(r.value.slice))
    want = {v: (k, gm.params[2]) for k, v in TABLES.items()}
    run.check(disp == want, "C20.TAB", gm.qual, f"category -> table: {disp}",
              f"a component category is served from another category's extractor table (expected {want})",
              node=gm.node, file=gm.file)
    val_tables = {}
    for vname, cat in (("_check_meter_request", "METER"), ("_check_battery_request", "BATTERY"),
                       ("_check_inverter_request", "INVERTER"), ("_check_ev_charger_request", "EV_CHARGER")):
        fn = prog.func(f"{API}.{vname}")
        run.analysed(fn.qual)
        tabs = {n.id for n in ast.walk(fn.node) if isinstance(n, ast.Name) and n.id in TABLES}
        val_tables[cat] = tabs
        api_call = [c for c in find_calls(fn.node, lambda c: isinstance(c.func, ast.Attribute) and c.func.attr.endswith("_data"))]
        want_api = {"METER": "meter_data", "BATTERY": "battery_data", "INVERTER": "inverter_data", "EV_CHARGER": "ev_charger_data"}[cat]
        ok = tabs == {k for k, v in TABLES.items() if v == cat} and len(api_call) == 1 and api_call[0].func.attr == want_api  # type: ignore[union-attr]
        run.check(ok, "C20.TAB", fn.qual, f"{vname}: validates against {sorted(tabs)}, opens {want_api}",
                  "a validator checks metrics against another category's table or opens another category's "
                  "API stream", node=fn.node, file=fn.file)
    cr = prog.func(f"{API}._check_requested_component_and_metrics")
    run.analysed(cr.qual)
    d2 = {}
    for s in ast.walk(cr.node):
        if isinstance(s, ast.If) and isinstance(s.test, ast.Compare) and u(s.test.left) == cr.params[2]:
            cat = u(s.test.comparators[0]).split(".")[-1]
            calls = [c for b in s.body for c in ast.walk(b) if isinstance(c, ast.Call) and isinstance(c.func, ast.Attribute)
                     and c.func.attr.startswith("_check_")]
            if calls:
                d2[cat] = calls[0].func.attr  # type: ignore[union-attr]
    want2 = {"METER": "_check_meter_request", "BATTERY": "_check_battery_request",
             "INVERTER": "_check_inverter_request", "EV_CHARGER": "_check_ev_charger_request"}
    run.check(d2 == want2, "C20.TAB", cr.qual, f"category -> validator: {d2}",
              "a category is validated by another category's validator", node=cr.node, file=cr.file)


def check_fan(run: Run, prog: Program) -> None:
    hs = prog.func(f"{API}._handle_data_stream")
    run.analysed(hs.qual)
    pm = prog.nested(hs, "process_msg")
    loops = [s for s in ast.walk(pm.node) if isinstance(s, ast.For)]
    ok = len(loops) == 2
    if ok:
        outer, inner = loops[0], loops[1]
        ok = u(outer.iter) == "stream_senders" and isinstance(outer.target, ast.Tuple) and len(outer.target.elts) == 2 \
            and u(inner.iter) == u(outer.target.elts[1]) and inner in outer.body and len(outer.body) == 1
        ex, sv = u(outer.target.elts[0]), u(inner.target)
        bad = [x for x in ast.walk(pm.node) if isinstance(x, (ast.Break, ast.Continue, ast.If, ast.Return))]
        t = u(inner).replace(" ", "")
        d = pm.node.args.args[0].arg
        ok = ok and not bad and f"Sample({d}.timestamp,Quantity({ex}({d})))" in t and f"{sv}.send(sample)" in t \
            and "tg.create_task(" in t
    run.check(ok, "C20.FAN", pm.qual, "for extractor, senders in stream_senders: for sender in senders: send(Sample(ts, Quantity(extractor(msg))))",
              "a message is not converted with each stream's own extractor and sent to every subscribed sender "
              "(filter / early exit / crossed extractor)", node=pm.node, file=hs.file)
    tg = [w for w in ast.walk(pm.node) if isinstance(w, ast.AsyncWith) and "TaskGroup" in u(w.items[0].context_expr)]
    run.check(len(tg) == 1, "C20.FAN", pm.qual, "all sends of one message awaited together (TaskGroup)",
              "the sends of one message are not awaited before the fan-out task ends", node=pm.node, file=hs.file)
    gs = prog.func(f"{API}._get_metric_senders")
    run.analysed(gs.qual)
    rets = [r for r in body_walk(gs.node) if isinstance(r, ast.Return)]
    ok = len(rets) == 1 and isinstance(rets[0].value, ast.ListComp)
    if ok:
        lc = rets[0].value
        g = lc.generators[0]
        ok = len(lc.generators) == 1 and not g.ifs and u(g.iter) == f"{gs.params[2]}.items()" and isinstance(lc.elt, ast.Tuple)
        if ok:
            metric, reqs = (u(e) for e in g.target.elts)  # type: ignore[union-attr]
            ex_e, snd_e = lc.elt.elts
            ok = u(ex_e).replace(" ", "") == f"self._get_data_extraction_method({gs.params[1]},{metric})" and \
                isinstance(snd_e, ast.ListComp) and not snd_e.generators[0].ifs and u(snd_e.generators[0].iter) == reqs \
                and "get_channel_name()" in u(snd_e.elt) and ".new_sender()" in u(snd_e.elt)
    run.check(ok, "C20.FAN", gs.qual, "[(extractor(category, metric), [sender(req) for req in reqs]) for metric, reqs in requests.items()]",
              "extractor and senders of a pair do not come from the same (metric, requests) item, or some "
              "request gets no sender", node=gs.node, file=gs.file)
    # the pairs used are those of this component's current requests
    t = u(hs.node).replace(" ", "")
    ok = "stream_senders=self._get_metric_senders(category,self._req_streaming_metrics[comp_id])" in t
    run.check(ok, "C20.FAN", hs.qual, "stream_senders built from this component's subscriptions",
              "the fan-out does not use this component's current subscriptions", node=hs.node, file=hs.file)


def check_atom(run: Run, prog: Program) -> None:
    hs = prog.func(f"{API}._handle_data_stream")
    cfg = CFG(hs.node, hs.file)
    loops = [h for h in cfg.nodes if h.kind == "for" and u(h.ast.iter) == "api_data_receiver"]  # type: ignore[union-attr]
    if len(loops) != 1:
        raise AnalysisError(f"{hs.qual}: message loop not found")
    h = loops[0]
    dv = u(h.ast.target)  # type: ignore[union-attr]
    hand = nodes_with_call(cfg, lambda c: u(c.func).endswith("create_task") and c.args and isinstance(c.args[0], ast.Call)
                           and u(c.args[0].func) == "process_msg" and [u(a) for a in c.args[0].args] == [dv])
    first = [m for m, lab in cfg.succ[h.id] if lab == "iter"]
    ok = len(hand) == 1
    wit = None
    if ok:
        awaits = [x for x in cfg.reachable(first, avoid=[h.id]) if cfg.is_await(x) and x != hand[0]]
        wit = cfg.path(first[0], awaits, avoid=hand) if first[0] not in hand and awaits else None
        if first[0] not in hand and first[0] in awaits:
            wit = [(first[0], "iter")]
        ok = wit is None and not cfg.is_await(hand[0])
        every = cfg.path(first[0], [h.id], avoid=hand, edge_ok=lambda a, b, lab: not lab.startswith("exc:")) if first[0] not in hand else None
        ok = ok and every is None
    run.check(ok, "C20.ATOM", hs.qual, f"create_task(process_msg({dv})) before any await of the iteration",
              "an await lies between taking a message from the API receiver and handing it to its fan-out "
              "task: if a new subscription cancels the stream task at that await, the message is lost for "
              "every existing stream", node=h.ast, file=hs.file, path=cfg.describe_path(wit))
    c = find_calls(hs.node, lambda c: u(c.func).endswith("create_task") and c.args and u(c.args[0]).startswith("process_msg("))
    ok = len(c) == 1 and u(c[0].func) == "asyncio.create_task"
    run.check(ok, "C20.ATOM", hs.qual, "fan-out runs as an independent task",
              "the fan-out is owned by the cancellable stream task (awaited inline or in its task group): "
              "cancelling the stream task on a new subscription would drop a message in flight",
              node=hs.node, file=hs.file)
    us = prog.func(f"{API}._update_streams")
    run.analysed(us.qual)
    cancels = find_calls(us.node, lambda c: isinstance(c.func, ast.Attribute) and c.func.attr == "cancel")
    ok = len(cancels) == 1 and u(cancels[0].func.value) == "self.comp_data_tasks[comp_id]"  # type: ignore[union-attr]
    run.check(ok, "C20.ATOM", us.qual, "only the component's stream task is cancelled",
              "updating the streams cancels something other than the component's stream task", node=us.node, file=us.file)


def check_once(run: Run, prog: Program) -> None:
    cls = prog.cls(API)
    n_w = 0
    for m in cls.methods.values():
        cfg = None
        for s in body_walk(m.node):
            tg = []
            if isinstance(s, ast.Assign):
                tg = s.targets
            elif isinstance(s, (ast.AugAssign, ast.AnnAssign)):
                tg = [s.target]
            for t in tg:
                if isinstance(t, ast.Subscript) and u(t.value) == "self.comp_data_receivers":
                    n_w += 1
                    cfg = cfg or CFG(m.node, m.file)
                    key = u(t.slice)
                    node = [n.id for n in cfg.nodes if n.ast is s]
                    guards = [x.id for x in cfg.nodes if x.kind == "test" and x.ast is not None
                              and canon(x.ast) == ("notin", key, "self.comp_data_receivers")]
                    wit = cfg.path(cfg.entry, node, avoid=guards)
                    ok = bool(guards) and wit is None and all(
                        node[0] not in cfg.reachable([mm for mm, lab in cfg.succ[g] if lab == "false"]) for g in guards)
                    run.check(ok, "C20.ONCE", m.qual, s,
                              "an API receiver is (re)created although one exists for the component: whatever "
                              "the old receiver had buffered is lost and later messages may be duplicated",
                              node=s, file=m.file, path=cfg.describe_path(wit))
            if isinstance(s, ast.Delete) and any("comp_data_receivers" in u(t) or "comp_data_tasks" in u(t) for t in s.targets):
                run.violation("C20.ONCE", m.qual, s, "an API receiver / stream task entry is deleted", node=s, file=m.file)
        for c in find_calls(m.node, lambda c: isinstance(c.func, ast.Attribute) and u(c.func.value) in (
                "self.comp_data_receivers", "self.comp_data_tasks") and c.func.attr in ("pop", "clear", "popitem", "update", "setdefault")):
            run.violation("C20.ONCE", m.qual, c,
                          f"`{u(c)[:60]}` removes or replaces a per-component receiver/task entry outside the "
                          "create-once / cancel-then-replace discipline (e.g. a done-callback keyed by "
                          "component id removes its successor's entry, leaving an un-cancelled stale task "
                          "that steals messages)", node=c, file=m.file)
        for node in ast.walk(m.node):
            if isinstance(node, ast.Lambda) and ("comp_data_tasks" in u(node.body) or "comp_data_receivers" in u(node.body)) \
                    and any(isinstance(x, ast.Call) and isinstance(x.func, ast.Attribute) and x.func.attr in ("pop", "clear")
                            for x in ast.walk(node.body)):
                pass  # covered by the call scan above (find_calls does not enter lambdas)
    if n_w != 4:
        raise AnalysisError(f"C20.ONCE: expected 4 receiver creations, found {n_w}")
    # lambdas / nested defs too
    for m in cls.methods.values():
        for node in ast.walk(m.node):
            if isinstance(node, ast.Call) and isinstance(node.func, ast.Attribute) and u(node.func.value) in (
                    "self.comp_data_receivers", "self.comp_data_tasks") and node.func.attr in ("pop", "clear", "popitem"):
                run.violation("C20.ONCE", m.qual, node,
                              f"`{u(node)[:60]}` removes a per-component receiver/task entry (possibly from a "
                              "callback): a stale, un-cancelled stream task can survive and share the API "
                              "receiver with its successor", node=node, file=m.file)
    writers = []
    for m in cls.methods.values():
        for s in ast.walk(m.node):
            if isinstance(s, ast.Assign) and any(isinstance(t, ast.Subscript) and u(t.value) == "self.comp_data_tasks" for t in s.targets):
                writers.append((m.name, s))
    ok = len(writers) == 1 and writers[0][0] == "_update_streams"
    run.check(ok, "C20.ONCE", f"{API}._update_streams", "comp_data_tasks[comp_id] written only in _update_streams",
              "stream tasks are registered elsewhere", node=writers[0][1] if writers else None,
              file=prog.module(SRC).rel)
    us = prog.func(f"{API}._update_streams")
    cfg = CFG(us.node, us.file)
    wr = [n.id for n in cfg.nodes if n.kind == "stmt" and any(u(w) == "self.comp_data_tasks[comp_id]" for w in node_writes(cfg, n.id))]
    cn = nodes_with_call(cfg, lambda c: isinstance(c.func, ast.Attribute) and c.func.attr == "cancel")
    t = [x for x in cfg.nodes if x.kind == "test" and x.ast is not None and canon(x.ast) == ("in", "comp_id", "self.comp_data_tasks")]
    ok = len(wr) == 1 and len(cn) == 1 and len(t) == 1 and [m for m, lab in cfg.succ[t[0].id] if lab == "true"] == cn \
        and cfg.path(cfg.entry, wr, avoid=[t[0].id]) is None
    run.check(ok, "C20.ONCE", us.qual, "cancel the previous stream task (if any), then register the new one",
              "a new stream task is registered without cancelling the previous one for that component",
              node=us.node, file=us.file)
    s = cfg.nodes[wr[0]].ast if wr else None
    ok = isinstance(s, ast.Assign) and u(s.value).replace(" ", "") == "asyncio.create_task(run_forever(lambda:self._handle_data_stream(comp_id,category)))"
    run.check(ok, "C20.ONCE", us.qual, "new task = run_forever(_handle_data_stream(comp_id, category))",
              "the registered task does not stream this component", node=us.node, file=us.file)
    cr = prog.func(f"{API}._check_requested_component_and_metrics")
    first = [s for s in cr.node.body if not (isinstance(s, ast.Expr) and isinstance(s.value, ast.Constant))][0]
    ok = isinstance(first, ast.If) and canon(first.test) == ("in", cr.params[1], "self.comp_data_receivers") and \
        isinstance(first.body[0], ast.Return)
    run.check(ok, "C20.ONCE", cr.qual, "existing receiver -> nothing to (re)create",
              "validation re-runs receiver creation for a component that already has one", node=cr.node, file=cr.file)
    hs = prog.func(f"{API}._handle_data_stream")
    ok = "api_data_receiver:Receiver[Any]=self.comp_data_receivers[comp_id]" in u(hs.node).replace(" ", "")
    run.check(ok, "C20.ONCE", hs.qual, "the (re)started stream task continues the cached receiver",
              "a restarted stream task does not continue the component's cached API receiver", node=hs.node, file=hs.file)


def check_dedup(run: Run, prog: Program) -> None:
    am = prog.func(f"{API}.add_metric")
    run.analysed(am.qual)
    cfg = CFG(am.node, am.file)
    req = am.params[1]
    unk = [t for t in cfg.nodes if t.kind == "test" and t.ast is not None and canon(t.ast) == ("is", frozenset({"category", "None"}))]
    muts = [n.id for n in cfg.nodes if n.kind == "stmt" and n.ast is not None and (
        "setdefault(" in u(n.ast) or ".append(" in u(n.ast) or "_update_streams" in u(n.ast))]
    ok = len(unk) == 1 and cfg.path(cfg.entry, muts, avoid=[unk[0].id]) is None and not any(
        m in cfg.reachable([x for x, lab in cfg.succ[unk[0].id] if lab == "true"]) for m in muts)
    run.check(ok, "C20.DEDUP", am.qual, "unknown component -> return before any state change",
              "a request for an unknown component changes the subscription state", node=am.node, file=am.file)
    apps = nodes_with_call(cfg, lambda c: isinstance(c.func, ast.Attribute) and c.func.attr == "append")
    upd = [x for x in nodes_with_call(cfg, lambda c: method_call(c, "self", "_update_streams")) if cfg.is_await(x)]
    scan_loops = [h for h in cfg.nodes if h.kind == "for" and "_req_streaming_metrics" in h.label]
    ev = u(scan_loops[0].ast.target) if scan_loops else "?"  # type: ignore[union-attr]
    scans = [t for t in cfg.nodes if t.kind == "test" and t.ast is not None and canon(t.ast) == (
        "==", frozenset({f"{ev}.get_channel_name()", f"{req}.get_channel_name()"}))]
    ok = len(apps) == 1 and len(upd) == 1 and len(scans) == 1
    wit = None
    if ok:
        loops = scan_loops
        ok = len(loops) == 1 and cfg.path(cfg.entry, apps, avoid=[loops[0].id]) is None
        dup_side = cfg.reachable([m for m, lab in cfg.succ[scans[0].id] if lab == "true"], avoid=[loops[0].id])
        ok = ok and apps[0] not in dup_side and upd[0] not in dup_side and cfg.exit in dup_side
        between = cfg.reachable([loops[0].id], avoid=apps)
        aw = [x for x in between if cfg.is_await(x) and cfg.path(x, apps) is not None and x != upd[0]]
        ok = ok and not aw
        wit = cfg.path(aw[0], apps) if aw else None
        if ok:
            # same list scanned and appended to
            a = find_calls(cfg.nodes[apps[0]].ast, lambda c: isinstance(c.func, ast.Attribute) and c.func.attr == "append")[0]  # type: ignore[arg-type]
            ok = u(a.func.value) == u(loops[0].ast.iter) and [u(x) for x in a.args] == [req]  # type: ignore[union-attr]
        ok = ok and cfg.path(apps[0], upd) is not None and cfg.path(cfg.entry, upd, avoid=apps) is None
    run.check(ok, "C20.DEDUP", am.qual, "scan for the same channel name, then append, then update streams",
              "an identical request is not ignored, or the scan-and-append is interruptible (an await between "
              "scan and append lets two identical requests both be appended)", node=am.node, file=am.file,
              path=cfg.describe_path(wit))
    sub = prog.func("microgrid._resampling:ComponentMetricsResamplingActor._subscribe")
    run.analysed(sub.qual)
    cfg = CFG(sub.node, sub.file)
    t = [x for x in cfg.nodes if x.kind == "test" and x.ast is not None and canon(x.ast) == ("in", "request_channel_name", "self._active_req_channels")]
    adds = nodes_with_call(cfg, lambda c: method_call(c, "self._active_req_channels", "add"))
    ok = len(t) == 1 and len(adds) == 1
    if ok:
        region = cfg.reachable([cfg.entry], avoid=adds)
        aw = [x for x in region if cfg.is_await(x)]
        ok = not aw and cfg.path(cfg.entry, adds, avoid=[t[0].id]) is None and \
            adds[0] not in cfg.reachable([m for m, lab in cfg.succ[t[0].id] if lab == "true"])
    run.check(ok, "C20.DEDUP", sub.qual, "test-and-insert of the request channel name without an await",
              "the resampling actor can subscribe the same request twice (await between test and insert)",
              node=sub.node, file=sub.file)
    gc = prog.func("_internal._channels:ChannelRegistry.get_or_create")
    run.analysed(gc.qual)
    cfg = CFG(gc.node, gc.file)
    wr = [n.id for n in cfg.nodes if n.kind == "stmt" and any(u(w) == f"self._channels[{gc.params[2]}]" for w in node_writes(cfg, n.id))]
    g = [x.id for x in cfg.nodes if x.kind == "test" and x.ast is not None and canon(x.ast) == ("notin", gc.params[2], "self._channels")]
    ok = len(wr) == 1 and len(g) == 1 and cfg.path(cfg.entry, wr, avoid=g) is None and \
        wr[0] not in cfg.reachable([m for m, lab in cfg.succ[g[0]] if lab == "false"])
    run.check(ok, "C20.DEDUP", gc.qual, "create only when the key is absent",
              "get_or_create can replace an existing channel (its subscribers would stop receiving)",
              node=gc.node, file=gc.file)
    ds = prog.func("microgrid._data_sourcing.data_sourcing:DataSourcingActor._run")
    run.analysed(ds.qual)
    ok = "asyncforrequestinself._request_receiver:awaitself._microgrid_api_source.add_metric(request)" in u(ds.node).replace(" ", "").replace("\n", "")
    run.check(ok, "C20.DEDUP", ds.qual, "requests handled one at a time, in order",
              "subscription requests are not processed sequentially", node=ds.node, file=ds.file)


CONTROLS = [
    ("fan-out awaited inline", SRC,
     "                sending_tasks.add(asyncio.create_task(process_msg(data), name=name))\n",
     "                await process_msg(data)\n", "C20.ATOM"),
    ("receiver recreated per restart", SRC,
     "        if comp_id not in self.comp_data_receivers:\n            self.comp_data_receivers[comp_id] = (\n                await connection_manager.get().api_client.meter_data(comp_id)\n            )",
     "        self.comp_data_receivers[comp_id] = (\n            await connection_manager.get().api_client.meter_data(comp_id)\n        )", "C20.ONCE"),
    ("await between the duplicate scan and the append", SRC,
     "        self._req_streaming_metrics[comp_id][request.metric_id].append(request)\n",
     "        await asyncio.sleep(0)\n        self._req_streaming_metrics[comp_id][request.metric_id].append(request)\n",
     "C20.DEDUP"),
    ("copy-pasted lambda", SRC,
     "    ComponentMetricId.SOC_UPPER_BOUND: lambda msg: msg.soc_upper_bound,",
     "    ComponentMetricId.SOC_UPPER_BOUND: lambda msg: msg.soc_lower_bound,", "C20.TAB"),
    ("clean-up wait before the hand-over", SRC,
     "                sending_tasks.add(asyncio.create_task(process_msg(data), name=name))\n                sending_tasks = await clean_tasks(sending_tasks)\n",
     "                sending_tasks = await clean_tasks(sending_tasks)\n                sending_tasks.add(asyncio.create_task(process_msg(data), name=name))\n",
     "C20.ATOM"),
    ("done-callback removes the task entry by component id", SRC,
     "        self.comp_data_tasks[comp_id] = asyncio.create_task(\n            run_forever(lambda: self._handle_data_stream(comp_id, category))\n        )",
     "        self.comp_data_tasks[comp_id] = asyncio.create_task(\n            run_forever(lambda: self._handle_data_stream(comp_id, category))\n        )\n        self.comp_data_tasks[comp_id].add_done_callback(lambda _: self.comp_data_tasks.pop(comp_id, None))",
     "C20.ONCE"),
]


def run_rules(run: Run, prog: Program) -> None:
    check_tab(run, prog)
    check_fan(run, prog)
    check_atom(run, prog)
    check_once(run, prog)
    check_dedup(run, prog)


def check(run: Run, prog: Program, tier: str) -> str:
    run.rule("C20.TAB", "extractor tables read the field named like the metric; category dispatch agrees across lookup and validators")
    run.rule("C20.FAN", "every message -> one sample per sender of every pair, extractor and senders from the same request item")
    run.rule("C20.ATOM", "no await between taking a message and creating its independent fan-out task")
    run.rule("C20.ONCE", "API receivers created once and never removed; stream tasks replaced only by cancel-then-register")
    run.rule("C20.DEDUP", "unknown ids change nothing; scan-then-append without await; idempotent subscribe; get_or_create creates only when absent")
    run_rules(run, prog)
    run.floor("C20.TAB", 55)
    run.floor("C20.FAN", 4)
    run.floor("C20.ATOM", 3)
    run.floor("C20.ONCE", 8)
    run.floor("C20.DEDUP", 5)
    from ..engine.controls import run_controls

    run_controls(run, CONTROLS, run_rules, tier)
    run.assume("asyncio cancellation is delivered only at awaits; a cancelled stream task that holds no "
               "un-handed-over message loses nothing because the API receiver is kept")
    run.undecided("relative order of the fan-out tasks of consecutive messages (event-loop scheduling); "
                  "behaviour on receiver overflow")
    return ("Table extraction with a naming rule (metric id -> message field), sibling agreement of the "
            "category dispatch, never-between (await) rules on the message hand-over and the duplicate "
            "scan, who-may-write rules on the per-component receiver/task maps.")
