"""C20  Each component message reaches every subscribed metric stream exactly once — structure.

  C20.TAB    every key of the four extractor tables reads the attribute named like the metric
             (X_PHASE_n -> x_per_phase[n-1]); category -> table dispatch agrees between the extractor
             lookup and the request validators.
  C20.FAN    the fan-out function sends one Sample(message timestamp, extractor(message)) to every sender
             of every (extractor, senders) pair; pairs are built from one (metric, requests) item.
  C20.ATOM   between binding a message from the API receiver and create_task(fan_out(msg)) there
             is no await; the fan-out task is a plain task, not owned by the cancellable stream task, and
             what it works with outlives the stream task: on no way out of the message loop (end of the
             API stream, error, cancellation by a new subscription - `finally:` bodies and handlers
             included) are the pair's senders / the channels closed or the pairs emptied before the
             fan-out tasks in flight have been awaited.
  C20.SRC    exactly once from the sending side: the only thing ever put on a metric channel is a sample of the
             message the receive loop holds now.  The fan-out function is referenced in one place only, the
             hand-over in the body of the message loop (no call before / after the loop, from another method,
             as a callback); the message argument is the loop's target, which nothing else binds; the hand-over
             is evaluated once per iteration; the module has no send besides the fan-out's; the registry's
             Broadcast channels are not built with resend_latest.
  C20.ONCE   API receivers are created only when absent and never removed or replaced; stream tasks
             are written only in _update_streams after cancelling the previous one and never
             removed elsewhere.
  C20.DEDUP  add_metric: unknown components return before any state change; the duplicate scan
             dominates the append and the stream update with no await in between; the resampling
             actor's _subscribe tests and inserts without an await; get_or_create creates only
             when the key is absent.  The category lookup answers None for an id the API does not list:
             on the absent side of every membership test of the id it neither raises nor reads the
             id's slot, and every exit there returns None (so add_metric's "unknown -> return" is live).
  C20.REQ    where the data-sourcing actor is built, its request receiver (a Broadcast receiver: drops
             its oldest message when full) holds at least what the request receiver of every actor that
             is handed this actor's request sender holds (a missing `limit=` is the library default).

Roles are bound by dataflow, not by local names: the *message loop* is the `async for` of
_handle_data_stream, the *message* its target, the *fan-out function* the closure/private method that
is called with the message, the *pairs* variable the iterable of that function's outer loop, and so
on.  Single-binding locals are expanded to the value they denote before anything is compared
(`_c20_util.Expander`), guards are compared in canonical form with their polarity
(`_c20_util.presence`, `engine.util.canon`), category dispatch is read off enumerated paths
(`_c20_util.enum_paths`), list-building loops are folded into comprehensions
(`_c20_util.fold_loops`) and boolean scan helpers are summarised (`scan_summary`).
"""
from __future__ import annotations

import ast
import re
from typing import Any

from ..engine.cfg import CFG, own_parts
from ..engine.normalize import ANCHOR_NAMES, inline_helpers
from ..engine.report import AnalysisError, Run
from ..engine.resolver import ClassInfo, FuncInfo, Program, parent_map
from ..engine.util import canon, node_writes, nodes_with_call, u
from ._c20_util import (Expander, bind_call, branch, calls_where, const_bool, cpath, derived_names, enum_paths, equal_fact,
                        expand_at, mentions, params_of, presence, rename_and_bind, result_expr, slot_reads, splice_procedures, splice_value_calls, subst_names, walk_own)

SRC = "microgrid._data_sourcing.microgrid_api_source"
API = f"{SRC}:MicrogridApiSource"
TABLES = {"_MeterDataMethods": "METER", "_BatteryDataMethods": "BATTERY",
          "_InverterDataMethods": "INVERTER", "_EVChargerDataMethods": "EV_CHARGER"}
VALIDATORS = {"METER": "_check_meter_request", "BATTERY": "_check_battery_request",
              "INVERTER": "_check_inverter_request", "EV_CHARGER": "_check_ev_charger_request"}
API_STREAM = {"METER": "meter_data", "BATTERY": "battery_data", "INVERTER": "inverter_data",
              "EV_CHARGER": "ev_charger_data"}
RECV, TASKS, SUBS = "self.comp_data_receivers", "self.comp_data_tasks", "self._req_streaming_metrics"
# ways of starting a task that nobody but the event loop owns (a TaskGroup's create_task is owned)
INDEPENDENT_SPAWN = {"asyncio.create_task", "asyncio.ensure_future", "asyncio.get_running_loop().create_task",
                     "asyncio.get_event_loop().create_task"}
REMOVERS = {"pop", "clear", "popitem", "update", "setdefault", "__delitem__", "__setitem__"}
MUTATORS = REMOVERS | {"append", "add", "insert", "extend", "remove", "discard"}
FORBIDDEN_IN_FANOUT = (ast.Break, ast.Continue, ast.If, ast.Return, ast.IfExp, ast.While, ast.Try, ast.Match,
                       ast.BoolOp, ast.AsyncFor)


def expected_attr(metric: str) -> str:
    m = re.fullmatch(r"(.+)_PHASE_([123])", metric)
    if m:
        return f"msg.{m.group(1).lower()}_per_phase[{int(m.group(2)) - 1}]"
    return f"msg.{metric.lower()}"


def _is_self_call(c: ast.Call, name: str | None = None) -> bool:
    f = c.func
    return isinstance(f, ast.Attribute) and isinstance(f.value, ast.Name) and f.value.id == "self" \
        and (name is None or f.attr == name)


def _call_params(f: FuncInfo) -> list[str]:
    """Parameters a call binds: without self/cls for ordinary methods, all of them for static methods,
    closures and module functions."""
    static = any(isinstance(d, ast.Name) and d.id == "staticmethod" for d in f.node.decorator_list)
    return f.params[1:] if f.cls is not None and not static and f.outer is None else f.params


def splice(prog: Program, fn: FuncInfo, keep: set[str]) -> FuncInfo:
    """`fn` as one unit of behaviour (analysis-only copy): private callees that merely hold a part of it are
    spliced in - simple ones by the engine normaliser, procedures with several returns / awaits by
    `splice_procedures`; functions named in `keep` (the role-bound ones) stay calls."""
    node = inline_helpers(prog, fn, exclude=keep)

    def resolve(c: ast.Call) -> tuple[Any, list[str]] | None:
        t: FuncInfo | None = None
        if _is_self_call(c) and fn.cls is not None:
            t = prog.resolve_method(fn.cls, c.func.attr)  # type: ignore[union-attr]
        elif isinstance(c.func, ast.Name) and c.func.id in fn.module.functions:
            t = fn.module.functions[c.func.id]
        if t is None or not t.name.startswith("_") or t.name.startswith("__") or t.name in keep:
            return None
        return t.node, _call_params(t)

    node = splice_procedures(node, resolve)
    return FuncInfo(fn.name, fn.module, node, fn.cls, fn.outer)


def _spawn_name(c: ast.Call) -> str | None:
    """`….create_task(coro, …)` / `….ensure_future(coro)`: text of the spawning function."""
    f = c.func
    last = f.attr if isinstance(f, ast.Attribute) else (f.id if isinstance(f, ast.Name) else "")
    if last in ("create_task", "ensure_future") and c.args:
        return u(f)
    return None


# ======================================================================================== C20.TAB
def _category_on_path(facts: list[tuple[Any, bool]], var: str) -> set[str]:
    out = set()
    for f in facts:
        x = equal_fact(f, var)
        if x is not None and x.startswith("ComponentCategory."):
            out.add(x.split(".")[-1])
    return out


def check_tab(run: Run, prog: Program, ro: "Roles") -> None:
    mod = prog.module(SRC)
    n = 0
    for tname in TABLES:
        node = mod.assigns.get(tname)
        if not isinstance(node, ast.Dict):
            raise AnalysisError(f"extractor table {tname} not found")
        for k, v in zip(node.keys, node.values):
            n += 1
            metric = u(k).split(".")[-1]
            ok = isinstance(v, ast.Lambda) and len(params_of(v)) == 1
            got = ""
            if ok:
                got = u(subst_names(v.body, {params_of(v)[0]: ast.Name(id="msg", ctx=ast.Load())}))
                ok = got == expected_attr(metric)
            run.check(ok, "C20.TAB", f"{SRC}:{tname}", f"{metric}: {u(v)}",
                      f"the stream for {metric} would carry `{got}` instead of `{expected_attr(metric)}`: a "
                      "copy-pasted extractor reads another field of the message", node=v, file=mod.rel,
                      instance=f"{tname}[{metric}] reads {expected_attr(metric)}")
    if n < 50:
        raise AnalysisError(f"C20.TAB: only {n} extractor entries found")
    # dispatch agreement: on every path of the lookup that returns, exactly one category is known and
    # the value returned is that category's table indexed by the metric parameter
    gm = ro.gm
    run.analysed(gm.qual)
    cat_p, metric_p = gm.params[1], gm.params[2]
    disp: dict[str, set[tuple[str, str]]] = {}
    for p in enum_paths(gm.node):
        cats = _category_on_path(p.facts, cat_p)
        if len(cats) > 1:
            continue  # infeasible: a category equals one enum member
        if p.kind == "raise":
            continue
        key = next(iter(cats)) if cats else "<no category test>"
        r = p.value
        if isinstance(r, ast.Subscript):
            disp.setdefault(key, set()).add((u(r.value), u(r.slice)))
        else:
            disp.setdefault(key, set()).add((u(r) if r is not None else "<falls through>", ""))
    want = {v: {(k, metric_p)} for k, v in TABLES.items()}
    run.check(disp == want, "C20.TAB", gm.qual, f"category -> table: { {k: sorted(v) for k, v in sorted(disp.items())} }",
              f"a component category is served from another category's extractor table (expected {want})",
              node=gm.node, file=gm.file)
    for cat in VALIDATORS:
        fn = ro.validator(prog, cat)
        vname = fn.name
        run.analysed(fn.qual)
        # the validator together with the non-anchored private helpers it calls (an extracted
        # "open the receiver" / "validate the metrics" step still belongs to it)
        scope = [fn.node]
        for c in ast.walk(fn.node):
            if isinstance(c, ast.Call) and _is_self_call(c) and c.func.attr.startswith("_") and c.func.attr not in ro.names \
                    and fn.cls is not None:  # type: ignore[union-attr]
                h = prog.resolve_method(fn.cls, c.func.attr)  # type: ignore[union-attr]
                if h is not None and all(h.node is not n for n in scope):
                    scope.append(h.node)
        tabs = {n.id for sc in scope for n in ast.walk(sc) if isinstance(n, ast.Name) and n.id in TABLES}
        api_call = [c for sc in scope for c in calls_where(
            sc, lambda c: isinstance(c.func, ast.Attribute) and c.func.attr.endswith("_data"), nested=False)]
        want_api = API_STREAM[cat]
        ok = tabs == {k for k, v in TABLES.items() if v == cat} and len(api_call) == 1 and api_call[0].func.attr == want_api  # type: ignore[union-attr]
        run.check(ok, "C20.TAB", fn.qual, f"{vname}: validates against {sorted(tabs)}, opens {want_api}",
                  "a validator checks metrics against another category's table or opens another category's "
                  "API stream", node=fn.node, file=fn.file)
        # a request is refused only for a metric that is absent from the category's table
        table = next(k for k, v in TABLES.items() if v == cat)
        vcfg = CFG(fn.node, fn.file)
        vx = Expander(fn.node)
        req_p = ro.requests_param(cat, fn)
        loop_vars = {n.ast.target.id for n in vcfg.nodes if n.kind == "for" and isinstance(n.ast, ast.For)
                     and isinstance(n.ast.target, ast.Name) and vx.x(n.ast.iter) in (req_p, f"{req_p}.keys()")}
        raises = [n.id for n in vcfg.nodes if n.kind == "stmt" and isinstance(n.ast, ast.Raise)]
        ok = True
        wit = None
        if raises:
            ok = False
            for lv in sorted(loop_vars):
                g_ok, wit, n_g = _guarded(vcfg, vx, raises, lv, table, want_present=False)
                if g_ok and n_g >= 1:
                    ok = True
                    break
        run.check(ok, "C20.TAB", fn.qual, f"{vname}: refuses only metrics missing from {table}",
                  "a validator refuses a request for a metric its category supports (or refuses unconditionally): "
                  "the stream task of that component fails on every start and none of its subscriptions is served",
                  node=fn.node, file=fn.file, path=vcfg.describe_path(wit))
    cr = ro.cr
    run.analysed(cr.qual)
    d2: dict[str, set[str]] = {}
    for p in enum_paths(cr.node, opaque=True):
        cats = _category_on_path(p.facts, cr.params[2])
        if len(cats) > 1:
            continue
        called = {c.func.attr for s in p.stmts for c in ast.walk(s)  # type: ignore[union-attr]
                  if isinstance(c, ast.Call) and _is_self_call(c) and (c.func.attr.startswith("_check_")  # type: ignore[union-attr]
                                                                      or c.func.attr in ro.validators.values())}  # type: ignore[union-attr]
        if called:
            d2.setdefault(next(iter(cats)) if cats else "<no category test>", set()).update(called)
    want2 = {k: {v} for k, v in ro.validators.items() if k not in ro.arms}  # (inlined arms are checked as validators above)
    run.check(d2 == want2, "C20.TAB", cr.qual, f"category -> validator: { {k: sorted(v) for k, v in sorted(d2.items())} }",
              "a category is validated by another category's validator", node=cr.node, file=cr.file)


# ======================================================================================== who plays which role
class Roles:
    """The private functions the rules talk about, found by what they do; their historical names
    are only the fallback when the role cannot be read off the code (then a missing name is exit 2).

      us   the method add_metric awaits that (itself or through a helper) registers comp_data_tasks[...]
      hs   the coroutine that the registered task runs (run_forever(lambda: self.<hs>(comp_id, category)))
      cr   the method hs awaits with this component's subscriptions (validates, opens the receiver)
      gs   the method whose result hs binds, called with this component's subscriptions (builds the pairs)
      gm   the method gs calls per item for the extractor
      validators  category -> the method cr dispatches to
      lookup      the method whose awaited result add_metric tests against None (component category)
    """

    def __init__(self, prog: Program) -> None:
        self.cls = cls = prog.cls(API)
        self.am = prog.func(f"{API}.add_metric")
        writers = set()
        for m in cls.methods.values():
            x = Expander(m.node)
            if any(isinstance(n, ast.Subscript) and isinstance(n.ctx, ast.Store) and x.x(n.value) == TASKS for n in ast.walk(m.node)):
                writers.add(m.name)
        awaited = [a.value.func.attr for a in walk_own(self.am.node)  # type: ignore[union-attr]
                   if isinstance(a, ast.Await) and isinstance(a.value, ast.Call) and _is_self_call(a.value)]
        cand = [n for n in awaited if n in cls.methods and (n in writers or any(
            isinstance(c, ast.Call) and _is_self_call(c) and c.func.attr in writers  # type: ignore[union-attr]
            for c in ast.walk(cls.methods[n].node)))]
        self.us_inlined = False
        try:
            self.us = self._pick(prog, cand, "_update_streams")
        except AnalysisError:
            if self.am.name not in writers:
                raise
            # the registration is part of add_metric itself: the obligations are stated on its paths
            self.us, self.us_inlined = self.am, True
        # hs: what the registered task runs
        hs_names = []
        for n in ast.walk(inline_helpers(prog, self.us)):
            if isinstance(n, ast.Call) and u(n.func) == "run_forever" and n.args:
                f = n.args[0]
                inner = f.body if isinstance(f, ast.Lambda) else (f.args[0] if isinstance(f, ast.Call) and f.args and u(f.func).endswith("partial") else None)
                if isinstance(inner, ast.Call) and _is_self_call(inner):
                    hs_names.append(inner.func.attr)  # type: ignore[union-attr]
                elif isinstance(inner, ast.Attribute) and isinstance(inner.value, ast.Name) and inner.value.id == "self":
                    hs_names.append(inner.attr)
        self.hs = self._pick(prog, hs_names, "_handle_data_stream")
        hx = Expander(self.hs.node)
        subs = f"{SUBS}[{self.hs.params[1]}]" if len(self.hs.params) > 1 else "?"
        cr_names, gs_names = [], []
        for n in walk_own(self.hs.node):
            c = n.value if isinstance(n, (ast.Assign, ast.AnnAssign, ast.Expr)) else None
            aw = isinstance(c, ast.Await)
            c = c.value if isinstance(c, ast.Await) else c
            if isinstance(c, ast.Call) and _is_self_call(c) and any(u(slot_reads(hx.expand(a), SUBS)) == subs for a in [*c.args, *[k.value for k in c.keywords]]):
                if isinstance(n, ast.Expr) and aw:
                    cr_names.append(c.func.attr)  # type: ignore[union-attr]
                elif not isinstance(n, ast.Expr) and not aw:
                    gs_names.append(c.func.attr)  # type: ignore[union-attr]
        if not cr_names:
            # second chance: the method that dispatches to (awaits) several methods which register receivers
            openers = {m.name for m in cls.methods.values() if any(
                isinstance(n, ast.Subscript) and isinstance(n.ctx, ast.Store) and Expander(m.node).x(n.value) == RECV
                for n in ast.walk(m.node))}
            for m in cls.methods.values():
                aw = {a.value.func.attr for a in walk_own(m.node)  # type: ignore[union-attr]
                      if isinstance(a, ast.Await) and isinstance(a.value, ast.Call) and _is_self_call(a.value)}
                if len(aw & openers) >= 2:
                    cr_names.append(m.name)
        self.cr = self._pick(prog, cr_names, "_check_requested_component_and_metrics")
        self.gs: FuncInfo | None
        try:
            self.gs = self._pick(prog, gs_names, "_get_metric_senders")
        except AnalysisError:
            self.gs = None  # inlined into the stream coroutine: the pairs are then built by an expression there
        # validators: what cr dispatches to per category
        self.validators: dict[str, str] = {}
        self._val_calls: dict[str, list[ast.Call]] = {}
        per_cat: dict[str, set[str]] = {}
        if len(self.cr.params) > 2:
            for p in enum_paths(self.cr.node, opaque=True):
                cats = _category_on_path(p.facts, self.cr.params[2])
                if len(cats) != 1:
                    continue
                for s_ in p.stmts:
                    if isinstance(s_, ast.Expr) and isinstance(s_.value, ast.Await) and isinstance(s_.value.value, ast.Call) \
                            and _is_self_call(s_.value.value):
                        per_cat.setdefault(next(iter(cats)), set()).add(s_.value.value.func.attr)  # type: ignore[union-attr]
                        self._val_calls.setdefault(next(iter(cats)), []).append(s_.value.value)
        self.arms: dict[str, list[ast.stmt]] = {}
        for cat, hint in VALIDATORS.items():
            got = sorted(per_cat.get(cat, ()))
            self.validators[cat] = got[0] if len(got) == 1 and got[0] in cls.methods else hint
            if self.validators[cat] not in cls.methods and len(self.cr.params) > 3:
                # nobody is called for this category and the old name is gone: the validator is played by the
                # arm of the dispatch itself (inlined into its only caller)
                arm = self._arm(cat)
                if arm is not None:
                    self.arms[cat] = arm
                    self.validators[cat] = self.cr.name
        # gm: the extractor lookup called per item by gs
        gm_names = []
        val = result_expr(self.gs.node) if self.gs is not None else None
        if self.gs is None:
            for n in walk_own(self.hs.node):
                if isinstance(n, (ast.Assign, ast.AnnAssign)) and isinstance(n.value, ast.ListComp) and n.value.generators \
                        and u(slot_reads(hx.expand(n.value.generators[0].iter), SUBS)) == f"{subs}.items()":
                    val = n.value
        if isinstance(val, ast.ListComp) and isinstance(val.elt, ast.Tuple) and val.elt.elts:
            e0 = val.elt.elts[0]
            if isinstance(e0, ast.Call) and _is_self_call(e0):
                gm_names.append(e0.func.attr)  # type: ignore[union-attr]
        self.gm = self._pick(prog, gm_names, "_get_data_extraction_method")
        # lookup: awaited, result compared with None in add_metric
        ax = Expander(self.am.node)
        look = []
        for t in walk_own(self.am.node):
            if isinstance(t, ast.Compare) and len(t.ops) == 1 and isinstance(t.ops[0], (ast.Is, ast.IsNot)) and u(t.comparators[0]) == "None":
                e = ax.expand(t.left)
                if isinstance(e, ast.Await) and isinstance(e.value, ast.Call) and _is_self_call(e.value):
                    look.append(e.value.func.attr)  # type: ignore[union-attr]
        self.lookup = look[0] if len(set(look)) == 1 else "_get_component_category"
        self.names = {self.us.name, self.hs.name, self.cr.name, self.gm.name, self.lookup, *self.validators.values()} | ANCHOR_NAMES
        if self.gs is not None:
            self.names.add(self.gs.name)

    def _pick(self, prog: Program, cand: list[str], hint: str) -> FuncInfo:
        uniq = [n for n in dict.fromkeys(cand) if n in self.cls.methods]
        if hint in uniq or not uniq:
            return prog.func(f"{API}.{hint}")  # exit 2 only if nobody plays the role and the name is gone too
        if len(uniq) == 1:
            return self.cls.methods[uniq[0]]
        raise AnalysisError(f"C20: several candidates for the role of {hint}: {uniq}")

    def _arm(self, cat: str) -> list[ast.stmt] | None:
        """The statements the dispatch runs for one category (if/elif arm or match case)."""
        want = f"ComponentCategory.{cat}"
        cat_p = self.cr.params[2]
        found: list[list[ast.stmt]] = []
        for n in ast.walk(self.cr.node):
            if isinstance(n, ast.If) and equal_fact((canon(n.test), True), cat_p) == want:
                found.append(n.body)
            elif isinstance(n, ast.If) and equal_fact((canon(n.test), False), cat_p) == want and n.orelse:
                found.append(n.orelse)
            elif isinstance(n, ast.Match) and u(n.subject) == cat_p:
                for case in n.cases:
                    pats = case.pattern.patterns if isinstance(case.pattern, ast.MatchOr) else [case.pattern]
                    if len(pats) == 1 and isinstance(pats[0], ast.MatchValue) and u(pats[0].value) == want and case.guard is None:
                        found.append(case.body)
        return found[0] if len(found) == 1 else None

    def requests_param(self, cat: str, fn: FuncInfo) -> str:
        """The parameter of a category's validator that holds the requests of the component."""
        if cat in self.arms:
            return self.cr.params[3]
        for c in {u(c): c for c in self._val_calls.get(cat, [])}.values():
            b = bind_call(c, _call_params(fn)) or {}
            for p_, a in b.items():
                if isinstance(a, ast.Name) and len(self.cr.params) > 3 and a.id == self.cr.params[3]:
                    return p_
        return fn.params[2] if len(fn.params) > 2 else "?"

    def validator(self, prog: Program, cat: str) -> FuncInfo:
        """The validator of a category; when the dispatch passes it configuration (a table, the API stream to
        open, ... - sibling validators merged into one parametrised helper) it is specialised with those arguments;
        when it was inlined into the dispatch, it is the category's arm."""
        if cat in self.arms:
            import copy as _copy

            node = _copy.copy(self.cr.node)
            node.body = list(self.arms[cat])
            return FuncInfo(self.cr.name, self.cr.module, node, self.cr.cls, self.cr.outer)
        base = prog.func(f"{API}.{self.validators[cat]}")
        calls = list({u(c): c for c in self._val_calls.get(cat, []) if c.func.attr == base.name}.values())  # type: ignore[union-attr]
        if len(calls) == 1:
            b = bind_call(calls[0], _call_params(base))
            crx = Expander(self.cr.node)
            cfg_args = {p_: a for p_, a in (b or {}).items() if not (isinstance(a, ast.Name) and crx.is_local(a.id))}
            if cfg_args and not any(p_ in Expander(base.node).binds for p_ in cfg_args):
                import copy

                node = copy.copy(base.node)
                node.body = rename_and_bind(list(base.node.body), {}, cfg_args)
                ast.fix_missing_locations(node)
                return FuncInfo(base.name, base.module, node, base.cls, base.outer)
        return base


# ======================================================================================== roles of _handle_data_stream
class Stream:
    """Roles in _handle_data_stream, bound by dataflow."""

    def __init__(self, prog: Program, ro: Roles) -> None:
        self.ro = ro
        # the unit of behaviour is one run of the stream coroutine: private callees that merely hold a
        # part of it (set-up, the message loop, the shutdown) are spliced in; the fan-out, which is handed
        # to a task of its own, and the role-bound methods stay calls
        self.hs = hs = splice(prog, ro.hs, ro.names)
        self.x = Expander(hs.node)
        self.comp_p, self.cat_p = hs.params[1], hs.params[2]
        loops = [n for n in walk_own(hs.node) if isinstance(n, ast.AsyncFor)]
        if len(loops) != 1 or not isinstance(loops[0].target, ast.Name):
            raise AnalysisError(f"{hs.qual}: message loop not found ({len(loops)} `async for` loops)")
        self.loop = loops[0]
        self.msg = self.loop.target.id
        self.cfg = CFG(hs.node, hs.file)
        heads = [n.id for n in self.cfg.nodes if n.kind == "for" and n.ast is self.loop]
        if len(heads) != 1:
            raise AnalysisError(f"{hs.qual}: message loop not found in the CFG")
        self.head = heads[0]
        self.build_nodes: list[int] = []  # set by check_fan: where the pairs variable is built
        self.pair_vars: set[str] = set()  # set by check_fan: the pairs variable and its plain local aliases
        # the fan-out function: the nested closure or private method called with the message
        nested = {n.name: n for n in ast.walk(hs.node) if isinstance(n, (ast.FunctionDef, ast.AsyncFunctionDef)) and n is not hs.node}
        self.fan_calls: list[tuple[ast.Call, FuncInfo, dict[str, ast.AST]]] = []
        for s in self.loop.body:
            for c in [s, *walk_own(s)]:
                if not isinstance(c, ast.Call):
                    continue
                target: FuncInfo | None = None
                if isinstance(c.func, ast.Name) and c.func.id in nested:
                    target = FuncInfo(c.func.id, hs.module, nested[c.func.id], None, hs)
                    ps = target.params
                elif _is_self_call(c) and hs.cls is not None:
                    target = prog.resolve_method(hs.cls, c.func.attr)  # type: ignore[union-attr]
                    ps = _call_params(target) if target is not None else []
                elif isinstance(c.func, ast.Name) and c.func.id.startswith("_") and c.func.id in hs.module.functions:
                    target = hs.module.functions[c.func.id]
                    ps = target.params
                if target is None:
                    continue
                b = bind_call(c, ps)
                if b is not None and any(self.x.x(a) == self.msg for a in b.values()):
                    self.fan_calls.append((c, target, b))


# ======================================================================================== C20.FAN
def _fanout_ok(st: Stream) -> tuple[bool, str, str | None]:
    """(ok, why-not, name of the pairs variable in _handle_data_stream)."""
    if len(st.fan_calls) != 1:
        return False, f"{len(st.fan_calls)} calls hand the message to a closure/private method", None
    call, pm, binding = st.fan_calls[0]
    nested = pm.outer is not None
    xp = Expander(pm.node, outer=st.x if nested else None)
    msg_ps = [p for p, a in binding.items() if st.x.x(a) == st.msg]
    if len(msg_ps) != 1:
        return False, "message passed more than once", None
    d = msg_ps[0]
    if xp.unstable(d):
        return False, "the message parameter is rebound", None
    bad = [x for x in walk_own(pm.node) if isinstance(x, FORBIDDEN_IN_FANOUT)]
    bad += [x for x in walk_own(pm.node) if isinstance(x, ast.comprehension) and x.ifs]
    if bad:
        return False, f"conditional / early exit in the fan-out ({type(bad[0]).__name__} at line {bad[0].lineno})" \
            if hasattr(bad[0], "lineno") else "filter in the fan-out", None
    loops = [s for s in walk_own(pm.node) if isinstance(s, ast.For)]
    if len(loops) != 2:
        return False, f"{len(loops)} loops instead of pairs x senders", None
    outer, inner = (loops[0], loops[1]) if any(x is loops[1] for x in ast.walk(loops[0])) else (loops[1], loops[0])
    if outer.orelse or inner.orelse or sum(1 for s in outer.body if s is inner) != 1:
        return False, "the sender loop is not directly inside the pair loop", None
    if not (isinstance(outer.target, ast.Tuple) and len(outer.target.elts) == 2
            and all(isinstance(e, ast.Name) for e in outer.target.elts) and isinstance(inner.target, ast.Name)):
        return False, "loop targets are not (extractor, senders) / sender", None
    ex, sl = (e.id for e in outer.target.elts)  # type: ignore[union-attr]
    sv = inner.target.id
    if ex == sl or len({ex, sl, sv, d}) != 4 or any(len(xp.binds.get(v, [])) != 1 for v in (ex, sl, sv)):
        return False, "loop variables are rebound", None
    # the pairs iterated: a variable of _handle_data_stream (closure variable or argument)
    it = xp.expand(outer.iter)
    if not isinstance(it, ast.Name):
        return False, f"pairs iterated: `{u(it)}` is not a plain variable", None
    if nested and not xp.is_local(it.id):
        pairs = it.id
    elif it.id in binding and isinstance(binding[it.id], ast.Name) and not xp.unstable(it.id):
        pairs = binding[it.id].id  # type: ignore[union-attr]
    else:
        return False, f"pairs iterated: `{it.id}` does not come from _handle_data_stream", None
    if xp.x(inner.iter) != sl:
        return False, f"the inner loop iterates `{xp.x(inner.iter)}`, not the pair's senders", None
    for s in outer.body:
        if s is not inner and not (isinstance(s, (ast.Assign, ast.AnnAssign)) and all(
                isinstance(t, ast.Name) for t in (s.targets if isinstance(s, ast.Assign) else [s.target]))):
            return False, f"statement other than a local binding in the pair loop (line {s.lineno})", None
    # exactly one send, of Sample(msg.timestamp, Quantity(extractor(msg))), on the loop's sender
    sends = calls_where(pm.node, lambda c: isinstance(c.func, ast.Attribute) and c.func.attr == "send", nested=True)
    if len(sends) != 1 or not any(x is sends[0] for x in ast.walk(inner)):
        return False, f"{len(sends)} send calls (exactly one, inside the sender loop, expected)", None
    send = sends[0]
    if xp.x(send.func.value) != sv or len(send.args) != 1 or send.keywords:  # type: ignore[union-attr]
        return False, f"`{u(send)}` does not send on the loop's sender", None
    val = xp.expand(send.args[0])
    sb = bind_call(val, ["timestamp", "value"]) if isinstance(val, ast.Call) and u(val.func) == "Sample" else None
    if sb is None or set(sb) != {"timestamp", "value"}:
        return False, f"`{u(val)}` is not Sample(timestamp, value)", None
    q = sb["value"]
    good = u(sb["timestamp"]) == f"{d}.timestamp" and isinstance(q, ast.Call) and u(q.func) == "Quantity" \
        and len(q.args) == 1 and not q.keywords and u(q.args[0]) == f"{ex}({d})"
    if not good:
        return False, f"sample is `{u(val)}`, expected Sample({d}.timestamp, Quantity({ex}({d})))", None
    # scheduled in the one task group whose body contains the loops
    parents = parent_map(pm.node)
    holder = parents.get(send)
    tgs = [w for w in walk_own(pm.node) if isinstance(w, ast.AsyncWith)]
    if len(tgs) != 1 or len(tgs[0].items) != 1 or not isinstance(tgs[0].items[0].optional_vars, ast.Name) \
            or not u(tgs[0].items[0].context_expr).rstrip("()").endswith("TaskGroup") \
            or not any(x is outer for b in tgs[0].body for x in ast.walk(b)):
        return False, "the loops are not inside exactly one `async with TaskGroup() as tg`", None
    tg = tgs[0].items[0].optional_vars.id
    if not (isinstance(holder, ast.Call) and isinstance(holder.func, ast.Attribute) and holder.func.attr == "create_task"
            and holder.args and holder.args[0] is send and xp.x(holder.func.value) == tg and len(xp.binds.get(tg, [])) == 1):
        return False, "the send is not scheduled with the task group's create_task", None
    stmt = parents.get(holder)
    while stmt is not None and not isinstance(stmt, ast.stmt):
        stmt = parents.get(stmt)
    if stmt is None or not any(stmt is s for s in inner.body) or not isinstance(stmt, (ast.Expr, ast.Assign, ast.AnnAssign)):
        return False, "the send is not scheduled unconditionally in the sender loop", None
    for s in inner.body:
        if s is not stmt and not (isinstance(s, (ast.Assign, ast.AnnAssign)) and all(
                isinstance(t, ast.Name) for t in (s.targets if isinstance(s, ast.Assign) else [s.target]))):
            return False, f"statement other than a local binding in the sender loop (line {s.lineno})", None
    return True, "", pairs


def _subs_stable(cls: ClassInfo) -> bool:
    """Per-component subscription dicts are created in place (setdefault) and never replaced/removed."""
    for m in cls.methods.values():
        x = Expander(m.node)
        for n in ast.walk(m.node):
            if isinstance(n, ast.Subscript) and isinstance(n.ctx, (ast.Store, ast.Del)) and x.x(n.value) == SUBS:
                # creating the entry when it is absent is not a replacement
                mcfg = CFG(m.node, m.file)
                at = [c.id for c in mcfg.nodes if c.ast is not None and any(w is n for w in node_writes(mcfg, c.id))]
                if isinstance(n.ctx, ast.Del) or not at or not _guarded(mcfg, x, at, x.x(n.slice), SUBS, want_present=False)[0]:
                    return False
            if isinstance(n, ast.Attribute) and isinstance(n.ctx, (ast.Store, ast.Del)) and u(n) == SUBS and m.name != "__init__":
                return False
            if isinstance(n, ast.Call) and isinstance(n.func, ast.Attribute) and n.func.attr in (
                    "pop", "clear", "popitem", "update", "__delitem__", "__setitem__") and x.x(n.func.value) == SUBS:
                return False
    return True


def _value_helper(prog: Program, fn: FuncInfo, keep: set[str]):  # type: ignore[no-untyped-def]
    """resolve() for splice_value_calls: non-anchored private methods / module functions of `fn`'s class/module."""
    def resolve(c: ast.Call) -> tuple[Any, list[str]] | None:
        if _is_self_call(c) and fn.cls is not None:
            name = c.func.attr  # type: ignore[union-attr]
            m = prog.resolve_method(fn.cls, name)
            if m is not None and name.startswith("_") and not name.startswith("__") and name not in keep:
                return m.node, _call_params(m)
        elif isinstance(c.func, ast.Name) and c.func.id.startswith("_") and c.func.id in fn.module.functions and c.func.id not in keep:
            m = fn.module.functions[c.func.id]
            return m.node, m.params
        return None
    return resolve


def _metric_senders_ok(prog: Program, gs: FuncInfo, ro: Roles) -> bool:
    lc = result_expr(gs.node)
    return lc is not None and len(gs.params) > 2 and _pairs_expr_ok(prog, gs, lc, gs.params[1], gs.params[2], ro)


def _pairs_expr_ok(prog: Program, ctx: FuncInfo, lc: ast.AST, cat_p: str, req_p: str, ro: Roles) -> bool:
    """`lc` is [(extractor(category, metric), [sender(req) for req in reqs]) for metric, reqs in REQUESTS.items()]
    with category = `cat_p` and REQUESTS = `req_p` (texts); value helpers are spliced first."""
    lc = splice_value_calls(lc, _value_helper(prog, ctx, ro.names))
    if not isinstance(lc, ast.ListComp) or len(lc.generators) != 1:
        return False
    g = lc.generators[0]
    if g.ifs or g.is_async or u(g.iter) != f"{req_p}.items()" or not isinstance(lc.elt, ast.Tuple) or len(lc.elt.elts) != 2 \
            or not (isinstance(g.target, ast.Tuple) and len(g.target.elts) == 2 and all(isinstance(e, ast.Name) for e in g.target.elts)):
        return False
    metric, reqs = (e.id for e in g.target.elts)  # type: ignore[union-attr]
    ex_e, snd_e = lc.elt.elts
    if not (isinstance(ex_e, ast.Call) and _is_self_call(ex_e, ro.gm.name)):
        return False
    gp = ro.gm.params[1:3]
    eb = bind_call(ex_e, gp)
    if eb is None or len(gp) != 2 or set(eb) != set(gp) or u(eb[gp[0]]) != cat_p or u(eb[gp[1]]) != metric:
        return False
    if not isinstance(snd_e, ast.ListComp) or len(snd_e.generators) != 1:
        return False
    g2 = snd_e.generators[0]
    if g2.ifs or g2.is_async or u(g2.iter) != reqs or not isinstance(g2.target, ast.Name) or g2.target.id in (metric, reqs):
        return False
    r = g2.target.id
    e = snd_e.elt
    if not (isinstance(e, ast.Call) and isinstance(e.func, ast.Attribute) and e.func.attr == "new_sender" and not e.args and not e.keywords):
        return False
    ch = e.func.value
    if not (isinstance(ch, ast.Call) and u(ch.func) == "self._registry.get_or_create"):
        return False
    cb = bind_call(ch, ["message_type", "key"])
    return cb is not None and "key" in cb and u(cb["key"]) == f"{r}.get_channel_name()"


def check_fan(run: Run, prog: Program, st: Stream) -> None:
    hs = st.hs
    run.analysed(hs.qual)
    ok, why, pairs = _fanout_ok(st)
    for _c, f, _b in st.fan_calls:
        if f.outer is None:
            run.analysed(f.qual)  # a fan-out promoted to a private method is analysed like the closure
    where = st.fan_calls[0][1] if len(st.fan_calls) == 1 else hs
    run.check(ok, "C20.FAN", where.qual if where is not hs else f"{hs.qual}.<locals>.process_msg",
              "for extractor, senders in pairs: for sender in senders: send(Sample(ts, Quantity(extractor(msg))))",
              "a message is not converted with each stream's own extractor and sent to every subscribed sender "
              f"(filter / early exit / crossed extractor): {why}", node=where.node, file=hs.file)
    pm_node = st.fan_calls[0][1].node if len(st.fan_calls) == 1 else hs.node
    tg = [w for w in walk_own(pm_node) if isinstance(w, ast.AsyncWith) and "TaskGroup" in u(w.items[0].context_expr)]
    run.check(len(tg) == 1 and pm_node is not hs.node, "C20.FAN", where.qual, "all sends of one message awaited together (TaskGroup)",
              "the sends of one message are not awaited before the fan-out task ends", node=pm_node, file=hs.file)
    ro = st.ro
    gs = ro.gs
    subs_here = f"{SUBS}[{st.comp_p}]"
    if gs is not None:
        run.analysed(gs.qual)
        run.check(_metric_senders_ok(prog, gs, ro), "C20.FAN", gs.qual,
                  "[(extractor(category, metric), [sender(req) for req in reqs]) for metric, reqs in requests.items()]",
                  "extractor and senders of a pair do not come from the same (metric, requests) item, or some "
                  "request gets no sender", node=gs.node, file=gs.file)
    # the pairs used are those of this component's current requests: every value the pairs variable
    # can hold is the empty list or _get_metric_senders(category, subscriptions[comp_id])
    ok = pairs is not None
    built = 0
    aliased = False
    pair_vars: set[str] = set()
    if pairs is not None:
        # the values the pairs variable can hold, through plain local aliases (a spliced helper's result)
        vals = []
        todo = [pairs]
        while todo:
            nm = todo.pop()
            if nm in pair_vars:
                continue
            pair_vars.add(nm)
            for v in st.x.all_values(nm):
                if isinstance(v, ast.Name) and st.x.is_local(v.id) and v.id not in st.x.params:
                    todo.append(v.id)
                else:
                    vals.append(v)
        for v in vals:
            if isinstance(v, ast.List) and not v.elts:
                continue
            c = slot_reads(st.x.expand(v), SUBS) if v is not None else None
            if gs is None:
                # the builder is inlined: the value itself must be the pairs expression over this
                # component's subscriptions
                good = c is not None and _pairs_expr_ok(prog, hs, c, st.cat_p, subs_here, ro)
                run.check(good, "C20.FAN", hs.qual,
                          "[(extractor(category, metric), [sender(req) for req in reqs]) for metric, reqs in requests.items()]",
                          "extractor and senders of a pair do not come from the same (metric, requests) item, or some "
                          "request gets no sender", node=v, file=hs.file)
                ok = ok and good
                built += 1 if good else 0
                aliased = aliased or (v is not None and subs_here not in u(v))
                continue
            b = bind_call(c, gs.params[1:]) if isinstance(c, ast.Call) and _is_self_call(c, gs.name) else None
            if b is None or set(b) != set(gs.params[1:]) or u(b[gs.params[1]]) != st.cat_p \
                    or u(b[gs.params[2]]) != subs_here:
                ok = False
                continue
            built += 1
            raw = bind_call(v, gs.params[1:]) if isinstance(v, ast.Call) else None
            aliased = aliased or raw is None or u(raw[gs.params[2]]) != subs_here
        ok = ok and built >= 1
        st.pair_vars = set(pair_vars)
        if ok and aliased and hs.cls is not None and not _subs_stable(hs.cls):
            ok = False  # an alias taken earlier may be stale once the per-component dict can be replaced
    run.check(ok, "C20.FAN", hs.qual, "stream_senders built from this component's subscriptions",
              "the fan-out does not use this component's current subscriptions", node=hs.node, file=hs.file)
    # ... and they are built whenever the component has subscriptions: the message loop cannot be
    # reached without the build except over the "no subscriptions" side of a membership test
    cfg = st.cfg
    # the build: where the pairs variable receives anything but the empty list
    build = [n.id for n in cfg.nodes if pairs is not None and n.kind == "stmt" and isinstance(n.ast, (ast.Assign, ast.AnnAssign))
             and n.ast.value is not None and not (isinstance(n.ast.value, ast.List) and not n.ast.value.elts)
             and not isinstance(n.ast.value, ast.Name)
             and any(isinstance(w, ast.Name) and w.id in pair_vars for w in node_writes(cfg, n.id))]
    st.build_nodes = build
    skip_edges: set[tuple[int, str]] = set()
    for t in cfg.nodes:
        if t.kind == "test" and t.ast is not None:
            pol = presence(st.x.expand(t.ast), st.comp_p, SUBS)
            if pol is not None:
                skip_edges.add((t.id, "false" if pol == 1 else "true"))  # the edge taken when there are no subscriptions
    wit = cfg.path(cfg.entry, [st.head], avoid=build,
                   edge_ok=lambda a, b, lab: _normal(a, b, lab) and (a, lab) not in skip_edges) if build else None
    run.check(bool(build) and wit is None, "C20.FAN", hs.qual, "subscriptions present -> senders built before the message loop",
              "the stream task can enter its message loop without senders although the component has subscriptions: "
              "every message is consumed and delivered to nobody", node=hs.node, file=hs.file, path=cfg.describe_path(wit))


# ======================================================================================== the registration unit
class Registration:
    """Where the stream task of a component is (re)registered: the role of _update_streams, played by
    a method of its own or by part of add_metric.  `k` is the text of the component key, `cat` of the category
    the new task must be started with."""

    def __init__(self, prog: Program, ro: Roles) -> None:
        self.fn = ro.us
        self.node = splice(prog, ro.us, ro.names).node
        self.x = x = Expander(self.node)
        self.cfg = CFG(self.node, ro.us.file)
        if not ro.us_inlined:
            self.k, self.cat = ro.us.params[1], ro.us.params[2]
        else:
            # the component of the request: the key under which add_metric files the request
            comps = set()
            for n in ast.walk(self.node):
                if isinstance(n, (ast.Subscript, ast.Call)):
                    p = cpath(x.expand(n))
                    if p is not None and p[0] == SUBS and len(p) >= 2:
                        comps.add(p[1])
            self.k = next(iter(comps)) if len(comps) == 1 else "<component of the request>"
            self.cat = f"await self.{ro.lookup}({self.k})"


# ======================================================================================== C20.ATOM
def _normal(_a: int, _b: int, lab: str) -> bool:
    return not lab.startswith("exc:")


def check_atom(run: Run, prog: Program, st: Stream) -> None:
    hs = st.hs
    cfg = st.cfg
    h = cfg.nodes[st.head]
    dv = st.msg
    fan_txt = {st.x.x(c) for c, _f, _b in st.fan_calls}

    def denotes(a: ast.AST, calls: list[ast.Call], texts: set[str]) -> bool:
        """`a` is one of `calls`, or a local bound once to one of them (by identity; by expanded text otherwise)."""
        if any(a is c for c in calls):
            return True
        if isinstance(a, ast.Name):
            v = st.x.value_of(a.id)
            if v is not None and any(v is c for c in calls):
                return True
        return st.x.x(a) in texts

    fan_nodes = [c for c, _f, _b in st.fan_calls]

    def hands_over(c: ast.Call) -> bool:
        return _spawn_name(c) is not None and denotes(c.args[0], fan_nodes, fan_txt)

    hand = nodes_with_call(cfg, hands_over)
    first = [m for m, lab in cfg.succ[h.id] if lab == "iter"]
    ok = len(hand) == 1 and len(st.fan_calls) == 1 and len(first) == 1
    wit = None
    if ok:
        awaits = [x for x in cfg.reachable(first, avoid=[h.id]) if cfg.is_await(x) and x != hand[0]]
        wit = cfg.path(first[0], awaits, avoid=hand) if first[0] not in hand and awaits else None
        if first[0] not in hand and first[0] in awaits:
            wit = [(first[0], "iter")]
        ok = wit is None and not cfg.is_await(hand[0])
        every = cfg.path(first[0], [h.id], avoid=hand, edge_ok=lambda a, b, lab: not lab.startswith("exc:")) if first[0] not in hand else None
        ok = ok and every is None
    run.check(ok, "C20.ATOM", hs.qual, f"create_task(process_msg({dv})) before any await of the iteration",
              "an await lies between taking a message from the API receiver and handing it to its fan-out "
              "task: if a new subscription cancels the stream task at that await, the message is lost for "
              "every existing stream", node=h.ast, file=hs.file, path=cfg.describe_path(wit))
    spawns = calls_where(hs.node, hands_over, nested=False)
    ok = len(spawns) == 1 and _spawn_name(spawns[0]) in INDEPENDENT_SPAWN
    run.check(ok, "C20.ATOM", hs.qual, "fan-out runs as an independent task",
              "the fan-out is owned by the cancellable stream task (awaited inline or in its task group): "
              "cancelling the stream task on a new subscription would drop a message in flight",
              node=hs.node, file=hs.file)
    # when the API stream ends, the fan-out tasks still in flight are awaited before any channel is closed
    spawn_txt = {st.x.x(c) for c in spawns}
    pools = {c.func.value.id for c in calls_where(hs.node, lambda c: isinstance(c.func, ast.Attribute)  # type: ignore[union-attr]
             and c.func.attr in ("add", "append") and isinstance(c.func.value, ast.Name) and len(c.args) == 1
             and denotes(c.args[0], spawns, spawn_txt), nested=False)}

    def closes(c: ast.Call) -> bool:
        if isinstance(c.func, ast.Attribute) and c.func.attr == "close_and_remove":
            return True
        if _is_self_call(c) and hs.cls is not None:
            m = prog.resolve_method(hs.cls, c.func.attr)  # type: ignore[union-attr]
            return m is not None and any(isinstance(n, ast.Attribute) and n.attr == "close_and_remove" for n in ast.walk(m.node))
        return False

    def joins(c: ast.Call) -> bool:
        f = u(c.func)
        if f == "asyncio.gather":
            return any(isinstance(a, ast.Starred) and isinstance(a.value, ast.Name) and a.value.id in pools for a in c.args)
        if f == "asyncio.wait":
            return bool(c.args) and isinstance(c.args[0], ast.Name) and c.args[0].id in pools and not any(
                k.arg in ("timeout", "return_when") for k in c.keywords) and len(c.args) == 1
        return False

    def any_call(nid: int, pred: Any) -> bool:
        n = cfg.nodes[nid]
        return n.ast is not None and any(isinstance(c, ast.Call) and pred(c) for part in own_parts(n) for c in ast.walk(part))

    def empty_edge(test: ast.AST) -> str | None:
        """Label of the branch on which the pool of fan-out tasks is known to be empty."""
        c = canon(test)
        for pl in pools:
            ln = f"len({pl})"
            if c in (("truthy", pl), ("truthy", ln), ("<", "0", ln), ("<=", "1", ln), ("!=", frozenset({ln, "0"}))):
                return "false"
            if c in (("not", ("truthy", pl)), ("not", ("truthy", ln)), ("==", frozenset({ln, "0"})),
                     ("not", ("<", "0", ln)), ("not", ("<=", "1", ln))):
                return "true"
        return None

    close_nodes = [n.id for n in cfg.nodes if any_call(n.id, closes)]
    join_nodes = [n.id for n in cfg.nodes if cfg.is_await(n.id) and any_call(n.id, joins)]
    nothing_in_flight = {(t.id, empty_edge(t.ast)) for t in cfg.nodes if t.kind == "test" and t.ast is not None}
    after = [m for m, lab in cfg.succ[h.id] if lab == "done"]
    wit = None
    for d in after:
        if close_nodes and d not in join_nodes:
            wit = wit or cfg.path(d, close_nodes, avoid=join_nodes,
                                  edge_ok=lambda a, b, lab: _normal(a, b, lab) and (a, lab) not in nothing_in_flight)
    run.check(wit is None, "C20.ATOM", hs.qual, "fan-out tasks in flight are awaited before the channels are closed",
              "when the API stream ends, the channels are closed while fan-out tasks of the last messages may not "
              "have sent yet: those messages are lost for every stream", node=hs.node, file=hs.file,
              path=cfg.describe_path(wit))
    _check_outlives(run, prog, st, hand, closes, join_nodes, nothing_in_flight)
    us = st.ro.us
    run.analysed(us.qual)
    reg = Registration(prog, st.ro)
    node, x, k = reg.node, reg.x, reg.k
    cancels = calls_where(node, lambda c: isinstance(c.func, ast.Attribute) and c.func.attr == "cancel", nested=True)
    ok = len(cancels) == 1 and x.x(cancels[0].func.value) in (f"{TASKS}[{k}]", f"{TASKS}.get({k})")  # type: ignore[union-attr]
    run.check(ok, "C20.ATOM", us.qual, "only the component's stream task is cancelled",
              "updating the streams cancels something other than the component's stream task", node=us.node, file=us.file)


SENDER_CLOSERS = {"aclose", "close"}
PAIR_EMPTIERS = {"clear", "pop", "remove", "__delitem__", "__setitem__"}


def _check_outlives(run: Run, prog: Program, st: Stream, hand: list[int], closes_channels: Any, join_nodes: list[int],
                    nothing_in_flight: set[tuple[int, str | None]]) -> None:
    """The fan-out task is independent of the stream task (so that cancelling the stream task for a new
    subscription cannot drop a message already taken from the API receiver) - that only holds if what the
    fan-out task works with stays usable until the task is done.  From the hand-over of a message on, over
    *every* edge (normal, error, cancellation; `finally:` bodies are instantiated per way of reaching them), no
    statement of the stream task may close a sender of the pairs, close the channels, or empty / rebind the pairs
    the fan-out reads, unless the pool of fan-out tasks has been awaited in between (normal edge out of a
    gather / wait of the pool) or is known to be empty."""
    hs, cfg = st.hs, st.cfg
    pair_vars = st.pair_vars
    own = list(walk_own(hs.node))
    tainted = derived_names(own, pair_vars)
    nested = {n.name: n for n in ast.walk(hs.node) if isinstance(n, (ast.FunctionDef, ast.AsyncFunctionDef)) and n is not hs.node}
    closure_reads = any(f.outer is not None and any(isinstance(n, ast.Name) and n.id in pair_vars for n in ast.walk(f.node))
                        for _c, f, _b in st.fan_calls)

    def closes_sender(c: ast.Call, taint: set[str], depth: int = 0) -> bool:
        f = c.func
        if isinstance(f, ast.Attribute) and f.attr in SENDER_CLOSERS and mentions(f.value, taint):
            return True
        if depth >= 2 or not taint:
            return False
        node: Any = None
        ps: list[str] = []
        free: set[str] = set()
        if isinstance(f, ast.Name) and f.id in nested:
            node, ps, free = nested[f.id], params_of(nested[f.id]), set(taint)
        elif _is_self_call(c) and hs.cls is not None:
            m = prog.resolve_method(hs.cls, f.attr)  # type: ignore[union-attr]
            if m is not None:
                node, ps = m.node, _call_params(m)
        elif isinstance(f, ast.Name) and f.id in hs.module.functions:
            m = hs.module.functions[f.id]
            node, ps = m.node, m.params
        if node is None or any(node is fn.node for _c, fn, _b in st.fan_calls):
            return False
        b = bind_call(c, ps) or {}
        seed = {p_ for p_, a in b.items() if mentions(a, taint)} | (free - set(ps))
        if not seed:
            return False
        body = list(walk_own(node))
        inner = derived_names(body, seed)
        return any(isinstance(k, ast.Call) and closes_sender(k, inner, depth + 1) for k in body)

    def invalidates(nid: int) -> str | None:
        n = cfg.nodes[nid]
        if n.ast is None or n.kind == "handler" or isinstance(n.ast, (ast.FunctionDef, ast.AsyncFunctionDef, ast.ClassDef)):
            return None
        for part in own_parts(n):
            for c in [part, *walk_own(part)]:
                if not isinstance(c, ast.Call):
                    continue
                if closes_channels(c):
                    return "closes the channels of the component's streams"
                if closes_sender(c, tainted):
                    return "closes a sender of the pairs the fan-out sends on"
                if isinstance(c.func, ast.Attribute) and c.func.attr in PAIR_EMPTIERS and isinstance(c.func.value, ast.Name) \
                        and c.func.value.id in pair_vars:
                    return "empties the pairs the fan-out iterates"
        if n.kind == "stmt" and isinstance(n.ast, ast.Delete) and any(mentions(t, pair_vars) for t in n.ast.targets):
            return "deletes (from) the pairs the fan-out iterates"
        if nid not in st.build_nodes:
            for w in node_writes(cfg, nid):
                if isinstance(w, ast.Name) and w.id in pair_vars and closure_reads and n.kind == "stmt":
                    return "rebinds the pairs variable the fan-out closure reads when it runs"
                if isinstance(w, ast.Subscript) and isinstance(w.value, ast.Name) and w.value.id in pair_vars:
                    return "overwrites an entry of the pairs the fan-out iterates"
        return None

    bad = {n.id: why for n in cfg.nodes for why in [invalidates(n.id)] if why}
    starts = [m for h_ in hand for m, lab in cfg.succ[h_] if _normal(h_, m, lab)]
    joined = set(join_nodes)

    def still_in_flight(a: int, b: int, lab: str) -> bool:
        # a completed join (normal edge out of it) and the "pool is empty" side of a test end the obligation
        return not (a in joined and _normal(a, b, lab)) and (a, lab) not in nothing_in_flight

    wit = None
    for only in ("exc:C", "exc:E", ""):  # (the witness shown is the cancellation by a new subscription when there is one)
        for s0 in starts:
            wit = wit or (cfg.path(s0, list(bad), edge_ok=lambda a, b, lab, only=only: still_in_flight(a, b, lab) and (
                not lab.startswith("exc:") or not only or lab == only)) if bad else None)
    what = ""
    how = ""
    if wit:
        end = wit[-1][0]
        what = f"`{cfg.nodes[end].text(70)}` (line {cfg.nodes[end].lineno}) {bad[end]}"
        kinds = [lab for _n, lab in wit if lab.startswith("exc:")]
        how = {"exc:C": "when the stream task is cancelled (a new subscription for the component: _update_streams cancels it)",
               "exc:E": "when an error ends the stream task (run_forever restarts it)",
               "exc:B": "when a BaseException ends the stream task"}.get(kinds[0], "") if kinds else "when the API stream ends"
    run.check(bool(hand) and wit is None, "C20.ATOM", hs.qual,
              "what a fan-out task in flight works with (the pairs, their senders, the channels) is left alone until the task was awaited",
              f"{what} {how} while fan-out tasks of messages already taken from the API receiver may not have sent yet: the fan-out "
              "runs as a task of its own precisely so that ending the stream task cannot drop a message in flight, but its "
              "sends then fail (SenderClosedError / closed channel) or find nothing to send to, and that sample never reaches "
              "the existing subscriptions (the successor task does not see the message again, it was consumed) - the same for a "
              "`finally:` / `except CancelledError:` that closes the old senders, closes the channels, or clears / rebinds the "
              "pairs; await the pool of fan-out tasks first, or leave the senders to the garbage collector",
              node=cfg.nodes[wit[-1][0]].ast if wit else hs.node, file=hs.file, path=cfg.describe_path(wit),
              instance=f"{hs.qual} :: senders / channels / pairs untouched while fan-out tasks are in flight")


# ======================================================================================== C20.SRC
SEND_METHODS = {"send", "send_nowait", "put", "put_nowait"}
CHANNELS = "_internal._channels"


def check_source(run: Run, prog: Program, st: Stream) -> None:
    """Exactly once, seen from the sending side: the only thing that is ever put on a metric channel is a
    sample of the message the receive loop holds *now*, and that message is handed to the fan-out once.

      * the fan-out function is referenced in exactly one place, the hand-over call in the body of the message
        loop (no second call before / after the loop, in another method, as a callback or through partial);
      * the message argument of that call is the loop's target and the loop is the only thing that binds it
        (not re-bound in the body to something remembered, not written by a closure through `nonlocal`);
      * the hand-over is evaluated at most once per iteration (not in a nested loop / comprehension);
      * the module has no send besides the fan-out's own (no second send loop over the pairs);
      * the registry's channels do not replay on their own (`Broadcast(resend_latest=True)`).
    FAN has already shown that the sample built inside the fan-out comes from its (un-rebound) message parameter.
    """
    hs, cfg = st.hs, st.cfg
    mod = prog.module(SRC)
    tail = ("every message taken from the component's API stream must reach the senders exactly once: the fan-out sends to "
            "EVERY sender the task has built, the streams that were already subscribed included, and the stream task is "
            "restarted on every new subscription - so anything else that is sent (the last message kept in an attribute / a "
            "per-component dict and replayed when a task starts, a message remembered from an earlier iteration, a cached "
            "sample, a second send loop) is delivered a second time to the existing streams (1, 2, 2, 3, ...) and gives a "
            "new stream a sample from before it subscribed")
    inst = f"{hs.qual} :: "
    if len(st.fan_calls) != 1:
        run.check(False, "C20.SRC", hs.qual, "one hand-over of the loop's message to the fan-out function",
                  f"{len(st.fan_calls)} calls in the message loop hand the message to a closure / private method; {tail}",
                  node=st.loop, file=hs.file, instance=inst + "fan-out referenced only by the hand-over in the message loop")
        return
    call, pm, binding = st.fan_calls[0]
    name = pm.name
    # ---- who refers to the fan-out function
    refs: list[ast.AST] = []
    if pm.outer is not None:
        # a closure of the stream coroutine: visible in that coroutine (its other closures included) only
        refs = [n for n in ast.walk(hs.node) if isinstance(n, ast.Name) and n.id == name and isinstance(n.ctx, ast.Load)]
        defs = [n for n in ast.walk(hs.node) if isinstance(n, (ast.FunctionDef, ast.AsyncFunctionDef, ast.ClassDef)) and n.name == name]
        rebound = len(defs) != 1 or len(st.x.binds.get(name, [])) != 1
        elsewhere = 0
    else:
        # a private method / module function: everything in the module can reach it
        def is_ref(n: ast.AST) -> bool:
            return (isinstance(n, ast.Attribute) and n.attr == name) or (isinstance(n, ast.Name) and n.id == name) \
                or (isinstance(n, ast.Constant) and n.value == name)

        refs = [n for n in ast.walk(hs.node) if is_ref(n)]
        rebound = False
        elsewhere = sum(1 for n in ast.walk(mod.tree) if is_ref(n)) - 1
    other = [r for r in refs if r is not call.func]
    where = ""
    if other:
        par = parent_map(hs.node)
        holder: ast.AST | None = other[0]
        while holder is not None and not isinstance(holder, ast.stmt):
            holder = par.get(holder)
        in_loop = holder is not None and any(holder is s2 for b in st.loop.body for s2 in ast.walk(b))
        where = f"`{u(holder)[:90] if holder is not None else u(other[0])}` (line {getattr(other[0], 'lineno', '?')}, " \
                f"{'inside' if in_loop else 'outside'} the message loop) also refers to `{name}`"
    elif elsewhere > 0:
        where = f"`{name}` is referred to {elsewhere} more time(s) in {mod.rel} outside the stream coroutine"
    elif rebound:
        where = f"`{name}` is defined or bound more than once in the stream coroutine"
    run.check(not other and elsewhere <= 0 and not rebound and len(refs) == 1, "C20.SRC", hs.qual,
              f"`{name}` is referenced once: by the hand-over `{u(call)}` in the message loop",
              f"the fan-out function is reached from somewhere else than the hand-over of the receive loop's current message: "
              f"{where or 'the hand-over call is not its only reference'}; what it is given there is not a message just taken from "
              f"the API receiver - {tail}", node=other[0] if other else st.loop, file=hs.file,
              instance=inst + "fan-out referenced only by the hand-over in the message loop")
    # ---- what is handed over, and how often
    binds = st.x.binds.get(st.msg, [])
    nonlocal_w = [n for n in ast.walk(hs.node) if isinstance(n, (ast.Nonlocal, ast.Global)) and st.msg in n.names]
    msg_args = [a for a in binding.values() if st.x.x(a) == st.msg]
    single = len(binds) == 1 and st.msg not in st.x.params and not nonlocal_w and len(msg_args) == 1 \
        and isinstance(st.x.expand(msg_args[0]), ast.Name)
    par = parent_map(hs.node)
    up: ast.AST | None = par.get(call)
    multi = None
    while up is not None and not isinstance(up, ast.stmt):
        if isinstance(up, (*_COMPREHENSIONS, ast.Lambda)):
            multi = up
        up = par.get(up)
    hand = nodes_with_call(cfg, lambda c: c is call)
    again = None
    for hn in hand:
        again = again or cfg.path(hn, hand, avoid=[st.head], edge_ok=_normal, include_src=False)
    why = ""
    if not single:
        why = f"`{st.msg}`, the target of the message loop, is bound {len(binds)} time(s) in the stream coroutine" \
              f"{' and written through nonlocal' if nonlocal_w else ''}: what is handed over may be a message kept from an earlier " \
              "iteration / an earlier task instead of the one just received"
    elif multi is not None or again is not None or not hand:
        why = "the hand-over is evaluated more than once for one message (nested loop / comprehension)"
    run.check(single and multi is None and again is None and bool(hand), "C20.SRC", hs.qual,
              f"`{u(call)}`: the message handed over is the loop target `{st.msg}` (bound by the loop only), once per iteration",
              f"{why}; {tail}", node=call, file=hs.file, path=cfg.describe_path(again),
              instance=inst + "the hand-over passes the loop's current message, once per iteration")
    # ---- nothing else sends
    sends_mod = [c for c in ast.walk(mod.tree) if isinstance(c, ast.Call) and isinstance(c.func, ast.Attribute) and c.func.attr in SEND_METHODS]
    sends_fan = [c for c in ast.walk(pm.node) if isinstance(c, ast.Call) and isinstance(c.func, ast.Attribute) and c.func.attr in SEND_METHODS]
    sends_hs = [c for c in ast.walk(hs.node) if isinstance(c, ast.Call) and isinstance(c.func, ast.Attribute) and c.func.attr in SEND_METHODS
                and not any(c is k for k in sends_fan)]
    extra = sends_hs[0] if sends_hs else None
    ok = len(sends_fan) == 1 and len(sends_mod) == 1 and not sends_hs
    run.check(ok, "C20.SRC", hs.qual, f"the one send of {mod.rel} is the fan-out's `{u(sends_fan[0]) if sends_fan else '?'}`",
              f"{mod.rel} sends in {len(sends_mod)} place(s), {len(sends_fan)} of them inside the fan-out function"
              + (f" (`{u(extra)[:80]}`, line {extra.lineno})" if extra is not None else "") +
              f": a send outside the per-message fan-out puts something on a metric channel that is not the sample of the message "
              f"just received - {tail}", node=extra or hs.node, file=hs.file,
              instance=inst + "no send besides the fan-out's")
    # ---- the channels themselves do not replay
    try:
        ch_mod = prog.module(CHANNELS)
    except (AnalysisError, KeyError):
        ch_mod = None
    if ch_mod is not None:
        made = [c for c in ast.walk(ch_mod.tree) if isinstance(c, ast.Call) and u(c.func).split(".")[-1].split("[")[0] == "Broadcast"]
        bad = [c for c in made if any(k.arg is None or (k.arg == "resend_latest" and const_bool(k.value) is not False) for k in c.keywords)
               or any(isinstance(a, ast.Starred) for a in c.args) or len(c.args) > 1]
        run.check(bool(made) and not bad, "C20.SRC", f"{CHANNELS}:ChannelRegistry", "Broadcast(...) without resend_latest",
                  f"`{u(bad[0])[:90] if bad else 'no Broadcast(...) construction found'}`: a channel of the registry that re-sends its "
                  "latest message hands every receiver created later (a new subscription's stream) a sample that was sent before it "
                  "subscribed", node=bad[0] if bad else None, file=ch_mod.rel,
                  instance=f"{CHANNELS}:ChannelRegistry :: registry channels do not replay their latest message")


_COMPREHENSIONS = (ast.ListComp, ast.SetComp, ast.DictComp, ast.GeneratorExp)


# ======================================================================================== C20.ONCE
def _guarded(cfg: CFG, x: Expander, targets: list[int], key: str, cont: str, want_present: bool) -> tuple[bool, list | None, int]:
    """Every path entry -> targets passes a membership guard of (key, cont) and the targets lie only on
    its absent (want_present=False) / present side.  Returns (ok, witness path, number of guards)."""
    guards: list[tuple[int, int]] = []
    for t in cfg.nodes:
        if t.kind == "test" and t.ast is not None:
            p = presence(expand_at(cfg, x, t.id, t.ast), key, cont)
            if p is not None:
                guards.append((t.id, p))
    if not guards or not targets:
        return False, cfg.path(cfg.entry, targets) if targets else None, len(guards)
    wit = cfg.path(cfg.entry, targets, avoid=[g for g, _ in guards])
    ok = wit is None
    for g, p in guards:
        wrong_label = ("true" if p == 1 else "false") if not want_present else ("false" if p == 1 else "true")
        wrong = cfg.reachable(branch(cfg, g, wrong_label), avoid=[g])
        if any(t in wrong for t in targets):
            ok = False
            wit = wit or cfg.path(g, targets)
    return ok, wit, len(guards)


def _self_callers(cls: ClassInfo, name: str) -> list[tuple[FuncInfo, ast.Call]]:
    return [(m, c) for m in cls.methods.values() for c in ast.walk(m.node)
            if isinstance(c, ast.Call) and _is_self_call(c, name)]


def check_once(run: Run, prog: Program, st: Stream) -> None:
    cls = prog.cls(API)
    writers_of_recv: set[str] = set()
    n_w = 0
    for m in cls.methods.values():
        x = Expander(m.node)
        cfg = None
        for s in walk_own(m.node):
            tg: list[ast.AST] = []
            if isinstance(s, ast.Assign):
                tg = list(s.targets)
            elif isinstance(s, (ast.AugAssign, ast.AnnAssign)):
                tg = [s.target]
            for t in tg:
                if isinstance(t, ast.Subscript) and x.x(t.value) == RECV:
                    n_w += 1
                    writers_of_recv.add(m.name)
                    cfg = cfg or CFG(m.node, m.file)
                    key = x.x(t.slice)
                    node = [n.id for n in cfg.nodes if n.ast is s]
                    ok, wit, n_g = _guarded(cfg, x, node, key, RECV, want_present=False)
                    if not ok and n_g == 0 and isinstance(t.slice, ast.Name) and t.slice.id in m.params[1:] \
                            and m.name.startswith("_") and m.name not in st.ro.names:
                        # an extracted "open the receiver" helper: the guard may sit at its call sites
                        sites = _self_callers(cls, m.name)
                        refs = [a for mm in cls.methods.values() for a in ast.walk(mm.node)
                                if isinstance(a, ast.Attribute) and a.attr == m.name]
                        ok = bool(sites) and len(refs) == len(sites)  # never passed around as a callback
                        for caller, c in sites:
                            b = bind_call(c, m.params[1:])
                            ccfg = CFG(caller.node, caller.file)
                            cx = Expander(caller.node)
                            cn = ccfg.node_containing(c)
                            ok2 = b is not None and t.slice.id in b and bool(cn) and _guarded(
                                ccfg, cx, cn, cx.x(b[t.slice.id]), RECV, want_present=False)[0]
                            ok = ok and ok2
                            if ok2:
                                writers_of_recv.add(caller.name)
                    run.check(ok, "C20.ONCE", m.qual, s,
                              "an API receiver is (re)created although one exists for the component: whatever "
                              "the old receiver had buffered is lost and later messages may be duplicated",
                              node=s, file=m.file, path=cfg.describe_path(wit))
            if isinstance(s, ast.Delete) and any(RECV in x.x(t) or TASKS in x.x(t) for t in s.targets):
                run.violation("C20.ONCE", m.qual, s, "an API receiver / stream task entry is deleted", node=s, file=m.file)
            if isinstance(s, ast.Attribute) and isinstance(s.ctx, (ast.Store, ast.Del)) and u(s) in (RECV, TASKS) and m.name != "__init__":
                run.violation("C20.ONCE", m.qual, s, "the per-component receiver/task map is replaced as a whole",
                              node=s, file=m.file)
        # removal / replacement through a method call, also from lambdas, callbacks and nested functions
        for c in ast.walk(m.node):
            if isinstance(c, ast.Call) and isinstance(c.func, ast.Attribute) and c.func.attr in REMOVERS \
                    and x.x(c.func.value) in (RECV, TASKS):
                run.violation("C20.ONCE", m.qual, c,
                              f"`{u(c)[:60]}` removes or replaces a per-component receiver/task entry outside the "
                              "create-once / cancel-then-replace discipline (e.g. a done-callback keyed by "
                              "component id removes its successor's entry, leaving an un-cancelled stale task "
                              "that steals messages)", node=c, file=m.file)
    if n_w < 1:
        raise AnalysisError("C20.ONCE: no receiver creation found")
    for cat in VALIDATORS:
        v = st.ro.validator(prog, cat)
        vname = v.name
        vx_ = Expander(v.node)
        reaches = any(isinstance(n, ast.Subscript) and isinstance(n.ctx, ast.Store) and vx_.x(n.value) == RECV for n in ast.walk(v.node)) \
            or any(_is_self_call(c) and c.func.attr in writers_of_recv and c.func.attr != v.name  # type: ignore[union-attr]
                   for c in ast.walk(v.node) if isinstance(c, ast.Call))
        run.check(reaches, "C20.ONCE", v.qual, f"{vname}: registers the receiver it opens",
                  "the validator does not register an API receiver for the component: the stream task finds "
                  "none and fails on every start, so no message of that component is ever delivered",
                  node=v.node, file=v.file,
                  instance=f"{v.qual} [{cat}] :: registers the receiver it opens (create-once checked at the write)")
    # stream tasks: registered only by _update_streams (or a helper spliced into it)
    us = st.ro.us
    reg = Registration(prog, st.ro)
    us_node = reg.node
    writers = []
    for m in cls.methods.values():
        x = Expander(m.node)
        for s in ast.walk(m.node):
            if isinstance(s, (ast.Assign, ast.AnnAssign, ast.AugAssign)):
                tgs = s.targets if isinstance(s, ast.Assign) else [s.target]
                if any(isinstance(t, ast.Subscript) and x.x(t.value) == TASKS for t in tgs):
                    writers.append((m.name, s))
    ok = bool(writers)
    for name, _s in writers:
        if name == us.name:
            continue
        sites = _self_callers(cls, name)
        spliced = name not in st.ro.names and bool(sites) and all(c.name == us.name for c, _ in sites) \
            and not any(isinstance(c, ast.Call) and _is_self_call(c, name) for c in ast.walk(us_node))
        ok = ok and spliced
    run.check(ok, "C20.ONCE", us.qual, "comp_data_tasks[comp_id] written only in _update_streams",
              "stream tasks are registered elsewhere", node=writers[0][1] if writers else None,
              file=prog.module(SRC).rel)
    cfg, x, k, cat_p = reg.cfg, reg.x, reg.k, reg.cat
    wr = [n.id for n in cfg.nodes if n.kind == "stmt" and any(
        isinstance(w, ast.Subscript) and x.x(w.value) == TASKS and x.x(w.slice) == k for w in node_writes(cfg, n.id))]
    cn = nodes_with_call(cfg, lambda c: isinstance(c.func, ast.Attribute) and c.func.attr == "cancel")
    wr_any = [n.id for n in cfg.nodes if any(
        isinstance(w, ast.Subscript) and x.x(w.value) == TASKS for w in node_writes(cfg, n.id))]
    ok = len(wr) == 1 and wr_any == wr and len(cn) == 1
    if ok:
        g_ok, _w, n_g = _guarded(cfg, x, cn, k, TASKS, want_present=True)
        ok = g_ok and n_g == 1
        guard = [t.id for t in cfg.nodes if t.kind == "test" and t.ast is not None and presence(x.expand(t.ast), k, TASKS) is not None]
        if ok:
            p = presence(x.expand(cfg.nodes[guard[0]].ast), k, TASKS)  # type: ignore[arg-type]
            present = branch(cfg, guard[0], "true" if p == 1 else "false")
            # every registration passes the guard, and on its present side the cancel comes first
            ok = cfg.path(cfg.entry, wr, avoid=guard) is None and all(
                s in cn or cfg.path(s, wr, avoid=cn) is None for s in present)
    run.check(ok, "C20.ONCE", us.qual, "cancel the previous stream task (if any), then register the new one",
              "a new stream task is registered without cancelling the previous one for that component",
              node=us.node, file=us.file)
    s = cfg.nodes[wr[0]].ast if wr else None
    ok = False
    if isinstance(s, (ast.Assign, ast.AnnAssign)) and s.value is not None:
        v = x.expand(s.value)
        if isinstance(v, ast.Call) and _spawn_name(v) in INDEPENDENT_SPAWN and len(v.args) == 1 \
                and all(kw.arg == "name" for kw in v.keywords):
            rf = v.args[0]
            if isinstance(rf, ast.Call) and u(rf.func) == "run_forever" and len(rf.args) == 1 and not rf.keywords:
                f = rf.args[0]
                inner: ast.Call | None = None
                if isinstance(f, ast.Lambda) and not params_of(f) and isinstance(f.body, ast.Call):
                    inner = f.body
                elif isinstance(f, ast.Call) and u(f.func) in ("partial", "functools.partial") and f.args:
                    inner = ast.Call(func=f.args[0], args=f.args[1:], keywords=f.keywords)
                if inner is not None and _is_self_call(inner, st.hs.name):
                    b = bind_call(inner, st.hs.params[1:])
                    ok = b is not None and set(b) == set(st.hs.params[1:]) and x.x(b[st.comp_p]) == k and x.x(b[st.cat_p]) == cat_p
    run.check(ok, "C20.ONCE", us.qual, "new task = run_forever(_handle_data_stream(comp_id, category))",
              "the registered task does not stream this component", node=us.node, file=us.file)
    cr = st.ro.cr
    cfg = CFG(cr.node, cr.file)
    x = Expander(cr.node)
    openers = nodes_with_call(cfg, lambda c: _is_self_call(c) and c.func.attr in st.ro.validators.values()  # type: ignore[union-attr]
                              and c.func.attr != cr.name)  # type: ignore[union-attr]
    for arm in st.ro.arms.values():  # validators inlined into the dispatch: the entry of each arm is what must be guarded
        first = arm[0] if arm else None
        openers += [n.id for n in cfg.nodes if first is not None and n.ast is not None and (
            n.ast is first or n.ast is getattr(first, "test", None) or (isinstance(first, (ast.For, ast.AsyncFor, ast.While)) and n.ast is first))
            and n.id not in openers]
    ok = bool(openers) and _guarded(cfg, x, openers, cr.params[1], RECV, want_present=False)[0]
    run.check(ok, "C20.ONCE", cr.qual, "existing receiver -> nothing to (re)create",
              "validation re-runs receiver creation for a component that already has one", node=cr.node, file=cr.file)
    hs = st.hs
    hcfg = st.cfg
    build = st.build_nodes

    def ensures(c: ast.Call) -> bool:
        if not _is_self_call(c, cr.name):
            return False
        b = bind_call(c, cr.params[1:])
        return b is not None and set(b) == set(cr.params[1:]) and st.x.x(b[cr.params[1]]) == st.comp_p \
            and st.x.x(b[cr.params[2]]) == st.cat_p and u(slot_reads(st.x.expand(b[cr.params[3]]), SUBS)) == f"{SUBS}[{st.comp_p}]"

    ens = [n for n in nodes_with_call(hcfg, ensures) if hcfg.is_await(n)]
    wit = hcfg.path(hcfg.entry, build, avoid=ens, edge_ok=_normal) if build else None
    run.check(bool(ens) and bool(build) and wit is None, "C20.ONCE", hs.qual,
              "receiver ensured (requests validated, receiver opened if absent) before the senders are built",
              "a stream task with subscriptions starts without ensuring the component's API receiver: the first "
              "task of a component finds no receiver and fails on every restart", node=hs.node, file=hs.file,
              path=hcfg.describe_path(wit))
    ok = st.x.x(st.loop.iter) == f"{RECV}[{st.comp_p}]"
    run.check(ok, "C20.ONCE", hs.qual, "the (re)started stream task continues the cached receiver",
              "a restarted stream task does not continue the component's cached API receiver", node=hs.node, file=hs.file)
    check_cancel_ends_task(run, prog, st)


def _stream_task_frames(prog: Program, st: Stream) -> list[FuncInfo]:
    """The coroutines that run *inside* the stream task: run_forever, _handle_data_stream and, transitively,
    every closure / private method they await directly (the fan-out runs in its own task and is not one)."""
    hs = st.hs
    frames: list[FuncInfo] = [hs]
    rf = prog.resolve_name(hs.module, "run_forever")
    if isinstance(rf, FuncInfo):
        frames.insert(0, rf)
    fan = {id(f.node) for _c, f, _b in st.fan_calls}
    i = 0
    while i < len(frames) and len(frames) < 40:
        fr = frames[i]
        i += 1
        if fr.module is not hs.module:
            continue
        top = fr
        while top.outer is not None:
            top = top.outer
        nested = {n.name: n for n in ast.walk(top.node) if isinstance(n, (ast.FunctionDef, ast.AsyncFunctionDef)) and n is not top.node}
        for a in walk_own(fr.node):
            if not (isinstance(a, ast.Await) and isinstance(a.value, ast.Call)):
                continue
            c = a.value
            tgt: FuncInfo | None = None
            if isinstance(c.func, ast.Name) and c.func.id in nested:
                tgt = FuncInfo(c.func.id, top.module, nested[c.func.id], None, top)
            elif _is_self_call(c) and top.cls is not None:
                tgt = prog.resolve_method(top.cls, c.func.attr)  # type: ignore[union-attr]
            elif isinstance(c.func, ast.Name) and c.func.id in top.module.functions:
                tgt = top.module.functions[c.func.id]
            if tgt is not None and id(tgt.node) not in fan and all(tgt.node is not f.node for f in frames):
                frames.append(tgt)
    return frames


def check_cancel_ends_task(run: Run, prog: Program, st: Stream) -> None:
    """Cancel-then-register only works if cancelling the old stream task really ends it: at every
    suspension point of the task, a CancelledError propagates out of every frame.  A handler that can
    catch it (CancelledError / BaseException / bare except) around an await must re-raise it on all paths."""
    for fr in _stream_task_frames(prog, st):
        if fr.outer is None:
            run.analysed(fr.qual)
        cfg = CFG(fr.node, fr.file)
        wit = None
        what = ""
        for n in cfg.nodes:
            if n.ast is None or not cfg.is_await(n.id):
                continue
            for m, lab in cfg.succ[n.id]:
                if lab != "exc:C" or cfg.nodes[m].kind != "handler":
                    continue
                handler = cfg.nodes[m].ast
                region = cfg.reachable([m])
                inside = {id(x) for b in handler.body for x in ast.walk(b)}  # type: ignore[union-attr]
                converts = [r for r in region if isinstance(cfg.nodes[r].ast, ast.Raise) and id(cfg.nodes[r].ast) in inside
                            and cfg.nodes[r].ast.exc is not None  # type: ignore[union-attr]
                            and u(cfg.nodes[r].ast.exc) != (handler.name or "") # type: ignore[union-attr]
                            and "CancelledError" not in u(cfg.nodes[r].ast.exc)]  # type: ignore[union-attr]
                if cfg.exit in region:
                    wit = wit or [(n.id, ""), (m, "exc:C"), *(cfg.path(m, [cfg.exit]) or [])[1:]]
                    what = what or f"`{cfg.nodes[m].text(60)}` swallows a cancellation delivered at line {n.lineno}"
                elif converts:
                    wit = wit or [(n.id, ""), (m, "exc:C"), (converts[0], "...")]
                    what = what or f"`{cfg.nodes[m].text(60)}` turns a cancellation delivered at line {n.lineno} into another error"
        sup = [w for w in walk_own(fr.node) if isinstance(w, (ast.With, ast.AsyncWith)) and any(
            isinstance(it.context_expr, ast.Call) and u(it.context_expr.func).split(".")[-1] == "suppress"
            and any(("CancelledError" in u(a) or "BaseException" in u(a)) for a in it.context_expr.args) for it in w.items)
            and any(isinstance(x, (ast.Await, ast.AsyncFor, ast.AsyncWith)) for b in w.body for x in [b, *walk_own(b)])]
        if sup and not what:
            what = f"`with suppress(...)` at line {sup[0].lineno} swallows a cancellation delivered inside it"
        run.check(not what, "C20.ONCE", fr.qual, "a cancellation delivered at any await ends the stream task",
                  "cancelling the previous stream task does not end it: the task keeps consuming from the component's "
                  "shared API receiver with its old senders while its successor is already registered (it is no longer "
                  f"in comp_data_tasks, so nothing cancels it later) - {what}", node=fr.node, file=fr.file,
                  path=cfg.describe_path(wit), instance=f"{fr.qual} :: cancellation at any await propagates")
        if fr.name == "run_forever" and fr.outer is None and fr.cls is None:
            # the wrapper really runs the stream coroutine, again and again
            cb = fr.params[0] if fr.params else ""
            runs = [x for x in nodes_with_call(cfg, lambda c: isinstance(c.func, ast.Name) and c.func.id == cb and not c.args)
                    if cfg.is_await(x)]
            heads = [w.id for w in cfg.nodes if w.kind == "while"]
            ok = bool(runs) and len(heads) == 1 and cfg.path(cfg.entry, [cfg.exit], edge_ok=_normal) is None and all(
                cfg.path(s2, heads, avoid=runs, edge_ok=_normal) is None for s2 in branch(cfg, heads[0], "true") if s2 not in runs)
            run.check(ok, "C20.ONCE", fr.qual, "run_forever awaits its callable in every round and never returns",
                      "the wrapper of the stream task does not (re)run the stream coroutine", node=fr.node, file=fr.file)


# ======================================================================================== C20.DEDUP
def _strip_not(e: ast.AST) -> tuple[ast.AST, bool]:
    neg = False
    while isinstance(e, ast.UnaryOp) and isinstance(e.op, ast.Not):
        e, neg = e.operand, not neg
    return e, neg


def _same_channel(test: ast.AST, a: str, b: str) -> str | None:
    """'eq' / 'ne' when the (expanded) test compares the channel names of `a` and `b`."""
    c = canon(test)
    names = frozenset({f"{a}.get_channel_name()", f"{b}.get_channel_name()"})
    if len(names) == 2 and c == ("==", names):
        return "eq"
    if len(names) == 2 and c == ("!=", names):
        return "ne"
    return None


def _any_scan(e: ast.AST, req: str) -> tuple[tuple[str, ...], bool] | None:
    """`[not] any(x.get_channel_name() == req.get_channel_name() for x in LIST)` -> (slot path of LIST, value when a duplicate exists)."""
    e, neg = _strip_not(e)
    if not (isinstance(e, ast.Call) and isinstance(e.func, ast.Name) and e.func.id == "any" and len(e.args) == 1 and not e.keywords):
        return None
    g = e.args[0]
    if not isinstance(g, (ast.GeneratorExp, ast.ListComp)) or len(g.generators) != 1:
        return None
    gen = g.generators[0]
    if gen.ifs or gen.is_async or not isinstance(gen.target, ast.Name) or _same_channel(g.elt, gen.target.id, req) != "eq":
        return None
    p = cpath(gen.iter)
    return (p, not neg) if p is not None else None


class Scan:
    def __init__(self, gate: int, dup_from: list[int], path: tuple[str, ...], body_from: list[int], kind: str) -> None:
        self.gate, self.dup_from, self.path, self.body_from, self.kind = gate, dup_from, path, body_from, kind


def scan_summary(h: FuncInfo, req_param: str) -> tuple[tuple[str, ...], bool] | None:
    """A synchronous helper that decides `a request with the same channel name is in LIST`:
    (slot path of LIST in the helper's own terms, truth value returned when a duplicate exists)."""
    if not isinstance(h.node, ast.FunctionDef):
        return None
    x = Expander(h.node)
    if x.unstable(req_param):
        return None
    cfg = CFG(h.node, h.file)
    rets = [n for n in cfg.nodes if n.kind == "stmt" and isinstance(n.ast, ast.Return)]
    if len(rets) == 1 and rets[0].ast.value is not None and not [n for n in cfg.nodes if n.kind in ("for", "while")]:  # type: ignore[union-attr]
        r = _any_scan(x.expand(rets[0].ast.value), req_param)  # type: ignore[union-attr]
        if r is not None and cfg.path(cfg.entry, [cfg.exit], avoid=[rets[0].id]) is None:
            return r
    scans = _find_scans(cfg, x, req_param, helpers=None)
    if len(scans) != 1 or scans[0].kind != "loop":
        return None
    sc = scans[0]
    normal = lambda a, b, lab: not lab.startswith("exc:")  # noqa: E731
    if cfg.path(cfg.entry, [cfg.exit], avoid=[sc.gate], edge_ok=normal) is not None:
        return None  # the scan can be skipped

    def outcomes(srcs: list[int], avoid: list[int]) -> set[bool | None]:
        out: set[bool | None] = set()
        region = cfg.reachable(srcs, avoid=avoid, edge_ok=normal)
        for n in region:
            for m, lab in cfg.succ[n]:
                if m == cfg.exit and not lab.startswith("exc:"):
                    a = cfg.nodes[n].ast
                    if isinstance(a, ast.Return):
                        out.add(const_bool(x.expand(a.value)) if a.value is not None else False)
                    else:
                        out.add(False)  # falls off the end: None
        return out

    dup = outcomes(sc.dup_from, [sc.gate])
    done = outcomes(branch(cfg, sc.gate, "done"), [])
    # leaving the loop body other than through the match or back to the header is not a complete scan
    non_dup = cfg.reachable(sc.body_from, avoid=[sc.gate, *sc.dup_from], edge_ok=normal)
    if cfg.exit in non_dup or not sc.dup_from or len(dup) != 1 or len(done) != 1 or None in dup or None in done or dup == done:
        return None
    return sc.path, next(iter(dup))  # type: ignore[return-value]


def _find_scans(cfg: CFG, x: Expander, req: str, helpers: tuple[Program, FuncInfo] | None) -> list[Scan]:
    out: list[Scan] = []
    for n in cfg.nodes:
        if n.kind == "for" and isinstance(n.ast, ast.For) and isinstance(n.ast.target, ast.Name):
            p = cpath(x.expand(n.ast.iter))
            if p is None or p[0] != SUBS:
                continue
            ev = n.ast.target.id
            body_from = branch(cfg, n.id, "iter")
            inside = cfg.reachable(body_from, avoid=[n.id])
            for t in cfg.nodes:
                if t.kind == "test" and t.id in inside and t.ast is not None:
                    k = _same_channel(x.expand(t.ast), ev, req)
                    if k is not None:
                        out.append(Scan(n.id, branch(cfg, t.id, "true" if k == "eq" else "false"), p, body_from, "loop"))
        elif n.kind == "test" and n.ast is not None:
            e = x.expand(n.ast)
            r = _any_scan(e, req)
            if r is not None and r[0][0] == SUBS:
                out.append(Scan(n.id, branch(cfg, n.id, "true" if r[1] else "false"), r[0], [], "any"))
                continue
            if helpers is None:
                continue
            prog, fn = helpers
            call, neg = _strip_not(e)
            if not isinstance(call, ast.Call):
                continue
            target: FuncInfo | None = None
            ps: list[str] = []
            if _is_self_call(call) and fn.cls is not None:
                target = prog.resolve_method(fn.cls, call.func.attr)  # type: ignore[union-attr]
                ps = _call_params(target) if target is not None else []
            elif isinstance(call.func, ast.Name) and call.func.id in fn.module.functions:
                target = fn.module.functions[call.func.id]
                ps = target.params
            if target is None:
                continue
            b = bind_call(call, ps)
            if b is None:
                continue
            rp = [p for p, a in b.items() if u(a) == req]
            if len(rp) != 1:
                continue
            summ = scan_summary(target, rp[0])
            if summ is None:
                continue
            # the helper's slot path in the caller's terms
            path = tuple(u(subst_names(ast.parse(part, mode="eval").body, b)) for part in summ[0])
            if path[0] != SUBS:
                continue
            out.append(Scan(n.id, branch(cfg, n.id, "true" if summ[1] != neg else "false"), path, [], "helper"))
    return out


def _spliced(prog: Program, fn: FuncInfo, ro: Roles) -> FuncInfo:
    """The function with its simple private helpers spliced in (engine normaliser; analysis-only copy)."""
    return splice(prog, fn, ro.names)


def _rooted_at_self(text: str) -> bool:
    return text == "self" or text.startswith("self.") or text.startswith("self[")


def check_dedup(run: Run, prog: Program, ro: Roles) -> None:
    am = _spliced(prog, ro.am, ro)
    run.analysed(am.qual)
    cfg = CFG(am.node, am.file)
    x = Expander(am.node)
    req = am.params[1]
    # unknown component: the value awaited from _get_component_category is None
    unk: list[tuple[int, str]] = []
    for t in cfg.nodes:
        if t.kind == "test" and t.ast is not None:
            c = canon(x.expand(t.ast))
            if isinstance(c, tuple) and c[0] in ("is", "isnot") and isinstance(c[1], frozenset) and "None" in c[1] and len(c[1]) == 2:
                other = next(iter(c[1] - {"None"}))
                if other.startswith(f"await self.{ro.lookup}("):
                    unk.append((t.id, "true" if c[0] == "is" else "false"))

    def mutates(nid: int) -> bool:
        n = cfg.nodes[nid]
        if n.ast is None or n.kind == "handler":
            return False
        for part in own_parts(n):
            for c in [part, *walk_own(part)]:
                if isinstance(c, ast.Call) and isinstance(c.func, ast.Attribute):
                    if _is_self_call(c) and c.func.attr != ro.lookup:
                        return True
                    if c.func.attr in MUTATORS and _rooted_at_self(x.x(c.func.value)):
                        return True
        return any(isinstance(w, (ast.Subscript, ast.Attribute)) and _rooted_at_self(x.x(w)) for w in node_writes(cfg, nid))

    muts = [n.id for n in cfg.nodes if mutates(n.id)]
    ok = len(unk) == 1 and bool(muts) and cfg.path(cfg.entry, muts, avoid=[unk[0][0]]) is None and not any(
        m in cfg.reachable(branch(cfg, unk[0][0], unk[0][1])) for m in muts)
    run.check(ok, "C20.DEDUP", am.qual, "unknown component -> return before any state change",
              "a request for an unknown component changes the subscription state", node=am.node, file=am.file)
    apps = nodes_with_call(cfg, lambda c: isinstance(c.func, ast.Attribute) and c.func.attr == "append")
    if ro.us_inlined:
        upd = [n.id for n in cfg.nodes if n.kind == "stmt" and any(
            isinstance(w, ast.Subscript) and x.x(w.value) == TASKS for w in node_writes(cfg, n.id))]
    else:
        upd = [n for n in nodes_with_call(cfg, lambda c: _is_self_call(c, ro.us.name)) if cfg.is_await(n)]
    scans = _find_scans(cfg, x, req, helpers=(prog, am))
    ok = len(apps) == 1 and len(upd) == 1 and len(scans) == 1
    wit = None
    if ok:
        sc = scans[0]
        # every way to the append runs the whole scan; a match leads out without append / stream update
        # (boolean flags set on the way - `found = True; break` ... `if found: return` - are followed)
        flags = cfg.bool_flags()
        ok = cfg.path(cfg.entry, apps, avoid=[sc.gate]) is None and all(
            cfg.path_flags(b, apps, flags, avoid=[sc.gate]) is None for b in sc.body_from)
        dup_side: set[int] = set()
        for d in sc.dup_from:
            dup_side |= set(cfg.flag_states(d, flags, avoid=[sc.gate] if sc.kind == "loop" else []))
        ok = ok and bool(sc.dup_from) and apps[0] not in dup_side and upd[0] not in dup_side and cfg.exit in dup_side
        between = cfg.reachable([sc.gate], avoid=apps)
        aw = [n for n in between if cfg.is_await(n) and cfg.path(n, apps) is not None and n != upd[0]]
        ok = ok and not aw
        wit = cfg.path(aw[0], apps) if aw else None
        if ok:
            # same list scanned and appended to, and it is this request that is appended
            a = [c for part in own_parts(cfg.nodes[apps[0]]) for c in [part, *walk_own(part)]
                 if isinstance(c, ast.Call) and isinstance(c.func, ast.Attribute) and c.func.attr == "append"]
            ok = len(a) == 1 and cpath(x.expand(a[0].func.value)) == sc.path and len(sc.path) == 3 \
                and [x.x(v) for v in a[0].args] == [req] and not a[0].keywords  # type: ignore[union-attr]
        ok = ok and cfg.path(apps[0], upd) is not None and cfg.path(cfg.entry, upd, avoid=apps) is None
        if ok and not ro.us_inlined:
            # it is this request's component (with its category) whose stream is updated
            uc = [c for part in own_parts(cfg.nodes[upd[0]]) for c in [part, *walk_own(part)]
                  if isinstance(c, ast.Call) and _is_self_call(c, ro.us.name)]
            b = bind_call(uc[0], ro.us.params[1:]) if len(uc) == 1 else None
            ok = b is not None and set(b) == set(ro.us.params[1:]) and len(ro.us.params) == 3 \
                and x.x(b[ro.us.params[1]]) == sc.path[1] and x.x(b[ro.us.params[2]]) == f"await self.{ro.lookup}({sc.path[1]})"
        elif ok:
            ok = Registration(prog, ro).k == sc.path[1]
    run.check(ok, "C20.DEDUP", am.qual, "scan for the same channel name, then append, then update streams",
              "an identical request is not ignored, or the scan-and-append is interruptible (an await between "
              "scan and append lets two identical requests both be appended)", node=am.node, file=am.file,
              path=cfg.describe_path(wit))
    ok = len(scans) == 1
    if ok:
        sc = scans[0]
        def ensures_level(depth: int) -> list[int]:
            """Nodes after which the slot sc.path[:depth] exists: a setdefault on it, or its creation under an
            "absent" guard (`if k not in d: d[k] = {}`)."""
            want_p = sc.path[:depth]
            out = []
            for n in cfg.nodes:
                if n.ast is None:
                    continue
                if any(isinstance(c, ast.Call) and isinstance(c.func, ast.Attribute) and c.func.attr == "setdefault"
                       and cpath(x.expand(c)) == want_p for part in own_parts(n) for c in [part, *walk_own(part)]):
                    out.append(n.id)
                    continue
                for w in node_writes(cfg, n.id):
                    if isinstance(w, ast.Subscript) and cpath(x.expand(ast.Subscript(value=w.value, slice=w.slice, ctx=ast.Load()))) == want_p \
                            and _guarded(cfg, x, [n.id], want_p[-1], want_p[0] if depth == 2 else f"{want_p[0]}[{want_p[1]}]",
                                         want_present=False)[0]:
                        out.append(n.id)
            return out

        def known_present(depth: int) -> set[tuple[int, str]]:
            """Edges taken when the slot is known to exist already (the present side of its membership test)."""
            want_p = sc.path[:depth]
            cont_ = want_p[0] if depth == 2 else f"{want_p[0]}[{want_p[1]}]"
            out = set()
            for t in cfg.nodes:
                if t.kind == "test" and t.ast is not None:
                    pol = presence(expand_at(cfg, x, t.id, t.ast), want_p[-1], cont_)
                    if pol is not None:
                        out.add((t.id, "true" if pol == 1 else "false"))
            return out

        ok = len(sc.path) == 3
        for depth in (2, 3):
            ens = ensures_level(depth) if ok else []
            there = known_present(depth) if ok else set()
            ok = ok and bool(ens) and cfg.path(cfg.entry, [sc.gate], avoid=ens,
                                               edge_ok=lambda a, b, lab, there=there: (a, lab) not in there) is None
    run.check(ok, "C20.DEDUP", am.qual, "the request list of (component, metric) is created in place before it is scanned",
              "the per-component / per-metric request list is not ensured before the duplicate scan: the first "
              "request for a component or metric fails (KeyError) and its stream never starts",
              node=am.node, file=am.file)
    sub = _spliced(prog, prog.func("microgrid._resampling:ComponentMetricsResamplingActor._subscribe"), ro)
    run.analysed(sub.qual)
    cfg = CFG(sub.node, sub.file)
    x = Expander(sub.node)
    key = f"{sub.params[1]}.get_channel_name()"
    active = "self._active_req_channels"
    adds = nodes_with_call(cfg, lambda c: isinstance(c.func, ast.Attribute) and c.func.attr == "add"
                           and x.x(c.func.value) == active and [x.x(a) for a in c.args] == [key])
    all_adds = nodes_with_call(cfg, lambda c: isinstance(c.func, ast.Attribute) and c.func.attr in ("add", "update")
                               and x.x(c.func.value) == active)
    ok = len(adds) == 1 and all_adds == adds
    if ok:
        g_ok, _w, n_g = _guarded(cfg, x, adds, key, active, want_present=False)
        region = cfg.reachable([cfg.entry], avoid=adds)
        aw = [n for n in region if cfg.is_await(n)]
        ok = g_ok and n_g == 1 and not aw
    run.check(ok, "C20.DEDUP", sub.qual, "test-and-insert of the request channel name without an await",
              "the resampling actor can subscribe the same request twice (await between test and insert)",
              node=sub.node, file=sub.file)
    gc = _spliced(prog, prog.func("_internal._channels:ChannelRegistry.get_or_create"), ro)
    run.analysed(gc.qual)
    cfg = CFG(gc.node, gc.file)
    x = Expander(gc.node)
    kp = gc.params[2]
    wr = [n.id for n in cfg.nodes if n.kind == "stmt" and any(
        isinstance(w, ast.Subscript) and x.x(w.value) == "self._channels" for w in node_writes(cfg, n.id))]
    wr_k = [n for n in wr if any(isinstance(w, ast.Subscript) and x.x(w.slice) == kp for w in node_writes(cfg, n))]
    ok = len(wr) == 1 and wr_k == wr and not x.unstable(kp)
    if ok:
        g_ok, _w, n_g = _guarded(cfg, x, wr, kp, "self._channels", want_present=False)
        ok = g_ok and n_g == 1
    run.check(ok, "C20.DEDUP", gc.qual, "create only when the key is absent",
              "get_or_create can replace an existing channel (its subscribers would stop receiving)",
              node=gc.node, file=gc.file)
    # an existing channel of the requested type is handed out (never refused, never another object):
    # every raising path knows the types differ, every returning path returns the stored channel
    mt = gc.params[1]
    ok, why = True, ""
    for p in enum_paths(gc.node):
        # what denotes the entry of `key` on this path: the slot itself, or the value stored into it
        entries = {f"self._channels[{kp}]", f"self._channels.get({kp})"}
        for st_ in p.stmts:
            if isinstance(st_, (ast.Assign, ast.AnnAssign)) and st_.value is not None:
                for t in (st_.targets if isinstance(st_, ast.Assign) else [st_.target]):
                    if isinstance(t, ast.Subscript) and u(t) == f"self._channels[{kp}]":
                        entries.add(u(st_.value))
        sames = [frozenset({f"{e}.message_type", mt}) for e in entries]
        stored_ok = {f"{e}.channel" for e in entries}
        stored = f"self._channels[{kp}].channel"
        differ = any((c == ("is", sm) and not truth) or (c == ("isnot", sm) and truth) for c, truth in p.facts for sm in sames)
        if p.kind == "raise" and not differ:
            ok, why = False, "a path raises although the stored message type is the requested one"
        elif p.kind == "fall":
            ok, why = False, "a path returns nothing"
        elif p.kind == "return":
            v = p.value
            if isinstance(v, ast.Call) and u(v.func) in ("typing.cast", "cast") and len(v.args) == 2:
                v = v.args[1]
            if v is None or u(v) not in stored_ok:
                ok, why = False, f"a path returns `{u(v)}` instead of `{stored}`"
    run.check(ok, "C20.DEDUP", gc.qual, "an existing channel of the requested type is returned",
              "get_or_create refuses or replaces the channel of an existing key although the message type matches: "
              f"every later sender/receiver of that stream (each stream-task restart) fails ({why})",
              node=gc.node, file=gc.file)
    ds = prog.func("microgrid._data_sourcing.data_sourcing:DataSourcingActor._run")
    run.analysed(ds.qual)
    x = Expander(ds.node)
    parents = parent_map(ds.node)
    loops = [n for n in walk_own(ds.node) if isinstance(n, ast.AsyncFor) and x.x(n.iter) == "self._request_receiver"]
    calls = calls_where(ds.node, lambda c: isinstance(c.func, ast.Attribute) and c.func.attr == "add_metric", nested=True)
    ok = len(loops) == 1 and len(calls) == 1 and isinstance(loops[0].target, ast.Name)
    if ok:
        c = calls[0]
        aw = parents.get(c)
        stmt = parents.get(aw) if aw is not None else None
        ok = isinstance(aw, ast.Await) and isinstance(stmt, ast.Expr) and any(stmt is s for s in loops[0].body) \
            and x.x(c.func.value) == "self._microgrid_api_source" \
            and [x.x(a) for a in (bind_call(c, am.params[1:]) or {}).values()] == [loops[0].target.id] \
            and not loops[0].orelse and not any(  # type: ignore[union-attr]
                isinstance(n, (ast.If, ast.Break, ast.Continue, ast.Return, ast.Try, ast.While, ast.For, ast.AsyncFor, ast.IfExp,
                               ast.Match, ast.With, ast.AsyncWith)) for b in loops[0].body for n in [b, *walk_own(b)])
    run.check(ok, "C20.DEDUP", ds.qual, "requests handled one at a time, in order",
              "subscription requests are not processed sequentially", node=ds.node, file=ds.file)


# ======================================================================================== unknown ids: the lookup answers None
_CATCHES_KEYERROR = {"KeyError", "LookupError", "Exception", "BaseException"}


def _none_when_absent(v: ast.AST | None, key: str) -> bool:
    """The returned value is None for an id that is in no mapping: `None`, nothing, `M.get(key[, None])`,
    or the absent arm of `... if key in M else ...`."""
    if v is None or (isinstance(v, ast.Constant) and v.value is None):
        return True
    if isinstance(v, ast.Call) and isinstance(v.func, ast.Attribute) and v.func.attr == "get" and not v.keywords \
            and v.args and u(v.args[0]) == key and _rooted_at_self(u(v.func.value)):
        return len(v.args) == 1 or (len(v.args) == 2 and _none_when_absent(v.args[1], key))
    if isinstance(v, ast.IfExp):
        pol = presence(v.test, key, u(v.test.comparators[0])) if isinstance(v.test, ast.Compare) and len(v.test.comparators) == 1 else None
        if pol is not None:
            return _none_when_absent(v.orelse if pol == 1 else v.body, key)
    return False


def check_unknown_lookup(run: Run, prog: Program, ro: Roles) -> None:
    """"requests for unknown components have no effect" starts in the category lookup: add_metric takes its
    `is None` exit only if the lookup *answers* None for an id the API does not list.  An unknown id is on the
    absent side of every membership test of that id; on that side the lookup may neither raise nor read the
    id's slot, and every way out returns None."""
    lk0 = prog.resolve_method(ro.cls, ro.lookup)
    if lk0 is None or len(lk0.params) < 2:
        raise AnalysisError(f"C20: the component-category lookup `{ro.lookup}` was not found")
    run.analysed(lk0.qual)
    lk = splice(prog, lk0, ro.names)
    cfg = CFG(lk.node, lk.file)
    x = Expander(lk.node)
    key = lk.params[1]
    parents = parent_map(lk.node)

    def cont_of(t: ast.AST) -> str | None:
        """The mapping a membership test of `key` is about (any polarity)."""
        if isinstance(t, ast.UnaryOp) and isinstance(t.op, ast.Not):
            return cont_of(t.operand)
        if isinstance(t, ast.Compare) and len(t.ops) == 1:
            if isinstance(t.ops[0], (ast.In, ast.NotIn)) and u(t.left) == key:
                return u(t.comparators[0])
            for side in (t.left, t.comparators[0]):
                if isinstance(side, ast.Call) and isinstance(side.func, ast.Attribute) and side.func.attr == "get" \
                        and len(side.args) == 1 and u(side.args[0]) == key:
                    return u(side.func.value)
        return None

    guards: list[tuple[int, str, int]] = []  # (test node, mapping, polarity)
    for t in cfg.nodes:
        if t.kind == "test" and t.ast is not None:
            e = expand_at(cfg, x, t.id, t.ast)
            c = cont_of(e)
            p = presence(e, key, c) if c is not None else None
            if c is not None and p is not None:
                guards.append((t.id, c, p))
    present_edges = {(g, "true" if p == 1 else "false") for g, _c, p in guards}

    def handled(n: ast.AST) -> bool:
        """A KeyError of this read is caught (and not re-raised) in the lookup itself."""
        child, cur = n, parents.get(n)
        while cur is not None and cur is not lk.node:
            if isinstance(cur, ast.Try) and any(child is s for s in cur.body):
                for h in cur.handlers:
                    names = {u(e).split(".")[-1] for e in (h.type.elts if isinstance(h.type, ast.Tuple) else [h.type])} if h.type is not None else None
                    if (names is None or names & _CATCHES_KEYERROR) and not any(isinstance(r, ast.Raise) for b in h.body for r in ast.walk(b)):
                        return True
            child, cur = cur, parents.get(cur)
        return False

    def in_guarded_arm(n: ast.AST, cont: str) -> bool:
        """The read sits in the present arm of a conditional expression that tests the id."""
        child, cur = n, parents.get(n)
        while cur is not None and not isinstance(cur, ast.stmt):
            if isinstance(cur, ast.IfExp) and child is not cur.test:
                pol = presence(x.expand(cur.test), key, cont)
                if pol is not None and (child is cur.body) == (pol == 1):
                    return True
            child, cur = cur, parents.get(cur)
        return False

    # (1) every read of the id's slot in a mapping of the source happens where the id is known to be present
    n_reads = 0
    caught_at: list[int] = []
    for n in cfg.nodes:
        if n.ast is None:
            continue
        for part in own_parts(n):
            for s in [part, *walk_own(part)]:
                if not (isinstance(s, ast.Subscript) and isinstance(s.ctx, ast.Load) and x.x(s.slice) == key
                        and _rooted_at_self(x.x(s.value))):
                    continue
                n_reads += 1
                cont = x.x(s.value)
                ok = handled(s) or in_guarded_arm(s, cont)
                if handled(s):
                    caught_at.append(n.id)  # for an unknown id control continues in the handler, not after the read
                wit = None
                for g, c, p in guards:
                    if ok or c != cont:
                        continue
                    absent = branch(cfg, g, "false" if p == 1 else "true")
                    ok = cfg.path(cfg.entry, [n.id], avoid=[g]) is None and n.id not in cfg.reachable(absent, avoid=[g])
                if not ok:
                    wit = cfg.path(cfg.entry, [n.id], edge_ok=lambda a, b, lab: _normal(a, b, lab) and (a, lab) not in present_edges) \
                        or cfg.path(cfg.entry, [n.id])
                run.check(ok, "C20.DEDUP", lk0.qual, f"`{u(s)}` read only where `{key} in {cont}` is known",
                          f"the category lookup reads `{u(s)}` without knowing that the id is in the mapping: for a component id "
                          "the API does not list this raises KeyError instead of answering None, so add_metric never reaches "
                          "its `unknown component -> return` exit; the error escapes add_metric and the data-sourcing actor's "
                          "request loop, the actor is only restarted after its restart delay, and the requests queued behind "
                          "the bogus one are not served meanwhile - the samples of every message arriving in that window never "
                          "reach those streams (the same holds for `.pop(id)` / `del` or any unguarded keyed read there)",
                          node=s, file=lk.file, path=cfg.describe_path(wit),
                          instance=f"{lk0.qual} :: keyed read of {cont} guarded by membership")
    # (2) on the absent side of every membership test: no raise, and every exit returns None
    def absent_ok(a: int, _b: int, lab: str) -> bool:
        if a in caught_at:
            return lab == "exc:E" and cfg.nodes[_b].kind == "handler"
        return _normal(a, _b, lab) and (a, lab) not in present_edges

    region = cfg.reachable([cfg.entry], edge_ok=absent_ok)
    raises = [n for n in region if isinstance(cfg.nodes[n].ast, ast.Raise) and cfg.nodes[n].kind == "stmt"]

    def returned_values(nid: int) -> list[ast.AST | None]:
        """What a `return` hands out for an unknown id: its expression, or - for a local bound in several places -
        the values of the bindings that reach it on the absent side."""
        v = cfg.nodes[nid].ast.value  # type: ignore[union-attr]
        if v is None:
            return [None]
        if isinstance(v, ast.Name) and x.unstable(v.id) and v.id not in x.params:
            defs = [d for d in region if d not in caught_at and any(isinstance(w, ast.Name) and w.id == v.id for w in node_writes(cfg, d))]
            vals: list[ast.AST | None] = []
            for d in defs:
                if cfg.path(d, [nid], avoid=[o for o in defs if o != d], edge_ok=absent_ok) is None:
                    continue
                a = cfg.nodes[d].ast
                plain = cfg.nodes[d].kind == "stmt" and ((isinstance(a, ast.Assign) and len(a.targets) == 1 and isinstance(a.targets[0], ast.Name))
                                                         or (isinstance(a, ast.AnnAssign) and isinstance(a.target, ast.Name) and a.value is not None))
                vals.append(expand_at(cfg, x, d, a.value) if plain else v)  # type: ignore[union-attr]
            if cfg.path(cfg.entry, [nid], avoid=defs, edge_ok=absent_ok) is not None or not vals:
                vals.append(v)  # reaches the return unbound / bound in a way the rule cannot read
            return vals
        return [expand_at(cfg, x, nid, v)]

    bad_ret = [n for n in region if n not in caught_at and cfg.nodes[n].kind == "stmt" and isinstance(cfg.nodes[n].ast, ast.Return)
               and not all(_none_when_absent(v, key) for v in returned_values(n))]
    ok = cfg.exit in region and not raises and not bad_ret
    culprit = (raises + bad_ret)[:1]
    wit = cfg.path(cfg.entry, culprit, edge_ok=absent_ok) if culprit else None
    what = (f"`{cfg.nodes[raises[0]].text(60)}` raises" if raises else
            f"`{cfg.nodes[bad_ret[0]].text(60)}` answers something other than None" if bad_ret else "no normal exit is left")
    run.check(ok, "C20.DEDUP", lk0.qual, "id in no mapping (also after the refresh) -> the lookup returns None",
              f"for a component id the API does not list the category lookup does not answer None ({what}): add_metric's "
              "`category is None -> log and return` exit is never taken, so a request for an unknown component is no longer "
              "without effect - it either raises out of add_metric and the data-sourcing actor's request loop (the requests "
              "queued behind it wait for the actor's restart and the messages of that window never reach their streams) or "
              "is filed as a subscription of a component that does not exist",
              node=cfg.nodes[culprit[0]].ast if culprit else lk.node, file=lk.file, path=cfg.describe_path(wit),
              instance=f"{lk0.qual} :: unknown id -> None")
    if not guards and not n_reads and not any(isinstance(c, ast.Call) and isinstance(c.func, ast.Attribute) and c.func.attr == "get"
                                              for c in walk_own(lk.node)):
        raise AnalysisError(f"{lk0.qual}: no keyed access of the component id found (the lookup has a shape the rule cannot read)")


# ======================================================================================== C20.REQ
ACTOR_RUN = "microgrid._data_sourcing.data_sourcing:DataSourcingActor._run"
_LIB_DEFAULT_LIMIT = 50  # frequenz.channels.Broadcast.new_receiver(limit=50); re-read from the installed source when present


def _library_default_limit(run: Run) -> int:
    from ..engine.resolver import find_installed_source

    path = find_installed_source("frequenz.channels._broadcast")
    if path is not None:
        try:
            tree = ast.parse(path.read_text())
        except (OSError, SyntaxError):
            tree = None
        for n in ast.walk(tree) if tree is not None else []:
            if isinstance(n, ast.ClassDef) and n.name == "Broadcast":
                for m in n.body:
                    if isinstance(m, ast.FunctionDef) and m.name == "new_receiver":
                        a = m.args
                        pairs = list(zip(a.kwonlyargs, a.kw_defaults)) + list(zip(a.args[len(a.args) - len(a.defaults):], a.defaults))
                        for arg, d in pairs:
                            if arg.arg == "limit" and isinstance(d, ast.Constant) and isinstance(d.value, int):
                                run.assume(f"Broadcast.new_receiver() without `limit` holds {d.value} messages and a full Broadcast "
                                           "receiver drops its oldest message (read from the installed frequenz.channels source)")
                                return d.value
    run.assume(f"Broadcast.new_receiver() without `limit` holds {_LIB_DEFAULT_LIMIT} messages and a full Broadcast receiver "
               "drops its oldest message (frequenz.channels 1.x; installed source not found)")
    return _LIB_DEFAULT_LIMIT


def _int_value(prog: Program, fn: FuncInfo, e: ast.AST | None, depth: int = 0) -> int | None:
    """Integer denoted by an expression of module constants (names resolved in the module / class of `fn`)."""
    if e is None or depth > 6:
        return None
    if isinstance(e, ast.Constant) and isinstance(e.value, int) and not isinstance(e.value, bool):
        return e.value
    if isinstance(e, ast.Name):
        return _int_value(prog, fn, fn.module.assigns.get(e.id), depth + 1)
    if isinstance(e, ast.Attribute) and isinstance(e.value, ast.Name) and e.value.id in ("self", "cls") and fn.cls is not None:
        return _int_value(prog, fn, fn.cls.class_assigns.get(e.attr), depth + 1)
    if isinstance(e, ast.BinOp):
        a, b = _int_value(prog, fn, e.left, depth + 1), _int_value(prog, fn, e.right, depth + 1)
        if a is None or b is None:
            return None
        if isinstance(e.op, ast.Add):
            return a + b
        if isinstance(e.op, ast.Sub):
            return a - b
        if isinstance(e.op, ast.Mult):
            return a * b
        if isinstance(e.op, ast.FloorDiv) and b:
            return a // b
    return None


class _Inbox:
    """A receiver built in place: `<channel>.new_receiver([limit=E])`."""

    def __init__(self, prog: Program, fn: FuncInfo, x: Expander, call: ast.Call, default: int) -> None:
        self.fn, self.call = fn, call
        self.limit_expr = {k.arg: k.value for k in call.keywords}.get("limit")  # keyword-only interface
        self.explicit = self.limit_expr is not None
        lim = x.expand(self.limit_expr) if self.limit_expr is not None else None
        self.capacity = _int_value(prog, fn, lim) if self.explicit else default
        self.text = u(lim) if lim is not None else f"<library default {default}>"
        self.channel = x.expand(call.func.value)  # type: ignore[union-attr]

    @property
    def drops(self) -> bool:
        """Built on a Broadcast channel (per-receiver buffer, oldest message dropped on overflow)."""
        ch = self.channel
        return isinstance(ch, ast.Call) and u(ch.func).split("[")[0].split(".")[-1] == "Broadcast"


def _as_inbox(prog: Program, fn: FuncInfo, x: Expander, e: ast.AST, default: int) -> _Inbox | None:
    v = x.expand(e)
    if isinstance(v, ast.Call) and isinstance(v.func, ast.Attribute) and v.func.attr == "new_receiver":
        return _Inbox(prog, fn, x, v, default)
    return None


def check_request_path(run: Run, prog: Program, ro: Roles) -> None:
    """Every subscription request handed to the pipeline's request sender reaches add_metric: the data-sourcing
    actor's inbox is a Broadcast receiver (sending never suspends, a full receiver drops its OLDEST message), so
    where the actor is built its inbox must hold at least what the inbox of every actor that is handed its
    request sender holds - such an actor forwards the requests it has queued back-to-back."""
    ds = prog.func(ACTOR_RUN)
    actor = ds.cls
    if actor is None:
        raise AnalysisError("C20.REQ: the data-sourcing actor class was not found")
    init = prog.resolve_method(actor, "__init__")
    dx = Expander(ds.node)
    loops = [n for n in walk_own(ds.node) if isinstance(n, ast.AsyncFor)]
    inbox_attr = dx.x(loops[0].iter) if len(loops) == 1 else ""
    inbox_param = None
    if init is not None and init.cls is actor:
        for s in walk_own(init.node):
            if isinstance(s, (ast.Assign, ast.AnnAssign)) and s.value is not None and isinstance(s.value, ast.Name) \
                    and s.value.id in init.params and any(u(t) == inbox_attr for t in (s.targets if isinstance(s, ast.Assign) else [s.target])):
                inbox_param = s.value.id
    if init is None or inbox_param is None:
        raise AnalysisError(f"C20.REQ: which constructor parameter of {actor.name} becomes `{inbox_attr}` could not be read")
    default = _library_default_limit(run)
    sites: list[tuple[FuncInfo, ast.Call]] = []
    for fn in prog.all_functions():
        if actor.name not in fn.module.source and not any(v.endswith(actor.name) for v in fn.module.imports.values()):
            continue  # (only modules that can name the class are resolved call by call)
        for c in ast.walk(fn.node):
            if isinstance(c, ast.Call) and isinstance(c.func, (ast.Name, ast.Attribute)) and any(t is actor for t in prog.resolve_call(fn, c)):
                sites.append((fn, c))
    if not sites:
        run.note(f"C20.REQ: {actor.name} is not constructed inside the package; the capacity of its request receiver is the caller's")
        run.ok("C20.REQ", f"{actor.qual} :: not constructed in the package")
        return
    for fn, call in sites:
        run.analysed(fn.qual)
        x = Expander(fn.node)
        b = bind_call(call, init.params[1:])
        arg = (b or {}).get(inbox_param)
        inbox = _as_inbox(prog, fn, x, arg, default) if arg is not None else None
        if inbox is None or not inbox.drops:
            raise AnalysisError(f"{fn.qual}: the request receiver handed to {actor.name} is not built in place from a Broadcast "
                                f"channel (`{u(arg) if arg is not None else '?'}`): its capacity cannot be read")
        # who is handed this actor's request sender: calls whose argument is a call of the function that builds the actor
        upstream: list[tuple[FuncInfo, ast.Call, _Inbox]] = []
        uses = [(g, c) for g in prog.all_functions() if fn.name in g.module.source for c in ast.walk(g.node)
                if isinstance(c, ast.Call) and (u(c.func) == fn.name or u(c.func).endswith("." + fn.name))
                and any(t is fn or (isinstance(t, FuncInfo) and t.node is fn.node) for t in prog.resolve_call(g, c))]
        for caller, use in uses:
            cx = Expander(caller.node)
            for k in ast.walk(caller.node):
                if not isinstance(k, ast.Call) or k is use:
                    continue
                args = [*k.args, *[kw.value for kw in k.keywords]]
                handed = any(a is use or (isinstance(a, ast.Name) and cx.value_of(a.id) is use) for a in args)
                if not handed:
                    continue
                for a in args:
                    ib = _as_inbox(prog, caller, cx, a, default)
                    if ib is not None and ib.drops:
                        upstream.append((caller, k, ib))
        run.ok("C20.REQ", f"{fn.qual} :: {actor.name}'s request receiver is built in place on a Broadcast channel")
        for caller, k, ib in upstream:
            same = ib.text == inbox.text and ib.explicit == inbox.explicit
            if not same and (inbox.capacity is None or ib.capacity is None):
                raise AnalysisError(f"{fn.qual}: the capacities `{inbox.text}` (request receiver of {actor.name}) and `{ib.text}` "
                                    f"(request receiver built in {caller.qual}) are not constants the check can compare")
            ok = same or (inbox.capacity is not None and ib.capacity is not None and inbox.capacity >= ib.capacity)
            how = "built without `limit=`, so it has the library default" if not inbox.explicit else f"built with limit={inbox.text}"
            run.check(ok, "C20.REQ", fn.qual,
                      f"{actor.name}(…{inbox_param}=….new_receiver({'limit=' + inbox.text if inbox.explicit else ''})) holds at least the "
                      f"{ib.text} requests of the receiver built in {caller.name}",
                      f"the request receiver of {actor.name} is {how} and holds {inbox.capacity if inbox.capacity is not None else inbox.text} "
                      f"requests, fewer than the {ib.capacity if ib.capacity is not None else ib.text} of the request receiver that "
                      f"`{u(k.func)}` gets in {caller.qual} together with this actor's request sender: a Broadcast sender never "
                      "suspends and a full Broadcast receiver drops its OLDEST message, so a burst of back-to-back subscription "
                      "requests that the upstream actor accepts and forwards without yielding silently loses its first requests "
                      "before add_metric sees them - those streams are subscribed but never get a single sample while the "
                      "component's messages keep being fanned out to the others (same for a smaller constant, a `limit=1` copied "
                      "from a status receiver, or a dropped keyword)",
                      node=call, file=fn.file,
                      instance=f"{fn.qual} :: request receiver capacity >= upstream capacity ({caller.name})")
        if not upstream:
            run.ok("C20.REQ", f"{fn.qual} :: request receiver capacity `{inbox.text}` (no upstream forwarder in the package)")


CONTROLS = [
    ("unknown component id raises instead of answering None", SRC,
     "        if comp_id in self._comp_categories_cache:\n            return self._comp_categories_cache[comp_id]\n\n        return None\n",
     "        if comp_id in self._comp_categories_cache:\n            return self._comp_categories_cache[comp_id]\n\n        raise KeyError(comp_id)\n",
     "C20.DEDUP"),
    ("category cache read without a membership test after the refresh", SRC,
     "            self._comp_categories_cache[comp.component_id] = comp.category\n\n        if comp_id in self._comp_categories_cache:\n            return self._comp_categories_cache[comp_id]\n",
     "            self._comp_categories_cache[comp.component_id] = comp.category\n\n        if self._comp_categories_cache:\n            return self._comp_categories_cache[comp_id]\n",
     "C20.DEDUP"),
    ("data-sourcing request receiver smaller than the resampling actor's", "microgrid._data_pipeline",
     "                request_receiver=channel.new_receiver(limit=_REQUEST_RECV_BUFFER_SIZE),\n",
     "                request_receiver=channel.new_receiver(limit=100),\n", "C20.REQ"),
    ("fan-out awaited inline", SRC,
     "                sending_tasks.add(asyncio.create_task(process_msg(data), name=name))\n",
     "                await process_msg(data)\n", "C20.ATOM"),
    ("receiver recreated per restart", SRC,
     "        if comp_id not in self.comp_data_receivers:\n            self.comp_data_receivers[comp_id] = (\n                await connection_manager.get().api_client.meter_data(comp_id)\n            )",
     "        self.comp_data_receivers[comp_id] = (\n            await connection_manager.get().api_client.meter_data(comp_id)\n        )", "C20.ONCE"),
    ("await between the duplicate scan and the append", SRC,
     "        self._req_streaming_metrics[comp_id][request.metric_id].append(request)\n",
     "        await asyncio.sleep(0)\n        self._req_streaming_metrics[comp_id][request.metric_id].append(request)\n",
     "C20.DEDUP"),
    ("copy-pasted lambda", SRC,
     "    ComponentMetricId.SOC_UPPER_BOUND: lambda msg: msg.soc_upper_bound,",
     "    ComponentMetricId.SOC_UPPER_BOUND: lambda msg: msg.soc_lower_bound,", "C20.TAB"),
    ("clean-up wait before the hand-over", SRC,
     "                sending_tasks.add(asyncio.create_task(process_msg(data), name=name))\n                sending_tasks = await clean_tasks(sending_tasks)\n",
     "                sending_tasks = await clean_tasks(sending_tasks)\n                sending_tasks.add(asyncio.create_task(process_msg(data), name=name))\n",
     "C20.ATOM"),
    ("done-callback removes the task entry by component id", SRC,
     "        self.comp_data_tasks[comp_id] = asyncio.create_task(\n            run_forever(lambda: self._handle_data_stream(comp_id, category))\n        )",
     "        self.comp_data_tasks[comp_id] = asyncio.create_task(\n            run_forever(lambda: self._handle_data_stream(comp_id, category))\n        )\n        self.comp_data_tasks[comp_id].add_done_callback(lambda _: self.comp_data_tasks.pop(comp_id, None))",
     "C20.ONCE"),
    ("existing channel of the same type refused", "_internal._channels",
     "        if entry.message_type is not message_type:\n", "        if entry.message_type is message_type:\n", "C20.DEDUP"),
    ("validator refuses the supported metrics", SRC,
     "            if metric not in _MeterDataMethods:\n", "            if metric in _MeterDataMethods:\n", "C20.TAB"),
    ("senders built only when there are no subscriptions", SRC,
     "            if comp_id in self._req_streaming_metrics:\n                await self._check_requested_component_and_metrics(",
     "            if comp_id not in self._req_streaming_metrics:\n                await self._check_requested_component_and_metrics(",
     "C20.FAN"),
    ("stream task does not ensure the receiver", SRC,
     "                await self._check_requested_component_and_metrics(\n                    comp_id, category, self._req_streaming_metrics[comp_id]\n                )\n",
     "", "C20.ONCE"),
    ("channels closed without awaiting the fan-out tasks in flight", SRC,
     "            await asyncio.gather(*sending_tasks)\n", "", "C20.ATOM"),
    ("request list not created before the scan", SRC,
     "        self._req_streaming_metrics.setdefault(comp_id, {}).setdefault(\n            request.metric_id, []\n        )\n",
     "", "C20.DEDUP"),
    ("cancellation swallowed at the clean-up wait", SRC,
     "                done, pending = await asyncio.wait(sending_tasks, timeout=0)\n",
     "                try:\n                    done, pending = await asyncio.wait(sending_tasks, timeout=0)\n"
     "                except (asyncio.CancelledError, Exception):\n                    return sending_tasks\n", "C20.ONCE"),
    ("registry channels replay their latest message to new receivers", CHANNELS,
     "Broadcast(name=f\"{self._name}-{key}\")", "Broadcast(name=f\"{self._name}-{key}\", resend_latest=True)", "C20.SRC"),
    ("message handed over twice per iteration", SRC,
     "                sending_tasks.add(asyncio.create_task(process_msg(data), name=name))\n",
     "                for _again in (0, 1):\n                    sending_tasks.add(asyncio.create_task(process_msg(data), name=name))\n",
     "C20.SRC"),
    ("validator registers no receiver", SRC,
     "            self.comp_data_receivers[comp_id] = (\n                await connection_manager.get().api_client.ev_charger_data(comp_id)\n            )",
     "            await connection_manager.get().api_client.ev_charger_data(comp_id)", "C20.ONCE"),
]


_STREAM_TAIL = "                category.name,\n            )\n            raise\n"  # end of the stream coroutine's outer try


def build_controls(prog: Program) -> list[tuple[str, str, str, str, str]]:
    """CONTROLS plus the variants that have to name locals of the stream coroutine (the pairs variable, the
    component parameter): their text is written with the names the roles are bound to on this tree, so a renaming
    does not blunt them.  They are added only when the coroutine that holds the anchor binds the pairs variable
    itself (when the set-up lives in a helper there is no name to write the variant with)."""
    out = list(CONTROLS)
    try:
        ro = Roles(prog)
        st = Stream(prog, ro)
        _ok, _why, pairs = _fanout_ok(st)
    except AnalysisError:
        return out
    src = (ast.get_source_segment(ro.hs.module.source, ro.hs.node) or "") + "\n"
    bound = pairs is not None and any(isinstance(n, ast.Name) and isinstance(n.ctx, ast.Store) and n.id == pairs
                                      for n in walk_own(ro.hs.node))
    if not bound or _STREAM_TAIL not in src or ro.hs.module.source.count(_STREAM_TAIL) != 1:
        return out
    comp = st.comp_p
    # C20.SRC: written with the names the message loop / the fan-out / the pairs are bound to on this tree
    loops = [n for n in walk_own(ro.hs.node) if isinstance(n, ast.AsyncFor)]
    lines = ro.hs.module.source.splitlines(keepends=True)
    if len(loops) == 1 and len(st.fan_calls) == 1 and loops[0].body and loops[0].body[0].lineno > loops[0].lineno:
        head = "".join(lines[loops[0].lineno - 1:loops[0].body[0].lineno - 1])
        ind = head[:len(head) - len(head.lstrip())]
        call = st.fan_calls[0][0]
        kept = "self.__dict__['last_msg_']"
        replay = u(subst_names(call, {st.msg: ast.parse(kept, mode="eval").body}))
        if head.strip() and ro.hs.module.source.count(head) == 1:
            out += [
                ("last message kept on the instance replayed through the fan-out when a stream task starts", SRC, head,
                 f"{ind}if 'last_msg_' in self.__dict__:\n{ind}    asyncio.create_task({replay})\n" + head
                 + f"{ind}    self.__dict__['last_msg_'] = {st.msg}\n", "C20.SRC"),
                ("loop message re-bound to a remembered one before the hand-over", SRC, head,
                 head + f"{ind}    {st.msg} = self.__dict__.setdefault('last_msg_', {st.msg})\n", "C20.SRC"),
                ("cached sample sent to the pairs' senders outside the fan-out", SRC, head,
                 f"{ind}for _, old_senders_ in {pairs}:\n{ind}    for old_sender_ in old_senders_:\n"
                 f"{ind}        await old_sender_.send(self.__dict__['last_sample_'])\n" + head, "C20.SRC"),
            ]
    out += [
        ("old senders closed in a finally of the stream task (also runs on cancellation)", SRC, _STREAM_TAIL,
         _STREAM_TAIL + f"        finally:\n            for _, old_senders_ in {pairs}:\n                for old_sender_ in old_senders_:\n"
         "                    await old_sender_.aclose()\n", "C20.ATOM"),
        ("pairs cleared when the stream task is cancelled", SRC, _STREAM_TAIL,
         _STREAM_TAIL + f"        except asyncio.CancelledError:\n            {pairs}.clear()\n            raise\n", "C20.ATOM"),
        ("channels closed in a finally of the stream task", SRC, _STREAM_TAIL,
         _STREAM_TAIL + f"        finally:\n            for reqs_ in self._req_streaming_metrics[{comp}].values():\n"
         "                for req_ in reqs_:\n                    await self._registry.close_and_remove(req_.get_channel_name())\n",
         "C20.ATOM"),
    ]
    return out


def run_rules(run: Run, prog: Program) -> None:
    ro = Roles(prog)
    check_tab(run, prog, ro)
    st = Stream(prog, ro)
    check_fan(run, prog, st)
    check_atom(run, prog, st)
    check_source(run, prog, st)
    check_once(run, prog, st)
    check_dedup(run, prog, ro)
    check_unknown_lookup(run, prog, ro)
    check_request_path(run, prog, ro)


def check(run: Run, prog: Program, tier: str) -> str:
    run.rule("C20.TAB", "extractor tables read the field named like the metric; category dispatch agrees across lookup and validators")
    run.rule("C20.FAN", "every message -> one sample per sender of every pair, extractor and senders from the same request item")
    run.rule("C20.ATOM", "no await between taking a message and creating its independent fan-out task")
    run.rule("C20.SRC", "the only thing sent is a sample of the receive loop's current message, handed to the fan-out once: no other "
                        "reference to the fan-out, no re-bound message, no second send, no replaying channel")
    run.rule("C20.ONCE", "API receivers created once and never removed; stream tasks replaced only by cancel-then-register")
    run.rule("C20.DEDUP", "unknown ids change nothing; scan-then-append without await; idempotent subscribe; get_or_create creates only when absent")
    run.rule("C20.REQ", "the data-sourcing actor's request receiver holds at least what the receivers of the actors that forward to it hold")
    run_rules(run, prog)
    run.floor("C20.REQ", 1)
    run.floor("C20.TAB", 55)
    run.floor("C20.FAN", 5)
    run.floor("C20.ATOM", 5)
    run.floor("C20.SRC", 4)
    run.floor("C20.ONCE", 9)
    run.floor("C20.DEDUP", 8)
    from ..engine.controls import run_controls

    run_controls(run, build_controls(prog), run_rules, tier)
    run.assume("asyncio cancellation is delivered only at awaits; a cancelled stream task that holds no "
               "un-handed-over message loses nothing because the API receiver is kept")
    run.undecided("relative order of the fan-out tasks of consecutive messages (event-loop scheduling); "
                  "behaviour on overflow of the API data receivers; bursts of requests larger than the configured "
                  "request buffer (only its size relative to the upstream request buffers is decided)")
    return ("Table extraction with a naming rule (metric id -> message field), sibling agreement of the "
            "category dispatch read off enumerated paths, never-between (await) rules on the message "
            "hand-over and the duplicate scan, who-may-write rules on the per-component receiver/task maps; "
            "roles bound by dataflow (locals expanded to the values they denote, guards compared by "
            "canonical form and polarity, helpers spliced or summarised).")
