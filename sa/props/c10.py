"""C10  Actors restart after failures, only after failures, and stop cleanly.

Path rules (E-P) on Actor._run_loop / Actor.start / BackgroundService.{cancel,stop,wait} / run(),
plus who-may-call and override discipline over every BackgroundService subclass.

Every anchored function is analysed on its *normalised* form (sa.engine.normalize: private helpers
spliced in -- also pieces of the run loop that report the outcome of a run through their return value, see
_c10_util.splice_valued --, assignment diamonds folded; locals are resolved on demand by Flow.expand) and every guard is decided
semantically: a rule fixes a valuation of the relevant atoms (`limit is None`, `n < limit`,
`self.is_running`, `self._tasks` non-empty, ...) and asks path questions on the CFG restricted to
the branch sides compatible with that valuation (sa.props._c10_util.Flow).  Roles (restart counter,
finished-task set, collected-error list, pending set) are bound by dataflow, not by name.
"""
from __future__ import annotations

import ast

from ..engine.cfg import own_parts
from ..engine.normalize import positional
from ..engine.report import AnalysisError, Run
from ..engine.resolver import Program, body_walk, dotted, walk_no_nested
from ..engine.util import (
    canon, find_calls, has_call, is_super_call, method_call, node_writes,
    nodes_with_call, normal_edge, some, u, writes_of,
)
from ._c10_util import (
    Flow, callee_tail, count_loop, is_none, join, less_than, loop_leaks, nonempty, own_calls, positive, registered,
    strip_wrappers, truthy,
)

def _flow(run: Run, prog: Program, fn) -> Flow:  # type: ignore[no-untyped-def]
    """Flow of `fn`, registered (with the helpers spliced into it) as analysed."""
    fl = Flow(prog, fn)
    run.analysed(fl.qual)
    for q in fl.spliced:
        run.analysed(q)
    return fl


ACTOR = "actor._actor:Actor"
BGS = "actor._background_service:BackgroundService"
LIMIT = "self._restart_limit"
TASKS = "self._tasks"


# ---------------------------------------------------------------------------------------------
def check_run_loop(run: Run, prog: Program) -> None:
    fl = _flow(run, prog, prog.func(f"{ACTOR}._run_loop"))
    fn, cfg, q = fl.fn, fl.cfg, fl.qual
    run.analysed(q)
    is_run = lambda c: method_call(c, "self", "_run")  # noqa: E731
    run_nodes = nodes_with_call(cfg, is_run)
    if not run_nodes:
        # a piece of the loop that drives _run() but is not awaited in place could not be read in line
        actor_c = prog.cls(ACTOR)

        def drives_run(name: str, depth: int = 3) -> bool:
            m = prog.resolve_method(actor_c, name)
            if m is None or depth == 0:
                return False
            return any(is_run(c) or (isinstance(c.func, ast.Attribute) and u(c.func.value) == "self"
                                     and c.func.attr != name and drives_run(c.func.attr, depth - 1))
                       for c in ast.walk(m.node) if isinstance(c, ast.Call))

        spawned = [(i, c) for i, c in fl.calls(
            lambda c: isinstance(c.func, ast.Attribute) and u(c.func.value) == "self")
            if not fl.awaited(i, c) and drives_run(c.func.attr)]  # type: ignore[attr-defined]
        for i, c in spawned:
            run.violation("C10.SINGLE", q, c,
                          "the part of the run loop that invokes _run() is not awaited in place "
                          "(spawned or handed over): runs could overlap and its outcome is not "
                          "supervised", node=c, file=fn.file)
        if spawned:
            return
    run_nodes = some(run_nodes, "call of self._run() in Actor._run_loop")
    for r in run_nodes:
        n = cfg.nodes[r]
        awaited = any(
            isinstance(x, ast.Await) and isinstance(x.value, ast.Call) and is_run(x.value)
            for part in own_parts(n) for x in walk_no_nested(part)
        )
        run.check(awaited, "C10.SINGLE", q, n.ast,
                  "self._run() must be awaited in place (never spawned as a task), so two runs "
                  "cannot overlap", node=n.ast, file=fn.file)

    # The restart delay is bound by role: an awaited asyncio.sleep in the loop itself, or an awaited
    # private coroutine of the actor that sleeps (historically `_delay_if_restart`; it may be renamed,
    # or inlined into the loop, in which case the normaliser / this rule sees the sleep directly).
    is_sleep = lambda c: dotted(c.func) == "asyncio.sleep"  # noqa: E731
    actor_cls = prog.cls(ACTOR)
    helper_delays = []  # (node, call, helper)
    for i, c in fl.calls(lambda c: isinstance(c.func, ast.Attribute) and u(c.func.value) == "self"
                         and not is_run(c)):
        m = prog.resolve_method(actor_cls, c.func.attr)  # type: ignore[attr-defined]
        if m is not None and m.is_async and any(
                isinstance(x, ast.Await) and isinstance(x.value, ast.Call) and is_sleep(x.value)
                for x in walk_no_nested(m.node)):
            helper_delays.append((i, c, m))
    inline_sleeps = fl.calls(is_sleep)

    for r in run_nodes:
        rn = cfg.nodes[r]
        # ---- C10.RET: after normal completion no path leads back to _run()
        normal_succ = [m for m, lab in cfg.succ[r] if not lab.startswith("exc:")]
        reach = cfg.reachable(normal_succ)
        again = [x for x in run_nodes if x in reach]
        if again:
            wit = None
            for s0 in normal_succ:
                wit = cfg.path(s0, again)
                if wit:
                    break
            run.violation("C10.RET", q, rn.ast,
                          "after `await self._run()` returns normally a path leads back to another "
                          "invocation of _run() (restart after normal return)",
                          node=rn.ast, file=fn.file, path=fl.fmt(wit))
        else:
            run.ok("C10.RET", f"{q}: normal return of _run() never reaches _run() again",
                   "normal successors reach only function exit")
        run.check(cfg.exit in reach, "C10.RET", q, "function exit after normal return",
                  "after a normal return of _run() the loop must terminate (function exit "
                  "unreachable)", node=rn.ast, file=fn.file)

        # ---- C10.CANCEL / BASE: cancellation and BaseException never restart, always propagate
        for kind, rule, word in (("C", "C10.CANCEL", "cancellation"),
                                 ("B", "C10.BASE", "a non-Exception BaseException")):
            targets = [m for m, lab in cfg.succ[r] if lab == f"exc:{kind}"]
            if not targets:
                raise AnalysisError(f"{q}: no exc:{kind} edge out of the _run() await")
            reach = cfg.reachable(targets)
            back = [x for x in run_nodes if x in reach]
            wit = cfg.path(targets[0], back) if back else None
            run.check(not back, rule, q, rn.ast,
                      f"{word} of _run() can lead to another invocation of _run()",
                      node=rn.ast, file=fn.file, path=fl.fmt(wit),
                      instance=f"{q}: {word} never re-invokes _run()")
            wit = cfg.path(targets[0], [cfg.exit]) if cfg.exit in reach else None
            run.check(cfg.exit not in reach, rule, q, f"{word} handler reaches normal exit",
                      f"{word} of _run() is swallowed: a path reaches the normal function exit "
                      "instead of re-raising", node=rn.ast, file=fn.file, path=fl.fmt(wit),
                      instance=f"{q}: {word} always propagates (never swallowed)")
            # the propagating edge must carry the same kind
            ends = [(a, lab) for a, lab in cfg.pred[cfg.raise_exit] if a in reach or a in targets]
            if cfg.raise_exit in reach:
                run.check(any(lab == f"exc:{kind}" for _, lab in ends), rule, q,
                          f"{word} re-raise", f"{word} is not re-raised as such", node=rn.ast,
                          file=fn.file, instance=f"{q}: {word} re-raised as the same kind")

        # ---- C10.RESTART
        e_targets = [m for m, lab in cfg.succ[r] if lab == "exc:E"]
        if not e_targets:
            raise AnalysisError(f"{q}: no exc:E edge out of the _run() await")
        # the handler's own code: what runs after the failure and before the next _run()
        region = cfg.reachable(e_targets, avoid=run_nodes, edge_ok=normal_edge)
        # the tests that read the restart limit (through any local alias)
        limit_tests = [t for t in fl.tests(region) if LIMIT in fl.subtexts(t, fl.test_expr(t))]
        if not limit_tests:
            run.violation("C10.RESTART", q, "restart guard",
                          "no test of self._restart_limit on the Exception path: restart is not "
                          "governed by the limit", node=rn.ast, file=fn.file)
            continue
        # counter: the operand order-compared with the limit
        cands: set[str] = set()
        for t in limit_tests:
            for x in ast.walk(fl.expand(t, fl.test_expr(t))):  # type: ignore[arg-type]
                if isinstance(x, ast.Compare) and len(x.ops) == 1 and isinstance(
                        x.ops[0], (ast.Lt, ast.LtE, ast.Gt, ast.GtE)):
                    sides = {u(x.left), u(x.comparators[0])}
                    if LIMIT in sides:
                        cands |= sides - {LIMIT}
        gnode = cfg.nodes[limit_tests[0]]
        gast = fl.test_expr(gnode.id)
        if not cands:
            run.violation("C10.RESTART", q, "restart guard",
                          "the restart decision never compares a restart counter with "
                          "self._restart_limit", node=gast, file=fn.file)
            continue
        if len(cands) != 1:
            raise AnalysisError(f"{q}: cannot identify the restart counter (candidates {sorted(cands)})")
        ctr = cands.pop()
        fl.pin(ctr)
        run.ok("C10.RESTART", f"{q}: restart decided by tests of {LIMIT} against counter `{ctr}` "
               f"({len(limit_tests)} test(s))")
        # The decision must equal `limit is None or ctr < limit`: it is evaluated on the three cases
        # that partition the domain.  Tests the valuation does not decide are followed both ways.
        cases = (
            ("limit is None", is_none(LIMIT, True), True),
            (f"{ctr} < limit", join(is_none(LIMIT, False), less_than(ctr, LIMIT, True)), True),
            (f"limit reached ({ctr} >= limit)",
             join(is_none(LIMIT, False), less_than(ctr, LIMIT, False)), False),
        )
        for text, val, allowed in cases:
            if allowed:
                # really restarts: on normal edges neither `raise` nor the exit comes before _run()
                ok_e = fl.consistent(val, normal=True)
                a_reach = cfg.reachable(e_targets, avoid=run_nodes, edge_ok=ok_e)
                stray = [x for x in a_reach if x == cfg.exit or isinstance(cfg.nodes[x].ast, ast.Raise)]
                wit = None
                for t0 in e_targets:
                    wit = cfg.path(t0, stray, avoid=run_nodes, edge_ok=ok_e) if stray else None
                    if wit:
                        break
                reaches_run = any(ok_e(x, m, lab) and m in run_nodes
                                  for x in a_reach for m, lab in cfg.succ[x])
                run.check(not stray and reaches_run, "C10.RESTART", q, f"restart when {text}",
                          f"with restarts left ({text}) a failing _run() is not (always) re-invoked: "
                          "the handler can reach `raise`/exit or never reaches _run()",
                          node=gast, file=fn.file, path=fl.fmt(wit),
                          instance=f"{q}: {text} => _run() re-invoked")
            else:
                ok_e = fl.consistent(val)
                wit = None
                for t0 in e_targets:
                    wit = cfg.path(t0, [cfg.exit] + run_nodes, edge_ok=ok_e)
                    if wit:
                        break
                propagates = any(cfg.raise_exit in cfg.reachable([t0], edge_ok=ok_e) for t0 in e_targets)
                run.check(wit is None and propagates, "C10.RESTART", q, f"no restart when {text}",
                          "with the restart limit reached the exception must propagate, but a path "
                          "reaches exit or _run() (restart guard is not equivalent to "
                          f"`limit is None or {ctr} < limit`)", node=gast, file=fn.file,
                          path=fl.fmt(wit), instance=f"{q}: {text} => exception propagates")
        # (d) counter incremented exactly once (by 1) on every restart path, after the decision
        handler_side = cfg.reachable(e_targets, avoid=run_nodes)
        # (`for ctr in itertools.count()`: the loop header is both the initialisation and the +1)
        incs = [x for x in sorted(handler_side | region)
                if (isinstance(cfg.nodes[x].ast, (ast.AugAssign, ast.Assign, ast.AnnAssign))
                    or cfg.nodes[x].kind == "for")
                and any(u(w) == ctr for w in node_writes(cfg, x))]
        by_one = all(_is_plus_one(cfg.nodes[x].ast, ctr) or (
            cfg.nodes[x].kind == "for" and (count_loop(cfg.nodes[x].ast) or (0, 0))[1] == 1
            and u(cfg.nodes[x].ast.target) == ctr)  # type: ignore[union-attr]
            for x in incs)
        wit = None
        for t0 in e_targets:
            wit = cfg.path(t0, run_nodes, avoid=incs)
            if wit:
                break
        run.check(bool(incs) and wit is None and by_one, "C10.RESTART", q,
                  f"increment of {ctr}",
                  f"a restart path does not increment `{ctr}` by exactly 1 before re-invoking "
                  "_run() (restart limit would not be honoured)", node=gast, file=fn.file,
                  path=fl.fmt(wit), instance=f"{q}: every restart path increments {ctr} by 1")
        twice = None
        for x in incs:
            twice = cfg.path(x, incs, avoid=run_nodes, include_src=False, edge_ok=normal_edge)
            if twice:
                break
        run.check(twice is None, "C10.RESTART", q, f"second increment of {ctr}",
                  f"`{ctr}` can be incremented twice for one failure", node=gast,
                  file=fn.file, path=fl.fmt(twice),
                  instance=f"{q}: {ctr} incremented at most once per failure")
        stale = None
        for x in incs:
            stale = cfg.path(x, limit_tests, avoid=run_nodes, include_src=False, edge_ok=normal_edge)
            if stale:
                break
        run.check(stale is None, "C10.RESTART", q, f"{ctr} compared before its increment",
                  f"the restart decision reads `{ctr}` after it was incremented for this failure "
                  "(one restart fewer than the limit)", node=gast, file=fn.file,
                  path=fl.fmt(stale), instance=f"{q}: limit test reads {ctr} before the increment")
        # (e) the delay lies between the increment and the next _run(), and depends on the counter.
        # Delay sites: awaited sleeps in the loop, awaited sleeping helpers without parameter (the
        # caller decides) and awaited sleeping helpers that are given the counter (they decide).
        plain = [(i, c) for i, c, m in helper_delays if not m.params[1:]]
        given = [(i, c, m) for i, c, m in helper_delays if m.params[1:]]
        sites = inline_sleeps + plain
        delay_nodes = [i for i, c in sites if fl.awaited(i, c)] + [i for i, c, _ in given if fl.awaited(i, c)]
        all_awaited = len(delay_nodes) == len(sites) + len(given)
        # Two phases along a restart path: before the increment the counter may still be 0 (tests on
        # it are followed both ways and a helper given the counter may not sleep); after it ctr > 0.
        restarting = fl.consistent(positive(ctr, True), normal=True)
        given_nodes = {i for i, c, _ in given}
        site_nodes = {i for i, c in sites}
        wit = None
        for t0 in e_targets:
            wit = wit or _two_phase_path(cfg, t0, set(run_nodes), set(incs), normal_edge, restarting,
                                         avoid0=site_nodes, avoid1=site_nodes | given_nodes)
        ok_arg = True
        for i, c, m in given:
            hp = m.params[1:]
            args = positional(c, hp)
            if len(hp) != 1 or set(args) != {hp[0]} or fl.text(i, args[hp[0]]) != ctr:
                ok_arg = False
        run.check(bool(delay_nodes) and all_awaited and wit is None and ok_arg,
                  "C10.RESTART", q, "restart delay",
                  f"a restart path reaches _run() without awaiting the restart delay for `{ctr}`",
                  node=gast, file=fn.file, path=fl.fmt(wit),
                  instance=f"{q}: every restart passes the restart delay ({ctr}) before _run()")
        # the delay really sleeps RESTART_DELAY when the counter is > 0, and only then
        for m in {id(m): m for _, _, m in given}.values():
            _check_delay_guard(run, _flow(run, prog, m), m.params[1], "helper")
        for m in {id(m): m for _, _, m in helper_delays if not m.params[1:]}.values():
            _check_delay_guard(run, _flow(run, prog, m), None, "always")
        if sites:
            _check_delay_guard(run, fl, ctr, "caller", stop=run_nodes, sites=sites)
        # initial value of the counter is 0 on every way into the first _run()
        first_part = cfg.reachable([cfg.entry], avoid=run_nodes, edge_ok=normal_edge)
        init = [x for x in sorted(first_part)
                if (isinstance(cfg.nodes[x].ast, (ast.Assign, ast.AnnAssign, ast.AugAssign))
                    or cfg.nodes[x].kind == "for")
                and any(u(w) == ctr for w in node_writes(cfg, x))]

        def zero_init(x: int) -> bool:
            a = cfg.nodes[x].ast
            if cfg.nodes[x].kind == "for":
                return (count_loop(a) or (1, 0))[0] == 0 and u(a.target) == ctr  # type: ignore[union-attr]
            v = getattr(a, "value", None)
            return (isinstance(v, ast.Constant) and not isinstance(a, ast.AugAssign)
                    and type(v.value) is int and v.value == 0)

        ok_init = bool(init) and all(zero_init(x) for x in init)
        wit = cfg.path(cfg.entry, run_nodes, avoid=init, edge_ok=normal_edge) if init else None
        run.check(ok_init and wit is None, "C10.RESTART", q, f"{ctr} initialisation",
                  f"`{ctr}` is not (re)set to 0 when the run loop starts — the restart budget and "
                  "the restart delay would carry over from an earlier start()", node=fn.node,
                  file=fn.file, path=fl.fmt(wit),
                  instance=f"{q}: {ctr} starts at 0")

    # ---- handler order: the first handler able to catch a cancellation must not be able to loop
    # (covered semantically by C10.CANCEL above through the exc:C edge)


def _two_phase_path(cfg, src: int, dsts: set[int], switch: set[int], ok0, ok1,  # type: ignore[no-untyped-def]
                    avoid0: set[int], avoid1: set[int]) -> list[tuple[int, str]] | None:
    """Shortest path src -> dsts in the product of the CFG with a phase bit that flips when a
    `switch` node is left; phase p follows edges accepted by ok<p> and never enters avoid<p>."""
    start = (src, 0)
    prev: dict[tuple[int, int], tuple[tuple[int, int], str]] = {}
    seen = {start}
    queue = [start]
    qi = 0
    while qi < len(queue):
        cur = queue[qi]
        qi += 1
        n, ph = cur
        ph2 = 1 if (ph == 1 or n in switch) else 0
        for m, lab in cfg.succ[n]:
            if not (ok1 if ph2 else ok0)(n, m, lab) or m in (avoid1 if ph2 else avoid0):
                continue
            nxt = (m, ph2)
            if m in dsts:
                out = [(m, lab)]
                c = cur
                while c != start:
                    p, plab = prev[c]
                    out.append((c[0], plab))
                    c = p
                out.append((src, ""))
                return list(reversed(out))
            if nxt in seen:
                continue
            seen.add(nxt)
            prev[nxt] = (cur, lab)
            queue.append(nxt)
    return None


def _check_delay_guard(run: Run, dfl: Flow, param: str | None, mode: str,
                       stop: list[int] | None = None,
                       sites: list[tuple[int, ast.Call]] | None = None) -> None:
    """The restart delay happens iff the counter is > 0 and lasts RESTART_DELAY.

    mode "helper": a coroutine given the counter as `param`: under param > 0 every normal path
        entry -> exit sleeps, under param == 0 none does.
    mode "always": a coroutine without parameter: every normal path sleeps (its caller decides).
    mode "caller": inside the run loop: the way from the entry to the first `_run()` (`stop`) never
        reaches a delay site (`sites`: sleeps and parameterless delay helpers) while the counter
        `param` is 0; that every restart path passes one is rule (e) of the caller."""
    dcfg = dfl.cfg
    is_sleep = lambda c: dotted(c.func) == "asyncio.sleep"  # noqa: E731
    if sites is None:
        sites = [(i, c) for i, c in dfl.calls(is_sleep) if dfl.awaited(i, c)]
    site_nodes = [i for i, _ in sites]
    ok = False
    wit = None
    detail = "no awaited asyncio.sleep found"
    if sites:
        rebound: list[int] = []
        early = None
        if mode == "helper":
            assert param is not None
            rebound = [x.id for x in dcfg.nodes if any(u(w) == param for w in node_writes(dcfg, x.id))]
            wit = dcfg.path(dcfg.entry, [dcfg.exit], avoid=site_nodes,
                            edge_ok=dfl.consistent(positive(param, True), normal=True))
        elif mode == "always":
            wit = dcfg.path(dcfg.entry, [dcfg.exit], avoid=site_nodes, edge_ok=normal_edge)
        if mode in ("helper", "caller"):
            assert param is not None
            early = dcfg.path(dcfg.entry, site_nodes, avoid=stop or [],
                              edge_ok=dfl.consistent(positive(param, False), normal=True))
        ok = wit is None and early is None and not rebound
        if wit is not None:
            detail = "a restart can skip the delay" if param is None else \
                f"a restart ({param} > 0) can skip the delay"
        elif early is not None:
            wit = early
            detail = f"the first run ({param} == 0) is delayed: the delay guard is not `{param} > 0`"
        elif rebound:
            detail = f"`{param}` is re-bound inside {dfl.fn.name}"
        # the sleep duration derives from RESTART_DELAY
        for i, c in sites:
            if not is_sleep(c):
                continue  # a delay helper: its own sleep is checked in its own body
            arg = positional(c, ["delay", "result"]).get("delay")
            src = dfl.expand(i, arg) if arg is not None else None
            reads = [] if src is None else [x for x in ast.walk(src)
                                            if isinstance(x, ast.Attribute) and x.attr == "RESTART_DELAY"]
            if not reads:
                ok = False
                detail = "sleep duration does not derive from RESTART_DELAY"
                continue
            # ... of *this* actor: the attribute is looked up through the instance (or its dynamic class), not
            # through a class named in the source, which freezes the value of that class
            frozen = [o for o in (_named_owner(dfl.fn.node, x.value) for x in reads) if o]
            if frozen:
                ok = False
                wit = None
                detail = (f"the restart delay is read as `{frozen[0]}.RESTART_DELAY`, through a class named in the "
                          "source instead of through the actor (`self.RESTART_DELAY`): an actor class that overrides "
                          "RESTART_DELAY -- or an instance that sets it -- is restarted with the delay of "
                          f"`{frozen[0]}`: re-invoked before its own restart delay has elapsed, or much later.  The "
                          "configuration of the restart policy (RESTART_DELAY like _restart_limit) must be read from "
                          "the actor being restarted, at every place the policy consults it")
    what = "always" if param is None else f"iff {param} > 0"
    run.check(ok, "C10.RESTART", dfl.qual, "restart delay guard", detail, node=dfl.fn.node,
              file=dfl.file, path=dfl.fmt(wit),
              instance=f"{dfl.qual}: sleeps RESTART_DELAY {what}")


def _named_owner(fn_node: ast.AST, base: ast.AST) -> str | None:
    """The owner expression of an attribute read when it is rooted in a name that is neither a parameter
    nor a local of the function (a class or module named in the source: `Actor`, `_actor.Actor`), else None
    (`self`, `type(self)`, `self.__class__`, a local bound to any of them: looked up dynamically)."""
    root = base
    while isinstance(root, (ast.Attribute, ast.Subscript)):
        root = root.value
    if not isinstance(root, ast.Name):
        return None  # type(self), super(), ...: dispatches on the object
    own = {"self", "cls"}
    args = getattr(fn_node, "args", None)
    if isinstance(args, ast.arguments):
        own |= {a.arg for a in args.posonlyargs + args.args + args.kwonlyargs}
        own |= {a.arg for a in (args.vararg, args.kwarg) if a is not None}
    own |= {x.id for x in ast.walk(fn_node) if isinstance(x, ast.Name) and isinstance(x.ctx, ast.Store)}
    return None if root.id in own else u(base)


def _is_plus_one(stmt: ast.AST | None, name: str) -> bool:
    if isinstance(stmt, ast.AugAssign):
        return (isinstance(stmt.op, ast.Add) and isinstance(stmt.value, ast.Constant)
                and stmt.value.value == 1 and type(stmt.value.value) is int and u(stmt.target) == name)
    target = value = None
    if isinstance(stmt, ast.Assign) and len(stmt.targets) == 1:
        target, value = stmt.targets[0], stmt.value
    elif isinstance(stmt, ast.AnnAssign):
        target, value = stmt.target, stmt.value
    if target is not None and isinstance(value, ast.BinOp) and isinstance(value.op, ast.Add):
        parts = sorted([u(value.left), u(value.right)])
        return parts == sorted([name, "1"]) and u(target) == name
    return False


# ---------------------------------------------------------------------------------------------
def _not_running_guard(fl: Flow, targets: list[int]) -> list[tuple[int, str]] | None:
    """A path entry -> target that is possible while `self.is_running` is true (None: guarded)."""
    ok_e = fl.consistent(truthy("self.is_running", True))
    return fl.cfg.path(fl.cfg.entry, targets, edge_ok=ok_e)


def _is_any_not_done(fl: Flow) -> bool:
    """is_running == any(not task.done() for task in self._tasks), in any equivalent shape."""
    cfg = fl.cfg
    rets = [n for n in cfg.nodes if isinstance(n.ast, ast.Return)]
    if not rets or any(n.ast.value is None for n in rets):  # type: ignore[union-attr]
        return False
    if len(rets) == 1:
        v = fl.expand(rets[0].id, rets[0].ast.value)  # type: ignore[union-attr,arg-type]
        neg = False
        while isinstance(v, ast.UnaryOp) and isinstance(v.op, ast.Not):
            neg = not neg
            v = v.operand
        if isinstance(v, ast.Call) and isinstance(v.func, ast.Name) and v.func.id in ("any", "all") \
                and len(v.args) == 1 and not v.keywords \
                and isinstance(v.args[0], (ast.GeneratorExp, ast.ListComp, ast.SetComp)):
            comp = v.args[0]
            gen = comp.generators[0]
            if len(comp.generators) != 1 or gen.ifs or gen.is_async \
                    or u(strip_wrappers(gen.iter)) != TASKS:
                return False
            done = ("truthy", f"{u(gen.target)}.done()")
            c = canon(comp.elt)
            if v.func.id == "any":
                return not neg and c == ("not", done)
            return neg and c == done
        return False
    # explicit loop: return True at the first task that is not done, False when all are done
    loops = [n for n in cfg.nodes if n.kind == "for" and isinstance(n.ast, ast.For)
             and u(strip_wrappers(fl.expand(n.id, n.ast.iter))) == TASKS]
    if len(loops) != 1 or cfg.path(cfg.entry, [cfg.exit], avoid=[loops[0].id]) is not None:
        return False
    h = loops[0]
    done = f"{u(h.ast.target)}.done()"  # type: ignore[union-attr]

    def const_ret(nid: int, value: bool) -> bool:
        a = cfg.nodes[nid].ast
        return isinstance(a, ast.Return) and isinstance(a.value, ast.Constant) and a.value.value is value

    body = [m for m, lab in cfg.succ[h.id] if lab == "iter"]
    after = [m for m, lab in cfg.succ[h.id] if lab == "done"]

    def always_returns(starts: list[int], edge_ok, value: bool, stop: list[int]) -> bool:  # type: ignore[no-untyped-def]
        reach = cfg.reachable(starts, avoid=stop, edge_ok=edge_ok)
        rs = [x for x in reach if isinstance(cfg.nodes[x].ast, ast.Return)]
        if not starts or not rs or not all(const_ret(x, value) for x in rs):
            return False
        return all(s in rs or cfg.path(s, [cfg.exit] + stop, avoid=rs, edge_ok=edge_ok) is None
                   for s in starts)

    # a task that is not done: every path ends in `return True`
    if not always_returns(body, fl.consistent(truthy(done, False), normal=True), True, [h.id]):
        return False
    # a task that is done: back to the loop header without returning
    e_done = fl.consistent(truthy(done, True), normal=True)
    if any(cfg.path(b, [x.id for x in rets] + [cfg.exit], avoid=[h.id], edge_ok=e_done) is not None
           for b in body):
        return False
    # all done: `return False`
    return always_returns(after, normal_edge, False, [])


def _supervised_unit(prog: Program):  # type: ignore[no-untyped-def]
    """(family, sites, unit, unit_names, start_unit): the functions of the Actor family, the call sites
    of private `self._x(...)` methods, the supervised unit -- _run_loop plus the private Actor methods
    that are called from inside the unit only (pieces of the run loop that were split off) -- and
    likewise start() with the private pieces split off from it."""
    actor = prog.cls(ACTOR)
    actor_family = {c.qual for c in [actor] + prog.subclasses(actor)}
    family = [fn for fn in prog.all_functions() if fn.cls is not None and fn.cls.qual in actor_family]
    sites: dict[str, list[tuple[object, ast.Call, bool]]] = {}
    for fn in family:
        awaited_calls = {id(x.value) for x in ast.walk(fn.node) if isinstance(x, ast.Await)}
        for call in (x for x in ast.walk(fn.node) if isinstance(x, ast.Call)):
            f = call.func
            if isinstance(f, ast.Attribute) and u(f.value) == "self" and f.attr.startswith("_") \
                    and not f.attr.startswith("__"):
                sites.setdefault(f.attr, []).append((fn, call, id(call) in awaited_calls))
    unit = {f"{ACTOR}._run_loop"}
    unit_names = {"_run_loop"}
    changed = True
    while changed:
        changed = False
        for name, where in sites.items():
            m = prog.resolve_method(actor, name)
            if name == "_run" or m is None or m.qual in unit or m.cls is None or m.cls.qual != ACTOR:
                continue
            if all(fn.qual in unit for fn, _, _ in where) and any(fn.qual in unit for fn, _, _ in where):
                unit.add(m.qual)
                unit_names.add(name)
                changed = True
    # likewise start() and the private pieces split off from it (called from start() only)
    start_unit = {f"{ACTOR}.start"}
    changed = True
    while changed:
        changed = False
        for name, where in sites.items():
            m = prog.resolve_method(actor, name)
            if m is None or m.qual in start_unit or m.qual in unit or m.cls is None or m.cls.qual != ACTOR:
                continue
            if all(fn.qual in start_unit for fn, _, _ in where):
                start_unit.add(m.qual)
                changed = True
    return family, sites, unit, unit_names, start_unit


def check_single(run: Run, prog: Program) -> None:
    """who-may-call: _run only awaited from _run_loop; _run_loop only spawned from start()."""
    actor = prog.cls(ACTOR)
    family, sites, unit, unit_names, start_unit = _supervised_unit(prog)
    n_run = 0
    for fn in family:
        called = set()
        for call in (x for x in ast.walk(fn.node) if isinstance(x, ast.Call)):
            called.add(id(call.func))
            if method_call(call, "self", "_run"):
                n_run += 1
                run.check(fn.qual in unit, "C10.SINGLE", fn.qual, call,
                          "Actor._run() invoked outside Actor._run_loop (a second, unsupervised "
                          "run of the actor's logic)", node=call, file=fn.file)
            if method_call(call, "self", "_run_loop"):
                run.check(fn.qual in start_unit, "C10.SINGLE", fn.qual, call,
                          "_run_loop spawned outside Actor.start", node=call, file=fn.file)
        # the bound method handed to somebody else (run_forever(self._run), a local alias, ...)
        for ref in ast.walk(fn.node):
            if isinstance(ref, ast.Attribute) and ref.attr in unit_names | {"_run"} \
                    and u(ref.value) == "self" and id(ref) not in called:
                n_run += 1
                run.violation("C10.SINGLE", fn.qual, ref,
                              f"Actor.{ref.attr} handed to another runner: it may run concurrently "
                              "with the supervised run", node=ref, file=fn.file)
    # the split-off pieces of the loop run in place: awaited where they are called, never spawned
    for name in sorted(unit_names - {"_run_loop"}):
        m = prog.resolve_method(actor, name)
        for fn, call, is_awaited in sites.get(name, []):
            if m is not None and m.is_async and not is_awaited:
                run.violation("C10.SINGLE", fn.qual, call,  # type: ignore[attr-defined]
                              f"Actor.{name} (part of the supervised run loop) is not awaited in "
                              "place: the run it drives could overlap with another one",
                              node=call, file=fn.file)  # type: ignore[attr-defined]
    if n_run < 1:
        raise AnalysisError("C10.SINGLE: no call of self._run() found in the Actor family")
    # Actor subclasses must not override start / the run loop and its pieces silently
    for sub in prog.subclasses(actor):
        for name in sorted({"start"} | unit_names):
            if name in sub.methods:
                m = sub.methods[name]
                calls_super = has_call(m.node, lambda c, n=name: is_super_call(c, n))
                run.check(calls_super and name == "start", "C10.SINGLE", m.qual, m.node.name,
                          f"Actor subclass overrides {name}() — the restart supervision of "
                          "Actor._run_loop is bypassed", node=m.node, file=m.file)
    # start(): guard and registration
    fl = _flow(run, prog, prog.func(f"{ACTOR}.start"))
    st, cfg = fl.fn, fl.cfg
    run.analysed(fl.qual)
    loop_calls = some(fl.calls(lambda c: method_call(c, "self", "_run_loop")),
                      "spawn of _run_loop in Actor.start")
    # the coroutine is wrapped into a task by create_task (directly or through a local) ...
    spawn = [(i, c) for i, c in fl.calls(lambda c: callee_tail(c) == "create_task")
             if c.args and isinstance(fl.expand(i, c.args[0]), ast.Call)
             and method_call(fl.expand(i, c.args[0]), "self", "_run_loop")]  # type: ignore[arg-type]
    run.check(len(spawn) == len(loop_calls), "C10.SINGLE", fl.qual, "create_task(self._run_loop())",
              "the _run_loop coroutine is not (only) wrapped into a task by create_task",
              node=st.node, file=st.file)
    for s, creator in spawn:
        n = cfg.nodes[s]
        assert n.ast is not None
        # ... and that task is registered
        ok_reg, wit = registered(fl, s, creator, TASKS)
        run.check(ok_reg, "C10.SINGLE", fl.qual, n.ast,
                  "the _run_loop task is not registered in self._tasks (stop()/wait() would miss it)",
                  node=n.ast, file=st.file, path=fl.fmt(wit))
        # guard: while is_running is true no path from the entry reaches the spawn
        wit = _not_running_guard(fl, [s])
        run.check(wit is None, "C10.SINGLE", fl.qual, "is_running guard",
                  "start() can spawn a second _run_loop while the actor is running (guard "
                  "`if self.is_running: return` missing or bypassable)", node=n.ast, file=st.file,
                  path=fl.fmt(wit), instance=f"{fl.qual}: spawn dominated by `not is_running`")
    # is_running: any(not task.done() for task in self._tasks)
    ifl = _flow(run, prog, prog.func(f"{BGS}.is_running"))
    run.analysed(ifl.qual)
    run.check(_is_any_not_done(ifl), "C10.SINGLE", ifl.qual, "return any(not task.done() ...)",
              "is_running is not `any(not task.done() for task in self._tasks)` — start() "
              "idempotence relies on it", node=ifl.fn.node, file=ifl.file)


# ---------------------------------------------------------------------------------------------
_SWALLOWING = {"CancelledError", "BaseException"}


def check_cancel_points(run: Run, prog: Program) -> None:
    """C10.CANCEL at *every* suspension point of the supervised run loop, not only at `await self._run()`.

    stop()/cancel() may arrive while the actor is suspended anywhere in the loop: in the restart delay, in a
    piece of the loop that was split off into a private coroutine, in an awaited helper.  Wherever the
    CancelledError is delivered, it must leave the loop's coroutine as a CancelledError: a handler without
    re-raise (`except CancelledError` / `except BaseException` / bare `except`), a `return`/`break`/`continue`
    out of a `finally`, a `contextlib.suppress(...)` or a conversion into another exception makes the loop
    carry on -- _run() is invoked again after the cancellation and stop() hangs, or reports a later failure.

    The coroutines looked at: the supervised unit (see _supervised_unit) and, transitively, the private
    coroutines (methods, module functions, closures) they await in place; `_run` itself is user code."""
    _family, _sites, unit, _names, _start_unit = _supervised_unit(prog)
    loop_q = f"{ACTOR}._run_loop"
    todo = [prog.func(qn) for qn in sorted(unit)]
    seen = {f.qual for f in todo}
    flows: list[Flow] = []
    depth = {f.qual: 0 for f in todo}
    while todo:
        fn = todo.pop(0)
        if not fn.is_async:
            continue
        fl = _flow(run, prog, fn)
        flows.append(fl)
        if depth[fn.qual] >= 3:
            continue
        for i, c in fl.calls(lambda c: True):
            if not fl.awaited(i, c) or not callee_tail(c).startswith("_") or callee_tail(c).startswith("__") \
                    or callee_tail(c) == "_run":
                continue
            target = _resolve_helper(prog, fl, c.func)
            if target is not None and target.is_async and target.qual not in seen:
                seen.add(target.qual)
                depth[target.qual] = depth[fn.qual] + 1
                todo.append(target)
    is_run = lambda c: method_call(c, "self", "_run")  # noqa: E731
    piece_names = {fl.fn.name for fl in flows if fl.qual != loop_q}

    def resumes_run(name: str, depth: int = 3) -> bool:
        """After a normal return of the piece `name`, can its caller reach `await self._run()`?"""
        for cf in flows:
            runs = nodes_with_call(cf.cfg, is_run)
            for i, _c in cf.calls(lambda c: callee_tail(c) == name):
                after = cf.cfg.reachable([m for m, lab in cf.cfg.succ[i] if normal_edge(i, m, lab)])
                if any(r in after for r in runs) or (
                        cf.cfg.exit in after and cf.qual != loop_q and cf.fn.name != name and depth > 0
                        and resumes_run(cf.fn.name, depth - 1)):
                    return True
        return False

    for fl in flows:
        cfg, q = fl.cfg, fl.qual
        run_nodes = nodes_with_call(cfg, is_run)
        sources = [n.id for n in cfg.nodes if n.ast is not None and not isinstance(n.ast, ast.Raise)
                   and not (q == loop_q and n.id in run_nodes)  # (the loop's own _run() await: check_run_loop)
                   and any(lab == "exc:C" for _m, lab in cfg.succ[n.id])]
        n_bad = 0
        for s in sources:
            sn = cfg.nodes[s]
            where = f"`{sn.text(70)}`"
            targets = [m for m, lab in cfg.succ[s] if lab == "exc:C"]
            reach = cfg.reachable(targets)
            # what the loop does next when this coroutine simply returns
            if q == loop_q:
                goes_on = ("the run loop's task ends as if _run() had returned: wait()/run() see a clean finish "
                           "instead of a cancellation")
            elif resumes_run(fl.fn.name):
                goes_on = (f"{fl.fn.name}() returns to the run loop as if nothing had happened and the loop goes on to "
                           "`await self._run()`: the run logic is (re-)invoked after the cancellation, stop() hangs or "
                           "returns a later failure")
            else:
                goes_on = f"{fl.fn.name}() returns to its caller in the run loop as if nothing had happened"
            again = [x for x in run_nodes if x in reach]
            if again:
                wit = cfg.path(targets[0], again)
                n_bad += 1
                run.violation("C10.CANCEL", q, sn.ast,
                              f"a cancellation that arrives while the actor is suspended at {where} can lead to "
                              "another invocation of _run(): the run logic is re-invoked after a cancellation and "
                              "stop() waits for a task that goes on running (any handler / finally / suppress around "
                              "a suspension point of the run loop must let CancelledError through)",
                              node=sn.ast, file=fl.file, path=fl.fmt(wit))
                continue
            if cfg.exit in reach:
                wit = None
                for t0 in targets:
                    wit = wit or cfg.path(t0, [cfg.exit])
                n_bad += 1
                run.violation("C10.CANCEL", q, sn.ast,
                              f"a cancellation that arrives while the actor is suspended at {where} is swallowed "
                              f"(caught and not re-raised, or dropped by a jump out of `finally`), the cancellation "
                              f"request of stop()/cancel() is consumed: {goes_on}.  "
                              "Every suspension point of the supervised run loop (the restart delay, "
                              "split-off pieces, awaited helpers) must let CancelledError propagate unchanged",
                              node=sn.ast, file=fl.file, path=fl.fmt(wit))
                continue
            sup = _suppressed_classes(fl.fn.node, sn.ast) & _SWALLOWING
            if sup:
                n_bad += 1
                run.violation("C10.CANCEL", q, sn.ast,
                              f"the suspension point {where} sits inside `contextlib.suppress({', '.join(sorted(sup))})`: "
                              f"a cancellation delivered there is swallowed and the request of stop()/cancel() is consumed: "
                              f"{goes_on}", node=sn.ast, file=fl.file)
                continue
            # not swallowed: then it must still be a cancellation when it leaves (an Exception subclass raised in
            # its place is an ordinary failure for the run loop: restart)
            side = cfg.reachable(targets, edge_ok=normal_edge)
            conv = [x for x in sorted(side) if isinstance(cfg.nodes[x].ast, ast.Raise)
                    and cfg.nodes[x].ast.exc is not None  # type: ignore[union-attr]
                    and not any(lab == "exc:C" for _m, lab in cfg.succ[x])]
            if conv:
                wit = cfg.path(targets[0], conv, edge_ok=normal_edge)
                n_bad += 1
                run.violation("C10.CANCEL", q, cfg.nodes[conv[0]].ast,
                              f"a cancellation that arrives at {where} is replaced by another exception "
                              f"(`{cfg.nodes[conv[0]].text(60)}`): the run loop sees an ordinary failure and restarts "
                              "_run() after the cancellation (or stop() surfaces an error for a plain cancel)",
                              node=cfg.nodes[conv[0]].ast, file=fl.file, path=fl.fmt(wit))
        if not n_bad:
            what = "the run loop" if q == loop_q else (
                "split-off piece of the run loop" if fl.fn.name in piece_names and q in unit else "awaited helper")
            run.ok("C10.CANCEL", f"{q}: a cancellation at any other suspension point ({what}) propagates as such",
                   f"{len(sources)} suspension point(s) besides `await self._run()`")


# ---------------------------------------------------------------------------------------------
def _second_of_pair(fl: Flow, nid: int, call: ast.Call, index: int) -> str | None:
    """Name that receives element `index` of the pair returned by `call` in statement `nid`:
    `a, b = [await] call(...)` or `x = ([await] call(...))[index]`."""
    s = fl.cfg.nodes[nid].ast
    if not isinstance(s, ast.Assign) or len(s.targets) != 1:
        return None
    v = s.value
    tgt = s.targets[0]
    inner = v.value if isinstance(v, ast.Await) else v
    if inner is call and isinstance(tgt, (ast.Tuple, ast.List)) and len(tgt.elts) == 2:
        return u(tgt.elts[index])
    if isinstance(v, ast.Subscript) and isinstance(v.slice, ast.Constant) and v.slice.value == index:
        inner = v.value.value if isinstance(v.value, ast.Await) else v.value
        if inner is call:
            return u(tgt)
    return None


def _error_comprehension(fl: Flow, nid: int, rhs: ast.AST, done_name: str) -> ast.AST | None:
    """`[e for e in (H(t) for t in done) if e is not None]` (or with `e := H(t)` in the filter, or
    `map(H, done)` as the source): the callee expression H, else None."""
    comp = fl.expand(nid, rhs)
    if isinstance(comp, ast.Call) and isinstance(comp.func, ast.Name) and comp.func.id == "list" \
            and len(comp.args) == 1 and not comp.keywords:
        comp = comp.args[0]
    if not isinstance(comp, (ast.ListComp, ast.GeneratorExp)) or len(comp.generators) != 1:
        return None
    gen = comp.generators[0]
    if gen.is_async or not isinstance(comp.elt, ast.Name) or len(gen.ifs) != 1:
        return None
    x = comp.elt.id
    flt = gen.ifs[0]

    def applied(call: ast.AST, var: str) -> ast.AST | None:
        if isinstance(call, ast.Call) and [u(a) for a in call.args] == [var] and not call.keywords:
            return call.func
        return None

    # filter `(x := H(t)) is not None` over the finished tasks themselves
    if isinstance(flt, ast.Compare) and len(flt.ops) == 1 and isinstance(flt.ops[0], ast.IsNot) \
            and isinstance(flt.left, ast.NamedExpr) and u(flt.left.target) == x \
            and u(flt.comparators[0]) == "None" and isinstance(gen.target, ast.Name) \
            and u(strip_wrappers(gen.iter)) == done_name:
        return applied(flt.left.value, gen.target.id)
    if not (isinstance(gen.target, ast.Name) and gen.target.id == x
            and canon(flt) == ("isnot", frozenset({x, "None"}))):
        return None
    src = strip_wrappers(gen.iter)
    if isinstance(src, (ast.GeneratorExp, ast.ListComp)) and len(src.generators) == 1:
        g = src.generators[0]
        if not g.ifs and not g.is_async and isinstance(g.target, ast.Name) \
                and u(strip_wrappers(g.iter)) == done_name:
            return applied(src.elt, g.target.id)
    if isinstance(src, ast.Call) and isinstance(src.func, ast.Name) and src.func.id == "map" \
            and len(src.args) == 2 and not src.keywords and u(strip_wrappers(src.args[1])) == done_name:
        return src.args[0]
    return None


def _resolve_helper(prog: Program, fl: Flow, callee: ast.AST):  # type: ignore[no-untyped-def]
    """FuncInfo of `self._h` / `cls._h` / `Class._h` / module-level `_h` as seen from `fl`."""
    fn = fl.raw
    if isinstance(callee, ast.Name):
        for n in ast.walk(fn.node):  # a closure of the analysed function itself
            if isinstance(n, (ast.FunctionDef, ast.AsyncFunctionDef)) and n is not fn.node \
                    and n.name == callee.id:
                return prog.nested(fn, callee.id)
        return fn.module.functions.get(callee.id)
    if isinstance(callee, ast.Attribute) and isinstance(callee.value, ast.Name) and fn.cls is not None \
            and callee.value.id in ("self", "cls", fn.cls.name):
        return prog.resolve_method(fn.cls, callee.attr)
    return None


def _returns_error_or_none(hfl: Flow) -> tuple[bool, str]:
    """The helper reads `<task>.result()` under a handler that catches every kind of exception and
    returns the caught exception, and returns None when the task ended without error."""
    cfg = hfl.cfg
    node = hfl.fn.node
    params = [a.arg for a in node.args.posonlyargs + node.args.args]
    if params and params[0] in ("self", "cls") and not any(
            isinstance(d, ast.Name) and d.id == "staticmethod" for d in node.decorator_list):
        params = params[1:]
    if len(params) != 1:
        return False, f"{hfl.qual}: expected exactly one task parameter"
    task = params[0]
    res = nodes_with_call(cfg, lambda c: method_call(c, task, "result") and not c.args and not c.keywords)
    if not res or cfg.path(cfg.entry, [cfg.exit], avoid=res) is not None:
        return False, "task.result() is not read for every finished task"
    rets = [n.id for n in cfg.nodes if isinstance(n.ast, ast.Return)]

    def returned(nid: int) -> str:
        v = cfg.nodes[nid].ast.value  # type: ignore[union-attr]
        return "None" if v is None else hfl.text(nid, v)

    for x in res:
        for m, lab in cfg.succ[x]:
            if not lab.startswith("exc:"):
                # no error: only None is returned
                tail = cfg.reachable([m], edge_ok=normal_edge)
                if any(returned(r) != "None" for r in rets if r in tail):
                    return False, "a task that ended without error is reported as an error"
                continue
            hn = cfg.nodes[m]
            if hn.kind != "handler":
                return False, (f"an error of a finished task ({lab}) escapes wait() uncollected — "
                               "remaining tasks are not reported")
            name = hn.ast.name  # type: ignore[union-attr]
            side = cfg.reachable([m], edge_ok=normal_edge)
            good = [r for r in rets if r in side and name is not None and returned(r) == name]
            if name is None or any(r in side and r not in good for r in rets) \
                    or cfg.path(m, [cfg.exit], avoid=good, edge_ok=normal_edge) is not None:
                return False, "a task error is caught but not collected"
    return True, ""


def check_stop(run: Run, prog: Program) -> None:
    # cancel(): every task is cancelled
    fl = _flow(run, prog, prog.func(f"{BGS}.cancel"))
    cn, cfg = fl.fn, fl.cfg
    run.analysed(fl.qual)
    loops = [n for n in cfg.nodes if n.kind == "for" and isinstance(n.ast, ast.For)
             and u(strip_wrappers(fl.expand(n.id, n.ast.iter))) == TASKS]
    ok = False
    wit = None
    for h in loops:
        cancels = nodes_with_call(cfg, lambda c: method_call(c, u(h.ast.target), "cancel"))  # type: ignore[union-attr]
        body_first = [m for m, lab in cfg.succ[h.id] if lab == "iter"]
        # every iteration passes a cancel node before returning to the header / leaving
        wit = cfg.path(body_first[0], [h.id, cfg.exit], avoid=cancels) if body_first else None
        if body_first and body_first[0] in cancels:
            wit = None
        ok = bool(cancels) and bool(body_first) and wit is None and not loop_leaks(h.ast)
        # the loop is reached on every path from entry
        if ok and cfg.path(cfg.entry, [cfg.exit], avoid=[h.id]) is not None:
            ok = False
            wit = cfg.path(cfg.entry, [cfg.exit], avoid=[h.id])
        if ok:
            break
    run.check(ok, "C10.STOP", fl.qual, "for task in self._tasks: task.cancel(msg)",
              "cancel() does not cancel every task in self._tasks on every path",
              node=cn.node, file=cn.file, path=fl.fmt(wit))

    # stop(): cancel precedes wait; only the non-cancellation remainder is re-raised
    fl = _flow(run, prog, prog.func(f"{BGS}.stop"))
    st, cfg = fl.fn, fl.cfg
    run.analysed(fl.qual)
    waits = [i for i, c in fl.calls(lambda c: method_call(c, "self", "wait")) if fl.awaited(i, c)]
    cancels = nodes_with_call(cfg, lambda c: method_call(c, "self", "cancel"))
    ok = bool(waits) and bool(cancels)
    wit = None
    if ok:
        wit = cfg.path(cfg.entry, waits, avoid=cancels)
        ok = wit is None
    run.check(ok, "C10.STOP", fl.qual, "self.cancel(msg) before await self.wait()",
              "stop() can wait for the tasks without having cancelled them first",
              node=st.node, file=st.file, path=fl.fmt(wit))
    # early exits before wait() only when there are no tasks
    if waits:
        wit = cfg.path(cfg.entry, [cfg.exit], avoid=waits, edge_ok=fl.consistent(nonempty(TASKS, True)))
        run.check(wit is None, "C10.STOP", fl.qual, "return without waiting",
                  "stop() can return without awaiting wait() although tasks exist",
                  node=st.node, file=st.file, path=fl.fmt(wit),
                  instance=f"{fl.qual}: returns early only when self._tasks is empty")
    # exception group filtering
    ok = False
    detail = "no `except BaseExceptionGroup` handler around await self.wait()"
    grp = []
    for w in waits:
        for m, lab in cfg.succ[w]:
            hn = cfg.nodes[m]
            if lab.startswith("exc:") and hn.kind == "handler" and hn not in grp \
                    and isinstance(hn.ast, ast.ExceptHandler) and hn.ast.type is not None \
                    and any((dotted(x) or "").split(".")[-1] == "BaseExceptionGroup"
                            for x in ([hn.ast.type] if not isinstance(hn.ast.type, ast.Tuple)
                                      else hn.ast.type.elts)):
                grp.append(hn)
    if len(grp) == 1 and waits:
        h = grp[0]
        assert isinstance(h.ast, ast.ExceptHandler)
        exc_name = h.ast.name
        hreach = cfg.reachable([h.id])
        splits = [(i, c) for i, c in fl.calls(
            lambda c: method_call(c, exc_name, "split")
            and [u(a).split(".")[-1] for a in c.args] == ["CancelledError"] and not c.keywords)
            if i in hreach]
        detail = "the handler does not split off asyncio.CancelledError"
        if len(splits) == 1:
            sp, sp_call = splits[0]
            rest_name = _second_of_pair(fl, sp, sp_call, 1)
            fl.pin(rest_name)
            raises = [x for x in hreach if isinstance(cfg.nodes[x].ast, ast.Raise)]
            detail = "the non-cancellation remainder of the group is not re-raised"
            # (b) the remainder is collected (stop() cancels and waits in a loop) and surfaced after the loop
            collects = [(i, c) for i, c in fl.calls(
                lambda c: isinstance(c.func, ast.Attribute) and c.func.attr in ("append", "extend") and len(c.args) == 1
                and not c.keywords and isinstance(c.func.value, ast.Name)
                and u(c.args[0]) in ((rest_name,) if c.func.attr == "append" else (f"{rest_name}.exceptions",)))
                if rest_name and i in hreach] if rest_name else []
            group_raises = []
            if collects and len({u(c.func.value) for _i, c in collects}) == 1:  # type: ignore[attr-defined]
                lname = u(collects[0][1].func.value)  # type: ignore[attr-defined]
                for n_ in cfg.nodes:
                    if isinstance(n_.ast, ast.Raise) and isinstance(n_.ast.exc, ast.Call) and callee_tail(n_.ast.exc) == "BaseExceptionGroup" \
                            and len(n_.ast.exc.args) == 2 and u(n_.ast.exc.args[1]) == lname:
                        group_raises.append(n_.id)
                in_handler = [x for x in raises if x not in group_raises]
                if group_raises and not in_handler:
                    cn_ = [i for i, _c in collects]
                    after = [m for m, lab in cfg.succ[sp] if normal_edge(sp, m, lab)]
                    some_v = join(is_none(rest_name, False), truthy(rest_name, True))
                    none_v = join(is_none(rest_name, True), truthy(rest_name, False))
                    e_some = fl.consistent(some_v, normal=True)
                    e_none = fl.consistent(none_v, normal=True)
                    dropped = [cfg.path(a, [cfg.exit] + waits, avoid=cn_, edge_ok=e_some) for a in after]
                    spurious = [cfg.path(a, cn_, edge_ok=e_none) for a in after]
                    filled = fl.consistent(nonempty(lname, True), normal=True)
                    empty = fl.consistent(nonempty(lname, False), normal=True)
                    lost = [cfg.path(c_, [cfg.exit], avoid=group_raises, edge_ok=filled, include_src=False) for c_ in cn_]
                    raised_empty = cfg.path(cfg.entry, group_raises, avoid=cn_, edge_ok=empty)
                    ok = bool(after) and not any(dropped) and not any(spurious) and not any(lost) and raised_empty is None
                    detail = ("the remainders collected over the rounds are not raised as one group exactly when there are any "
                              "(errors swallowed, cancellations surfaced, or a group raised without errors)")
                    raises = []
            if rest_name and raises:
                good_raise = all(fl.text(x, cfg.nodes[x].ast.exc) == rest_name for x in raises)  # type: ignore[union-attr]
                rebound = [x for x in hreach if x != sp
                           and any(u(w) == rest_name for w in node_writes(cfg, x))]
                if good_raise and not rebound:
                    after = [m for m, lab in cfg.succ[sp] if normal_edge(sp, m, lab)]
                    # an exception group is always truthy: `if rest:` == `if rest is not None:`
                    some_v = join(is_none(rest_name, False), truthy(rest_name, True))
                    none_v = join(is_none(rest_name, True), truthy(rest_name, False))
                    e_some = fl.consistent(some_v, normal=True)
                    e_none = fl.consistent(none_v, normal=True)
                    swallowed = [cfg.path(a, [cfg.exit], avoid=raises, edge_ok=e_some) for a in after]
                    surfaced = [cfg.path(a, raises, edge_ok=e_none) for a in after]
                    some_side = cfg.reachable(after, edge_ok=e_some)
                    none_side = cfg.reachable(after, edge_ok=e_none)
                    ok = (bool(after) and not any(swallowed) and not any(surfaced)
                          and any(r in some_side for r in raises) and cfg.exit in none_side)
                    detail = ("the remainder is not raised exactly when it is not None "
                              "(errors swallowed or cancellations surfaced)")
                elif not good_raise:
                    detail = "stop() re-raises something other than the non-cancellation remainder"
    run.check(ok, "C10.STOP", fl.qual, "except BaseExceptionGroup: split(CancelledError); raise rest",
              detail, node=st.node, file=st.file)
    # tasks added while stopping ("extra tasks added at any time"): wait() only guarantees an empty task set when it
    # returns normally; when it raises -- and after cancel() it practically always raises, the group of CancelledErrors
    # -- tasks registered meanwhile (e.g. by a task's own cancellation clean-up) are still in self._tasks, neither
    # cancelled nor awaited.  stop() may therefore leave through the handler only after looking at the task set again.
    if len(grp) == 1 and waits:
        probes = [t for t in fl.tests() if fl.decides(t, nonempty(TASKS, True)) and t in cfg.reachable([grp[0].id])]
        late = cfg.path(grp[0].id, [cfg.exit], avoid=probes)
        run.check(late is None, "C10.STOP", fl.qual, "stop() leaves after a failed wait() without examining the task set again",
                  "when `await self.wait()` raises (the usual case after cancel(): the group of CancelledErrors), stop() filters "
                  "the group and returns / re-raises without looking at self._tasks again: a task that was added while the "
                  "service was being stopped (for instance by the cancellation clean-up of one of its tasks) is neither "
                  "cancelled nor awaited -- stop() has returned, is_running is still True", node=st.node, file=st.file,
                  path=fl.fmt(late), instance=f"{fl.qual}: after a failed wait() the task set is examined again")

    # wait()
    fl = _flow(run, prog, prog.func(f"{BGS}.wait"))
    wt, cfg = fl.fn, fl.cfg
    run.analysed(fl.qual)
    # state changes of the task set: re-binding, mutation, or any suspension point
    def touches_tasks(nid: int) -> bool:
        n = cfg.nodes[nid]
        if n.ast is None:
            return False
        if any(u(w) == TASKS for w in node_writes(cfg, nid)) or cfg.is_await(nid):
            return True
        return any(isinstance(c.func, ast.Attribute) and u(c.func.value) == TASKS for c in own_calls(n))

    changers = [n.id for n in cfg.nodes if touches_tasks(n.id)]
    e_tasks = fl.consistent(nonempty(TASKS, True), normal=True)
    wit = cfg.path(cfg.entry, [cfg.exit], edge_ok=e_tasks)
    for c in changers:
        if wit is None:
            wit = cfg.path(c, [cfg.exit], edge_ok=e_tasks, include_src=False)
    loops_back = any(c in cfg.reachable([c], include_src=False) for c in changers)
    ok = wit is None and loops_back
    run.check(ok, "C10.STOP", fl.qual, "while self._tasks",
              "wait() does not loop until self._tasks is empty: it can return although the set "
              "was (still) non-empty when last examined", node=wt.node, file=wt.file,
              path=fl.fmt(wit))
    if ok:
        run.ok("C10.STOP", f"{fl.qual}: return only when no task is left")
        # the awaited set is self._tasks and only done tasks are removed
        aws = [(i, c) for i, c in fl.calls(lambda c: dotted(c.func) == "asyncio.wait") if fl.awaited(i, c)]
        done_name = None
        good_wait = bool(aws)
        for i, c in aws:
            args = positional(c, ["fs"])
            extra = set(args) - {"fs", "timeout", "return_when"}
            fs = args.get("fs")
            timeout = args.get("timeout")
            rw = args.get("return_when")
            good = (fs is not None and len(c.args) <= 1 and not extra
                    and u(strip_wrappers(fl.expand(i, fs))) == TASKS
                    and (timeout is None or (isinstance(timeout, ast.Constant) and timeout.value is None))
                    and (rw is None or fl.text(i, rw).split(".")[-1] == "ALL_COMPLETED"))
            name = _second_of_pair(fl, i, c, 0)
            if not good or name is None or (done_name is not None and name != done_name):
                good_wait = False
            done_name = name
        fl.pin(done_name)
        # between two examinations of the task set its tasks are really awaited
        probes = [t for t in fl.tests() if fl.decides(t, nonempty(TASKS, True))]
        aw_ids = [i for i, _ in aws]
        for t in probes:
            for m, lab in cfg.succ[t]:
                if e_tasks(t, m, lab) and m not in aw_ids and cfg.path(
                        m, probes, avoid=aw_ids, edge_ok=e_tasks) is not None:
                    good_wait = False
        run.check(good_wait, "C10.STOP", fl.qual, "await asyncio.wait(self._tasks)",
                  "wait() does not await completion of all of self._tasks", node=wt.node,
                  file=wt.file)
        if good_wait and done_name:
            aw_nodes = [i for i, _ in aws]
            writes = [n.id for n in cfg.nodes if n.ast is not None and any(
                u(w) == TASKS for w in node_writes(cfg, n.id))]

            def removes_done(nid: int) -> bool:
                s = cfg.nodes[nid].ast
                if isinstance(s, ast.AugAssign):
                    return isinstance(s.op, ast.Sub) and fl.text(nid, s.value) == done_name
                if isinstance(s, (ast.Assign, ast.AnnAssign)) and s.value is not None:
                    v = fl.expand(nid, s.value)
                    if isinstance(v, ast.BinOp) and isinstance(v.op, ast.Sub):
                        return u(v.left) == TASKS and u(v.right) == done_name
                    if isinstance(v, ast.Call) and method_call(v, TASKS, "difference"):
                        return [u(a) for a in v.args] == [done_name] and not v.keywords
                    if isinstance(v, ast.SetComp) and len(v.generators) == 1:
                        g = v.generators[0]
                        return (u(g.iter) == TASKS and u(v.elt) == u(g.target) and len(g.ifs) == 1
                                and canon(g.ifs[0]) == ("notin", u(g.target), done_name))
                return False

            ok_w = bool(writes) and all(removes_done(x) for x in writes)
            mut = find_calls(wt.node, lambda c: isinstance(c.func, ast.Attribute)
                             and u(c.func.value) == TASKS
                             and c.func.attr in ("clear", "pop", "remove", "discard", "add", "update",
                                                 "difference_update", "intersection_update",
                                                 "symmetric_difference_update"))
            ok_m = all(c.func.attr == "difference_update" and [u(a) for a in c.args] == [done_name]  # type: ignore[union-attr]
                       for c in mut)
            run.check((ok_w or (not writes and mut)) and ok_m, "C10.STOP", fl.qual,
                      "self._tasks = self._tasks - done",
                      "wait() removes tasks other than the finished ones from self._tasks",
                      node=wt.node, file=wt.file)
            # the group that is raised, and the list of errors it carries (followed through aliases)
            raises = []
            lst = None
            lst_at = None
            for n in cfg.nodes:
                if isinstance(n.ast, ast.Raise) and n.ast.exc is not None:
                    exc: ast.AST | None = n.ast.exc
                    at = n.id
                    if isinstance(exc, ast.Name):
                        d = fl.unique_def(n.id, exc.id)
                        at, exc = d if d is not None else (at, None)
                    if isinstance(exc, ast.Call) and callee_tail(exc) == "BaseExceptionGroup":
                        raises.append(n.id)
                        if len(exc.args) == 2 and not exc.keywords:
                            lst, lst_at = u(exc.args[1]), at
            while lst is not None and lst_at is not None and lst.isidentifier():
                d = fl.unique_def(lst_at, lst)
                if d is None or not isinstance(d[1], ast.Name) or not fl._stable(d[0], lst_at, d[1], lst):
                    break
                lst_at, lst = d[0], d[1].id
            fl.pin(lst)
            # every done task's result is collected under a handler that catches everything
            fors = [n for n in cfg.nodes if n.kind == "for" and isinstance(n.ast, ast.For)
                    and u(strip_wrappers(fl.expand(n.id, n.ast.iter))) == done_name]
            ok_r = False
            wit = None
            detail = "no loop over the finished tasks"
            collectors: set[str] = set()
            after: list[int] = []
            if len(fors) == 1:
                f = fors[0]
                after = [m for m, lab in cfg.succ[f.id] if lab == "done"]
                tv = u(f.ast.target)  # type: ignore[union-attr]
                res = nodes_with_call(cfg, lambda c: method_call(c, tv, "result"))
                detail = "task.result() is not read for every finished task"
                first = [m for m, lab in cfg.succ[f.id] if lab == "iter"]
                if loop_leaks(f.ast):
                    detail = "the loop over the finished tasks can end before every task was examined"
                elif res and first:
                    wit = None if first[0] in res else cfg.path(first[0], [f.id, cfg.exit], avoid=res)
                    if wit is None:
                        ok_r = True
                        for x in res:
                            for m, lab in cfg.succ[x]:
                                if lab.startswith("exc:") and cfg.nodes[m].kind != "handler":
                                    ok_r = False
                                    detail = (f"an error of a finished task ({lab}) escapes "
                                              "wait() uncollected — remaining tasks are not "
                                              "reported")
                            for m, lab in cfg.succ[x]:
                                if lab.startswith("exc:") and cfg.nodes[m].kind == "handler":
                                    hn = cfg.nodes[m]
                                    name = hn.ast.name  # type: ignore[union-attr]
                                    # every way from the handler back to the loop appends the error
                                    app = [i for i, c in fl.calls(
                                        lambda c: isinstance(c.func, ast.Attribute)
                                        and c.func.attr == "append"
                                        and [u(a) for a in c.args] == [name] and not c.keywords)]
                                    hw = cfg.path(m, [f.id, cfg.exit], avoid=app, edge_ok=normal_edge)
                                    if name is None or not app or hw is not None:
                                        ok_r = False
                                        wit = hw
                                        detail = "a task error is caught but not collected"
                                    for i, c in fl.calls(lambda c: callee_tail(c) == "append"):
                                        if i in app:
                                            collectors.add(u(c.func.value))  # type: ignore[attr-defined]
            elif not fors and lst and lst.isidentifier() and raises:
                # comprehension form: errors = [e for e in (error_of(t) for t in done) if e is not None]
                d = fl.unique_def(raises[0], lst, any_rhs=True)
                detail = "the list of task errors is not built from every finished task"
                if d is not None:
                    helper = _error_comprehension(fl, d[0], d[1], done_name)
                    target = _resolve_helper(prog, fl, helper) if helper is not None else None
                    if target is not None:
                        hfl = _flow(run, prog, target)
                        ok_r, detail = _returns_error_or_none(hfl)
                        if ok_r:
                            collectors.add(lst)
                            after = [m for m, lab in cfg.succ[d[0]] if normal_edge(d[0], m, lab)]
            run.check(ok_r, "C10.STOP", fl.qual, "collect task.result() of every finished task",
                      detail, node=wt.node, file=wt.file, path=fl.fmt(wit))
            # raise group iff any error
            ok_g = False
            wit = None
            if len(raises) == 1 and lst and after and collectors == {lst}:
                e_some = fl.consistent(nonempty(lst, True), normal=True)
                e_none = fl.consistent(nonempty(lst, False), normal=True)
                for a in after:
                    # errors collected: the group is raised before returning / waiting again
                    wit = wit or cfg.path(a, [cfg.exit] + aw_nodes, avoid=raises, edge_ok=e_some)
                    # none collected: nothing is raised
                    wit = wit or cfg.path(a, raises, avoid=aw_nodes, edge_ok=e_none)
                ok_g = wit is None and any(
                    raises[0] in cfg.reachable([a], edge_ok=e_some) for a in after)
            run.check(ok_g, "C10.STOP", fl.qual, "raise BaseExceptionGroup iff errors were collected",
                      "wait() does not surface the collected task errors exactly when there are any",
                      node=wt.node, file=wt.file, path=fl.fmt(wit))

    # __aexit__ stops, __await__ waits
    fl = _flow(run, prog, prog.func(f"{BGS}.__aexit__"))
    ax, cfg = fl.fn, fl.cfg
    run.analysed(fl.qual)
    stops = [i for i, c in fl.calls(lambda c: method_call(c, "self", "stop")) if fl.awaited(i, c)]
    wit = cfg.path(cfg.entry, [cfg.exit], avoid=stops)
    run.check(bool(stops) and wit is None, "C10.STOP", fl.qual, "await self.stop()",
              "leaving the async context does not stop the service on every path",
              node=ax.node, file=ax.file, path=fl.fmt(wit))


# ---------------------------------------------------------------------------------------------
CANCEL_AND_AWAIT = "_internal._asyncio:cancel_and_await"


def check_cancel_and_await(run: Run, prog: Program) -> None:
    """The helper the services' stop() methods use for the tasks they keep outside `_tasks`:
    cancel the task, wait until it has really finished, swallow its cancellation and nothing else."""
    if prog.has_func(CANCEL_AND_AWAIT):
        targets = [prog.func(CANCEL_AND_AWAIT)]
    else:
        # renamed / moved: any module-level coroutine that cancels its only parameter and awaits
        targets = [f for f in prog.all_functions() if f.cls is None and f.outer is None and f.is_async
                   and len(f.params) == 1
                   and has_call(f.node, lambda c, f=f: method_call(c, f.params[0], "cancel"))
                   and any(isinstance(x, ast.Await) for x in walk_no_nested(f.node))]
        if not targets:
            run.note("no cancel-and-await helper in the tree: every stop() awaits its tasks itself")
            return
    for target in targets:
        fl = _flow(run, prog, target)
        cfg, q = fl.cfg, fl.qual
        if len(target.params) != 1:
            raise AnalysisError(f"{q}: expected exactly one task parameter")
        task = target.params[0]
        # await sites that involve the task: `await task` / `await asyncio.gather(task)` raise the
        # task's outcome at the await; everything else (gather(return_exceptions=True),
        # asyncio.wait, wait_for, shield, ...) hands the outcome back as a value or alters it
        good: list[int] = []
        bad: list[tuple[int, ast.AST]] = []
        for n in cfg.nodes:
            if n.ast is None or isinstance(n.ast, (ast.FunctionDef, ast.AsyncFunctionDef, ast.ClassDef)):
                continue
            for part in own_parts(n):
                for x in walk_no_nested(part):
                    if not isinstance(x, ast.Await):
                        continue
                    v = fl.expand(n.id, x.value)
                    mentions = any(isinstance(y, ast.Name) and y.id == task for y in ast.walk(v))
                    if not mentions:
                        continue
                    if isinstance(v, ast.Name):
                        good.append(n.id)
                    elif isinstance(v, ast.Call) and dotted(v.func) in ("asyncio.gather", "gather") \
                            and [u(a) for a in v.args] == [task] and all(
                                k.arg == "return_exceptions" and isinstance(k.value, ast.Constant)
                                and k.value.value is False for k in v.keywords):
                        good.append(n.id)
                    else:
                        bad.append((n.id, x))
        for nid, x in bad:
            run.violation("C10.STOP", q, x,
                          "the task being stopped is awaited through a construct that does not raise "
                          "its outcome here (gather(return_exceptions=True), asyncio.wait, wait_for, "
                          "...): an error it raises while being stopped is discarded instead of "
                          "propagated to stop()", node=x, file=fl.file)
        cancels = [i for i, c in fl.calls(lambda c: isinstance(c.func, ast.Attribute)
                                          and c.func.attr == "cancel")
                   if fl.text(i, c.func.value) == task]  # type: ignore[attr-defined]
        running = fl.consistent(truthy(f"{task}.done()", False), normal=True)
        sites = good + [i for i, _ in bad]
        wit = cfg.path(cfg.entry, [cfg.exit], avoid=sites, edge_ok=running)
        run.check(bool(sites) and wit is None, "C10.STOP", q, "await task",
                  "a task that is still running is not awaited: the caller's stop() returns before "
                  "the task has finished", node=target.node, file=fl.file, path=fl.fmt(wit),
                  instance=f"{q}: a running task is awaited on every path")
        wit = cfg.path(cfg.entry, sites, avoid=cancels, edge_ok=running) if sites else None
        run.check(bool(cancels) and wit is None, "C10.STOP", q, "task.cancel() before await task",
                  "the task is awaited without having been cancelled first (stop() would hang until "
                  "the task ends by itself)", node=target.node, file=fl.file, path=fl.fmt(wit),
                  instance=f"{q}: cancel() precedes the await")
        for nid in good:
            n = cfg.nodes[nid]
            swallowed_by_with = _suppressed_classes(fl.fn.node, n.ast) - {"CancelledError"}
            for kind, word in (("E", "an Exception"), ("B", "a non-Exception BaseException")):
                tg = [m for m, lab in cfg.succ[nid] if lab == f"exc:{kind}"]
                reach = cfg.reachable(tg)
                wit = cfg.path(tg[0], [cfg.exit]) if tg and cfg.exit in reach else None
                run.check(bool(tg) and cfg.exit not in reach and cfg.raise_exit in reach
                          and not swallowed_by_with, "C10.STOP", q,
                          f"{word} of the stopped task", f"{word} raised by the task while it is being "
                          "stopped is swallowed (only its CancelledError may be): stop() would not "
                          "surface the error", node=n.ast, file=fl.file, path=fl.fmt(wit),
                          instance=f"{q}: {word} of the awaited task propagates")
            tg = [m for m, lab in cfg.succ[nid] if lab == "exc:C"]
            reach = cfg.reachable(tg)
            suppressed = cfg.exit in reach or "CancelledError" in _suppressed_classes(fl.fn.node, n.ast)
            run.check(suppressed, "C10.STOP", q, "CancelledError of the stopped task",
                      "the cancellation this helper itself requested is not suppressed: every stop() "
                      "built on it would raise CancelledError", node=n.ast, file=fl.file,
                      instance=f"{q}: the requested cancellation is suppressed")


def _suppressed_classes(fn: ast.AST, stmt: ast.AST | None) -> set[str]:
    """Exception class names named by `with contextlib.suppress(...)` blocks around `stmt`."""
    out: set[str] = set()
    for w in ast.walk(fn):
        if isinstance(w, (ast.With, ast.AsyncWith)) and any(x is stmt for b in w.body for x in ast.walk(b)):
            for item in w.items:
                c = item.context_expr
                if isinstance(c, ast.Call) and (dotted(c.func) or "").split(".")[-1] == "suppress":
                    out |= {(dotted(a) or u(a)).split(".")[-1] for a in c.args}
    return out


# ---------------------------------------------------------------------------------------------
def check_subclasses(run: Run, prog: Program) -> None:
    """C10.SUPER: overrides keep the base discipline; every created task is registered."""
    bgs = prog.cls(BGS)
    subs = prog.subclasses(bgs)
    if len(subs) < 10:
        raise AnalysisError(f"C10.SUPER: only {len(subs)} BackgroundService subclasses found")
    for sub in subs:
        for name in ("stop", "cancel", "wait"):
            if name not in sub.methods:
                continue
            fl = _flow(run, prog, sub.methods[name])
            m, cfg = fl.fn, fl.cfg
            run.analysed(fl.qual)
            sup = fl.calls(lambda c, n=name: is_super_call(c, n))
            sup_nodes = [i for i, c in sup if not m.is_async or fl.awaited(i, c)]
            wit = cfg.path(cfg.entry, [cfg.exit], avoid=sup_nodes)
            run.check(bool(sup_nodes) and wit is None, "C10.SUPER", fl.qual, f"super().{name}()",
                      f"override of {name}() has a normal path that skips the base implementation "
                      "(tasks of the service are not cancelled/awaited)", node=m.node, file=m.file,
                      path=fl.fmt(wit))
        if "start" in sub.methods:
            fl = _flow(run, prog, sub.methods["start"])
            run.analysed(fl.qual)
            for nid, call in fl.calls(lambda c: callee_tail(c) == "create_task"):
                # the created task must flow into self._tasks
                ok_reg, wit = registered(fl, nid, call, TASKS)
                run.check(ok_reg, "C10.SUPER", fl.qual, call,
                          "a task created in start() is not added to self._tasks, so stop()/wait() "
                          "neither cancel nor await it", node=call, file=fl.file, path=fl.fmt(wit))
        # nobody rebinds or clears the task set outside the base class (except Actor.start's reset)
        for m in sub.methods.values():
            for node in body_walk(m.node):
                bad = False
                if isinstance(node, (ast.Assign, ast.AugAssign, ast.AnnAssign)) and any(
                        u(w) == TASKS for w in writes_of(node)):
                    bad = True
                if isinstance(node, ast.Call) and isinstance(node.func, ast.Attribute) \
                        and u(node.func.value) == TASKS and node.func.attr in (
                            "clear", "pop", "remove", "discard"):
                    bad = not (m.qual == f"{ACTOR}.start" and node.func.attr == "clear")
                    if not bad:
                        # Actor.start clears only after the is_running guard (all tasks done)
                        run.ok("C10.SUPER", f"{m.qual}: self._tasks.clear() only behind the "
                               "is_running guard")
                if bad:
                    run.violation("C10.SUPER", m.qual, node,
                                  "a subclass drops tasks from self._tasks: stop()/wait() would "
                                  "no longer cancel/await them", node=node, file=m.file)
    # components a service starts itself (`self.<member>.start()`) are stopped by its stop(),
    # on every normal path: their tasks are spawned on the service's behalf
    for sub in subs:
        owned: dict[str, tuple[str, ast.Call]] = {}
        for m in sub.methods.values():
            for c in find_calls(m.node, lambda c: isinstance(c.func, ast.Attribute)
                                and c.func.attr == "start" and u(c.func.value).startswith("self.")):
                owned.setdefault(u(c.func.value), (m.qual, c))  # type: ignore[attr-defined]
        if not owned:
            continue
        stop_m = prog.resolve_method(sub, "stop")
        if stop_m is None:
            raise AnalysisError(f"C10.SUPER: {sub.qual} has no stop()")
        fl = _flow(run, prog, stop_m)
        cfg = fl.cfg
        for member, (where, _start_call) in sorted(owned.items()):
            stops = [i for i, c in fl.calls(
                lambda c: isinstance(c.func, ast.Attribute) and c.func.attr == "stop")
                if fl.text(i, c.func.value) == member  # type: ignore[attr-defined]
                and (not stop_m.is_async or fl.awaited(i, c))]
            wit = cfg.path(cfg.entry, [cfg.exit], avoid=stops)
            run.check(bool(stops) and wit is None, "C10.SUPER", fl.qual, f"{member}.stop()",
                      f"`{member}` is started by {where} but {fl.qual} has a normal path that does "
                      "not stop it: the tasks it spawned keep running after stop() returned",
                      node=fl.fn.node, file=fl.file, path=fl.fmt(wit),
                      instance=f"{sub.qual}: {member} started => stopped by stop()")
    # Actor.start: the clear() is dominated by the is_running guard as well
    fl = _flow(run, prog, prog.func(f"{ACTOR}.start"))
    cfg = fl.cfg
    clears = nodes_with_call(cfg, lambda c: method_call(c, TASKS, "clear"))
    for c in clears:
        wit = _not_running_guard(fl, [c])
        run.check(wit is None, "C10.SUPER", fl.qual, cfg.nodes[c].ast,
                  "self._tasks.clear() reachable without the is_running guard: running tasks "
                  "would be forgotten", node=cfg.nodes[c].ast, file=fl.file, path=fl.fmt(wit))


# ---------------------------------------------------------------------------------------------
_REMOVERS = {"clear", "pop", "remove", "discard", "difference_update", "intersection_update",
             "symmetric_difference_update", "__isub__", "__iand__", "__ixor__"}


def _task_set_names(fn_node: ast.AST) -> set[str]:
    """Spellings of the service's task set inside one method: `self._tasks`, the `tasks` property that returns it,
    and locals bound to either (also inside closures / lambdas of the method)."""
    names = {TASKS, "self.tasks"}
    changed = True
    while changed:
        changed = False
        for n in ast.walk(fn_node):
            tgt = val = None
            if isinstance(n, ast.Assign) and len(n.targets) == 1:
                tgt, val = n.targets[0], n.value
            elif isinstance(n, (ast.AnnAssign, ast.NamedExpr)):
                tgt, val = n.target, n.value
            if isinstance(tgt, ast.Name) and val is not None and tgt.id not in names \
                    and u(strip_wrappers(val)) in names and not isinstance(strip_wrappers(val), ast.Call):
                names.add(tgt.id)
                changed = True
    return names


def check_ledger(run: Run, prog: Program) -> None:
    """C10.LEDGER: `_tasks` is the ledger wait() reads the outcomes from -- nothing but wait() takes a task out of it.

    wait() (hence stop(), __aexit__, `await service`) surfaces the error of a task when it removes the task from
    `self._tasks`, after `task.result()`.  A task that leaves the set any other way takes its outcome with it: a later
    stop() finds the set empty and returns, a later wait() skips its loop -- "after completion" is one of the instants
    of the quantifier.  The direct forms in subclass methods (`self._tasks.discard(t)`, re-binding) are C10.SUPER; this
    clause closes the indirect ones, in *every* method of BackgroundService and of its subclasses:
      * a bound remover of the task set that is not called on the spot but handed over
        (`task.add_done_callback(self._tasks.discard)`, `loop.call_soon(self._tasks.clear)`, `functools.partial(...)`);
      * a remover called from a closure / lambda of a subclass method (`lambda t: self._tasks.discard(t)`), which the
        statement-level rule does not enter;
      * either of them through an alias of the set (`tasks = self._tasks`, the `tasks` property)."""
    bgs = prog.cls(BGS)
    n_methods = 0
    bad = 0
    for c in [bgs] + prog.subclasses(bgs):
        for m in c.methods.values():
            n_methods += 1
            names = _task_set_names(m.node)
            callees = {id(x.func) for x in ast.walk(m.node) if isinstance(x, ast.Call)}
            top_level = {id(x) for x in body_walk(m.node)}
            for x in ast.walk(m.node):
                if isinstance(x, ast.Attribute) and x.attr in _REMOVERS and u(x.value) in names \
                        and id(x) not in callees:
                    bad += 1
                    run.violation(
                        "C10.LEDGER", m.qual, x,
                        f"`{u(x)}` -- a remover of the service's task set -- is handed over instead of being called "
                        "(a done-callback, call_soon, partial, ...): tasks then leave `_tasks` when they finish, not "
                        "when wait() has read their result.  `_tasks` is not only the reference that keeps the tasks "
                        "alive, it is the ledger from which wait() (and so stop(), __aexit__, `await service`) collects "
                        "the outcomes: a task -- the actor's run loop -- that ends while nobody is suspended in wait() "
                        "takes its error with it; a later stop() finds the set empty and returns, a later wait() skips "
                        "its loop, and the error the actor died of (restart limit reached, a BaseException) is never "
                        "surfaced.  Only wait() may take tasks out of the set, and only those whose result it has read "
                        "(the same holds for `lambda t: self._tasks.discard(t)`, for remove/pop/clear/"
                        "difference_update, for an alias of the set and for the `tasks` property)",
                        node=x, file=m.file)
                elif isinstance(x, ast.Call) and isinstance(x.func, ast.Attribute) and x.func.attr in _REMOVERS \
                        and u(x.func.value) in names and c is not bgs \
                        and not (id(x) in top_level and u(x.func.value) == TASKS):  # (that one: C10.SUPER)
                    bad += 1
                    where = "a closure / lambda of the method" if id(x) not in top_level else "an alias of the set"
                    run.violation(
                        "C10.LEDGER", m.qual, x,
                        f"`{u(x)[:80]}` ({where}) takes tasks out of the service's task set outside wait(): whenever it "
                        "runs -- typically as a done-callback, when the task finishes -- the task leaves the ledger "
                        "together with its outcome; a stop()/wait()/__aexit__ that comes after the task has ended "
                        "finds nothing to report and the task's non-cancellation error is never surfaced.  Only "
                        "wait() may remove tasks, after it has read their result", node=x, file=m.file)
    if not bad:
        run.ok("C10.LEDGER", f"{BGS} and its {len(prog.subclasses(bgs))} subclasses: no remover of the task set is handed "
               "over as a callback or called from a closure / through an alias", f"{n_methods} method(s) read")


# ---------------------------------------------------------------------------------------------
def _wait_task_of(elt: ast.AST, var: str) -> bool:
    """`create_task(<var>.wait(), ...)`: exactly one task that awaits the actor."""
    return (isinstance(elt, ast.Call) and callee_tail(elt) == "create_task" and bool(elt.args)
            and isinstance(elt.args[0], ast.Call) and method_call(elt.args[0], var, "wait")
            and not elt.args[0].args and not elt.args[0].keywords)


def check_run_utils(run: Run, prog: Program) -> None:
    fl = _flow(run, prog, prog.func("actor._run_utils:run"))
    fn, cfg, q = fl.fn, fl.cfg, fl.qual
    run.analysed(q)
    param = fn.node.args.vararg.arg if fn.node.args.vararg else None
    if not param:
        raise AnalysisError(f"{q}: *actors parameter not found")
    # one wait task per actor, no filter, kept in a set/list (a keyed container could merge actors)
    ok = False
    pend = None
    for n in cfg.nodes:
        s = n.ast
        if n.kind != "stmt" or not isinstance(s, (ast.Assign, ast.AnnAssign)) or s.value is None:
            continue
        tgt = s.targets[0] if isinstance(s, ast.Assign) and len(s.targets) == 1 else getattr(s, "target", None)
        if not isinstance(tgt, ast.Name):
            continue
        comp = fl.expand(n.id, s.value)
        if isinstance(comp, ast.Call) and isinstance(comp.func, ast.Name) and comp.func.id in (
                "set", "list") and len(comp.args) == 1 and not comp.keywords \
                and isinstance(comp.args[0], (ast.GeneratorExp, ast.ListComp, ast.SetComp)):
            comp = comp.args[0]
            if isinstance(comp, ast.SetComp):
                continue
        elif isinstance(comp, ast.GeneratorExp):
            continue
        if isinstance(comp, (ast.SetComp, ast.ListComp, ast.GeneratorExp)) and len(comp.generators) == 1:
            gen = comp.generators[0]
            if u(strip_wrappers(gen.iter)) == param and not gen.ifs and not gen.is_async \
                    and isinstance(gen.target, ast.Name) and _wait_task_of(comp.elt, gen.target.id):
                ok = True
                pend = tgt.id
    if not ok:
        # explicit loop: pending = set(); for a in actors: pending.add(create_task(a.wait()))
        for h in cfg.nodes:
            if h.kind != "for" or not isinstance(h.ast, ast.For) or not isinstance(h.ast.target, ast.Name) \
                    or u(strip_wrappers(fl.expand(h.id, h.ast.iter))) != param:
                continue
            var = h.ast.target.id
            adds = [(i, c) for i, c in fl.calls(
                lambda c: isinstance(c.func, ast.Attribute) and c.func.attr in ("add", "append")
                and isinstance(c.func.value, ast.Name) and len(c.args) == 1 and not c.keywords)
                if _wait_task_of(fl.expand(i, c.args[0]), var)]
            first = [m for m, lab in cfg.succ[h.id] if lab == "iter"]
            names = {c.func.value.id for _, c in adds}  # type: ignore[attr-defined]
            add_nodes = [i for i, _ in adds]
            if len(names) == 1 and first and (first[0] in add_nodes or cfg.path(
                    first[0], [h.id, cfg.exit], avoid=add_nodes, edge_ok=normal_edge) is None) \
                    and cfg.path(cfg.entry, [cfg.exit], avoid=[h.id], edge_ok=normal_edge) is None:
                name = names.pop()
                inits = [x for x in cfg.reachable([cfg.entry], avoid=[h.id], edge_ok=normal_edge)
                         if any(u(w) == name for w in node_writes(cfg, x))]
                empty = all(u(getattr(cfg.nodes[x].ast, "value", None)) in ("set()", "[]", "list()")
                            for x in inits)
                if inits and empty:
                    ok = True
                    pend = name
    run.check(ok, "C10.RUN", q, "one wait() task per actor",
              "run() does not create a waiting task for every actor passed in", node=fn.node,
              file=fn.file)
    if not ok or pend is None:
        return
    fl.pin(pend)
    # the wait loop: left only when the pending set is empty
    aws = [(i, c) for i, c in fl.calls(lambda c: dotted(c.func) == "asyncio.wait") if fl.awaited(i, c)]
    aw_nodes = [i for i, _ in aws]
    changers = [n.id for n in cfg.nodes if n.ast is not None and (
        any(u(w) == pend for w in node_writes(cfg, n.id)) or any(
            isinstance(c.func, ast.Attribute) and u(c.func.value) == pend for c in own_calls(n)))]
    e_pending = fl.consistent(nonempty(pend, True), normal=True)
    wit = None
    for c in changers:
        wit = wit or cfg.path(c, [cfg.exit], edge_ok=e_pending, include_src=False)
    loops = [n for n in cfg.nodes if n.kind == "while" and any(a in cfg.reachable(
        [m for m, lab in cfg.succ[n.id] if lab == "true"], avoid=[n.id]) for a in aw_nodes)]
    run.check(len(loops) == 1 and bool(changers) and wit is None, "C10.RUN", q, f"while {pend}",
              "run() does not loop until no waiting task is pending", node=fn.node, file=fn.file,
              path=fl.fmt(wit))
    if len(loops) != 1 or wit is not None:
        return
    h = loops[0]
    body = cfg.reachable([m for m, lab in cfg.succ[h.id] if lab == "true"], avoid=[h.id])
    leaving = [(a, lab) for a in body for m, lab in cfg.succ[a]
               if m not in body and m != h.id and not lab.startswith("exc:")]
    run.check(not leaving, "C10.RUN", q, "no early exit from the wait loop",
              "run() can leave its wait loop (break/return) while actors are still running",
              node=fn.node, file=fn.file,
              path=[f"{fn.file}:{cfg.nodes[a].lineno} {cfg.nodes[a].text()}" for a, _ in leaving])
    # pending is re-assigned from asyncio.wait(pending, ...)[1] and nowhere else in the loop
    writes = [x for x in body if cfg.nodes[x].ast is not None and any(
        u(w) == pend for w in node_writes(cfg, x))]
    mutated = [x for x in body if any(isinstance(c.func, ast.Attribute) and u(c.func.value) == pend
                                      for c in own_calls(cfg.nodes[x]))]
    ok = len(writes) == 1 and not mutated
    if ok:
        x = writes[0]
        calls = [c for i, c in aws if i == x]
        ok = (len(calls) == 1 and _second_of_pair(fl, x, calls[0], 1) == pend
              and len(calls[0].args) <= 1
              and u(strip_wrappers(fl.expand(x, positional(calls[0], ["fs"]).get("fs", ast.Constant(None))))) == pend)
    run.check(ok, "C10.RUN", q, f"_, {pend} = await asyncio.wait({pend}, ...)",
              "the pending set is not exactly what asyncio.wait reports as still pending",
              node=fn.node, file=fn.file)
    # a finished waiter task is only asked for exception()/result() once it is known not to be
    # cancelled: otherwise CancelledError escapes run() while other actors are still running
    done_name = _second_of_pair(fl, writes[0], calls[0], 0) if ok else None
    probes = fl.calls(lambda c: isinstance(c.func, ast.Attribute)
                      and c.func.attr in ("exception", "result") and not c.args and not c.keywords)
    wit = None
    unguarded = [c for _, c in probes]
    if done_name:
        fl.pin(done_name)
        for f in [n for n in cfg.nodes if n.kind == "for" and isinstance(n.ast, ast.For)
                  and u(strip_wrappers(fl.expand(n.id, n.ast.iter))) == done_name]:
            tv = u(f.ast.target)  # type: ignore[union-attr]
            mine = [(i, c) for i, c in probes if u(c.func.value) == tv  # type: ignore[attr-defined]
                    and i in cfg.reachable([m for m, lab in cfg.succ[f.id] if lab == "iter"], avoid=[f.id])]
            unguarded = [c for c in unguarded if not any(c is c2 for _, c2 in mine)]
            # fail closed: a helper that is handed the task and could not be read in line
            for i, c in fl.calls(lambda c: any(u(a) == tv for a in c.args)):
                target = _resolve_helper(prog, fl, c.func)
                if target is not None and any(
                        isinstance(x, ast.Attribute) and x.attr in ("exception", "result")
                        for x in ast.walk(target.node)):
                    raise AnalysisError(
                        f"{q}: {u(c.func)}() inspects finished tasks but could not be read in line")
            e_cancelled = fl.consistent(truthy(f"{tv}.cancelled()", True), normal=True)
            for m, lab in cfg.succ[f.id]:
                if lab == "iter" and wit is None and mine:
                    wit = cfg.path(m, [i for i, _ in mine], avoid=[f.id], edge_ok=e_cancelled)
    run.check(wit is None and not unguarded, "C10.RUN", q,
              "task.cancelled() checked before task.exception()/result()",
              "run() can ask a cancelled waiter task for its exception()/result(): CancelledError "
              "would escape run() although other actors are still running", node=fn.node,
              file=fn.file, path=fl.fmt(wit),
              instance=f"{q}: finished tasks are inspected only when not cancelled")
    # actors that are not running get started
    fors = [n for n in cfg.nodes if n.kind == "for" and isinstance(n.ast, ast.For)
            and u(strip_wrappers(fl.expand(n.id, n.ast.iter))) == param]
    ok = False
    wit = None
    for f in fors:
        tv = u(f.ast.target)  # type: ignore[union-attr]
        starts = nodes_with_call(cfg, lambda c: method_call(c, tv, "start"))
        first = [m for m, lab in cfg.succ[f.id] if lab == "iter"]
        if not starts or not first or loop_leaks(f.ast):
            continue
        # an actor that is not running: every way through the body passes its start()
        e_stopped = fl.consistent(truthy(f"{tv}.is_running", False), normal=True)
        wit = None if first[0] in starts else cfg.path(
            first[0], [f.id, cfg.exit], avoid=starts, edge_ok=e_stopped)
        reached = cfg.path(cfg.entry, [cfg.exit], avoid=[f.id], edge_ok=normal_edge) is None
        before_wait = cfg.path(cfg.entry, aw_nodes, avoid=[f.id], edge_ok=normal_edge) is None
        if wit is None and reached and before_wait:
            ok = True
            break
    run.check(ok, "C10.RUN", q, "start every actor that is not running",
              "run() can skip starting an actor that is not running", node=fn.node, file=fn.file,
              path=fl.fmt(wit))


# ---------------------------------------------------------------------------------------------
CONTROLS = [
    ("continue in the cancel handler", "actor._actor",
     "                _logger.info(\"Actor %s: Cancelled.\", self)\n                raise\n",
     "                _logger.info(\"Actor %s: Cancelled.\", self)\n                continue\n",
     "C10.CANCEL"),
    ("break moved inside try", "actor._actor",
     "                _logger.info(\"Actor %s: _run() returned without error.\", self)\n",
     "                self._on_return()\n", "C10.RET"),
    ("restart guard off by one", "actor._actor",
     "n_restarts < self._restart_limit", "n_restarts <= self._restart_limit", "C10.RESTART"),
    ("is_running guard dropped", "actor._actor",
     "        if self.is_running:\n            return\n", "", "C10.SINGLE"),
    ("except Exception in wait()", "actor._background_service",
     "except BaseException as error:", "except Exception as error:", "C10.STOP"),
    ("super().stop() skipped", "microgrid._power_distributing.power_distributing",
     "        await super().stop(msg)\n", "        pass\n", "C10.SUPER"),
    ("cancelled() test inverted in run()", "actor._run_utils",
     "            if task.cancelled():\n", "            if not task.cancelled():\n", "C10.RUN"),
    ("owned component manager not stopped", "microgrid._power_distributing.power_distributing",
     "        await self._component_manager.stop()\n", "", "C10.SUPER"),
    ("restart delay swallows a cancellation", "actor._actor",
     "            await asyncio.sleep(delay)\n",
     "            try:\n                await asyncio.sleep(delay)\n            except BaseException:\n"
     "                _logger.info(\"interrupted\")\n", "C10.CANCEL"),
    ("restart delay under suppress(CancelledError)", "actor._actor",
     "            await asyncio.sleep(delay)\n",
     "            with contextlib.suppress(asyncio.CancelledError):\n                await asyncio.sleep(delay)\n",
     "C10.CANCEL"),
    ("cancel_and_await swallows every error", "_internal._asyncio",
     "    except asyncio.CancelledError:\n        pass\n",
     "    except BaseException:  # pylint: disable=broad-except\n        pass\n", "C10.STOP"),
    ("cancel_and_await without cancel()", "_internal._asyncio",
     "    task.cancel()\n    try:\n        await task\n", "    try:\n        await task\n", "C10.STOP"),
    ("run-loop task forgets itself when done (lambda done-callback)", "actor._actor",
     "        self._tasks.add(asyncio.create_task(self._run_loop()))\n",
     "        loop_task = asyncio.create_task(self._run_loop())\n        self._tasks.add(loop_task)\n"
     "        loop_task.add_done_callback(lambda t: self._tasks.remove(t))\n", "C10.LEDGER"),
    ("bound remover of the task set handed to call_soon in cancel()", "actor._background_service",
     "            task.cancel(msg)\n",
     "            task.cancel(msg)\n        asyncio.get_running_loop().call_soon(self.tasks.clear)\n", "C10.LEDGER"),
    ("restart delay read from the named base class", "actor._actor",
     "delay = self.RESTART_DELAY.total_seconds()", "delay = Actor.RESTART_DELAY.total_seconds()", "C10.RESTART"),
]


def run_rules(run: Run, prog: Program) -> None:
    check_run_loop(run, prog)
    check_single(run, prog)
    check_cancel_points(run, prog)
    check_stop(run, prog)
    check_cancel_and_await(run, prog)
    check_subclasses(run, prog)
    check_ledger(run, prog)
    check_run_utils(run, prog)


def check(run: Run, prog: Program, tier: str) -> str:
    run.rule("C10.RET", "after a normal return of _run() no path re-invokes it; the loop exits")
    run.rule("C10.CANCEL", "a cancellation of _run() -- or at any other suspension point of the supervised run loop: "
             "the restart delay, split-off pieces, awaited private helpers -- always propagates as such and never "
             "leads to another _run()")
    run.rule("C10.BASE", "a non-Exception BaseException of _run() always propagates, never restarts")
    run.rule("C10.RESTART", "an Exception restarts iff `limit is None or n < limit`, with exactly one "
             "increment and the restart delay before the next _run(); otherwise it propagates")
    run.rule("C10.SINGLE", "_run is only awaited in _run_loop; _run_loop only spawned by start() "
             "behind the is_running guard and registered in self._tasks")
    run.rule("C10.STOP", "cancel() cancels all tasks; stop() cancels then waits and re-raises only "
             "non-cancellation errors; wait() loops until no task is left, collecting every error")
    run.rule("C10.SUPER", "BackgroundService subclasses call the base stop/cancel/wait and register "
             "every task they create in self._tasks")
    run.rule("C10.LEDGER", "`_tasks` is the ledger wait() reads task outcomes from: no remover of the set is handed over "
             "as a callback (done-callback that discards the finished task), called from a closure or through an alias "
             "-- only wait() removes tasks, after reading their result")
    run.rule("C10.RUN", "run() starts stopped actors, awaits one task per actor, loops until none pending")
    run_rules(run, prog)
    run.floor("C10.RESTART", 8)
    run.floor("C10.STOP", 8)
    run.floor("C10.SUPER", 8)
    run.floor("C10.SINGLE", 6)
    from ..engine.controls import run_controls

    run_controls(run, CONTROLS, run_rules, tier)
    run.assume("logging calls do not raise; context managers do not swallow exceptions")
    run.assume("asyncio semantics: CancelledError is a BaseException and surfaces only at await "
               "points and Task.result()/exception()")
    run.assume("outcomes a piece of the run loop returns to the loop: literal constants and distinct upper-case "
               "members of one class (enum members) are distinct, non-None values; a caught exception is not None "
               "and truthy")
    run.undecided("real timing of the restart delay; fairness of the event loop")
    run.sample({"cfg": "Actor._run_loop", "nodes": len(Flow(prog, prog.func(f'{ACTOR}._run_loop')).cfg.nodes)})
    return ("Path rules over the exception-aware CFGs of Actor._run_loop/start, BackgroundService."
            "cancel/stop/wait/__aexit__, run() and every BackgroundService subclass override: "
            "decides the restart policy (which exception kinds loop back, guard, counter, delay), "
            "single-run discipline (who may call _run/_run_loop), and stop/wait completeness. "
            "It does not decide timing.")
