"""C10  Actors restart after failures, only after failures, and stop cleanly.

Path rules (E-P) on Actor._run_loop / Actor.start / BackgroundService.{cancel,stop,wait} / run(),
plus who-may-call and override discipline over every BackgroundService subclass.
"""
from __future__ import annotations

import ast

from ..engine.cfg import CFG, own_parts
from ..engine.report import AnalysisError, Run
from ..engine.resolver import FuncInfo, Program, body_walk, dotted, walk_no_nested
from ..engine.util import (
    canon, canon_total, find_calls, has_call, is_super_call, method_call, nodes_where,
    node_has_call, node_writes, nodes_with_call, normal_edge, some, u, writes_of,
)

ACTOR = "actor._actor:Actor"
BGS = "actor._background_service:BackgroundService"


def _cfg(fn: FuncInfo) -> CFG:
    return CFG(fn.node, fn.file)


def _fmt(cfg: CFG, path: list[tuple[int, str]] | None) -> list[str]:
    return cfg.describe_path(path)


# ---------------------------------------------------------------------------------------------
def check_run_loop(run: Run, prog: Program) -> None:
    fn = prog.func(f"{ACTOR}._run_loop")
    run.analysed(fn.qual)
    cfg = _cfg(fn)
    q = fn.qual
    is_run = lambda c: method_call(c, "self", "_run")  # noqa: E731
    run_nodes = some(nodes_with_call(cfg, is_run), "call of self._run() in Actor._run_loop")
    for r in run_nodes:
        n = cfg.nodes[r]
        awaited = any(
            isinstance(x, ast.Await) and isinstance(x.value, ast.Call) and is_run(x.value)
            for part in own_parts(n) for x in walk_no_nested(part)
        )
        run.check(awaited, "C10.SINGLE", q, n.ast,
                  "self._run() must be awaited in place (never spawned as a task), so two runs "
                  "cannot overlap", node=n.ast, file=fn.file)

    for r in run_nodes:
        rn = cfg.nodes[r]
        # ---- C10.RET: after normal completion no path leads back to _run()
        normal_succ = [m for m, lab in cfg.succ[r] if not lab.startswith("exc:")]
        bad = cfg.path(r, run_nodes, edge_ok=None, include_src=False,
                       avoid=()) if False else None
        reach = cfg.reachable(normal_succ)
        again = [x for x in run_nodes if x in reach]
        if again:
            # witness: shortest path from a normal successor
            wit = None
            for s0 in normal_succ:
                wit = cfg.path(s0, again)
                if wit:
                    break
            run.violation("C10.RET", q, rn.ast,
                          "after `await self._run()` returns normally a path leads back to another "
                          "invocation of _run() (restart after normal return)",
                          node=rn.ast, file=fn.file, path=_fmt(cfg, wit))
        else:
            run.ok("C10.RET", f"{q}: normal return of _run() never reaches _run() again",
                   "normal successors reach only function exit")
        run.check(cfg.exit in reach, "C10.RET", q, "function exit after normal return",
                  "after a normal return of _run() the loop must terminate (function exit "
                  "unreachable)", node=rn.ast, file=fn.file)

        # ---- C10.CANCEL / BASE: cancellation and BaseException never restart, always propagate
        for kind, rule, word in (("C", "C10.CANCEL", "cancellation"),
                                 ("B", "C10.BASE", "a non-Exception BaseException")):
            targets = [m for m, lab in cfg.succ[r] if lab == f"exc:{kind}"]
            if not targets:
                raise AnalysisError(f"{q}: no exc:{kind} edge out of the _run() await")
            reach = cfg.reachable(targets)
            back = [x for x in run_nodes if x in reach]
            wit = cfg.path(targets[0], back) if back else None
            run.check(not back, rule, q, rn.ast,
                      f"{word} of _run() can lead to another invocation of _run()",
                      node=rn.ast, file=fn.file, path=_fmt(cfg, wit),
                      instance=f"{q}: {word} never re-invokes _run()")
            wit = cfg.path(targets[0], [cfg.exit]) if cfg.exit in reach else None
            run.check(cfg.exit not in reach, rule, q, f"{word} handler reaches normal exit",
                      f"{word} of _run() is swallowed: a path reaches the normal function exit "
                      "instead of re-raising", node=rn.ast, file=fn.file, path=_fmt(cfg, wit),
                      instance=f"{q}: {word} always propagates (never swallowed)")
            # the propagating edge must carry the same kind
            ends = [(a, lab) for a, lab in cfg.pred[cfg.raise_exit] if a in reach or a in targets]
            if cfg.raise_exit in reach:
                run.check(any(lab == f"exc:{kind}" for _, lab in ends), rule, q,
                          f"{word} re-raise", f"{word} is not re-raised as such", node=rn.ast,
                          file=fn.file, instance=f"{q}: {word} re-raised as the same kind")

        # ---- C10.RESTART
        e_targets = [m for m, lab in cfg.succ[r] if lab == "exc:E"]
        if not e_targets:
            raise AnalysisError(f"{q}: no exc:E edge out of the _run() await")
        handler_side = cfg.reachable(e_targets, avoid=run_nodes)
        # the guard: a test mentioning the restart limit
        guards = [t for t in handler_side
                  if cfg.nodes[t].kind in ("test", "while")
                  and "_restart_limit" in cfg.nodes[t].label]
        if len(guards) != 1:
            run.violation("C10.RESTART", q, "restart guard",
                          f"expected exactly one test of self._restart_limit on the Exception "
                          f"path, found {len(guards)}: restart is not (only) governed by the limit",
                          node=rn.ast, file=fn.file)
            continue
        gnode = cfg.nodes[guards[0]]
        assert gnode.ast is not None
        # counter: the operand compared with the limit
        cands = set()
        for x in ast.walk(gnode.ast):
            if isinstance(x, ast.Compare) and len(x.ops) == 1 and isinstance(
                    x.ops[0], (ast.Lt, ast.LtE, ast.Gt, ast.GtE)):
                sides = {u(x.left), u(x.comparators[0])}
                if "self._restart_limit" in sides:
                    cands |= sides - {"self._restart_limit"}
        if len(cands) != 1:
            raise AnalysisError(f"{q}: cannot identify the restart counter in `{gnode.label}`")
        ctr = cands.pop()
        want = ("or", frozenset({("is", frozenset({"self._restart_limit", "None"})),
                                 ("<", ctr, "self._restart_limit")}))
        got = canon_total(gnode.ast)
        allow_label, deny_label = "true", "false"
        if got != want:
            neg = canon_total(gnode.ast, neg=True)
            if neg == want:
                allow_label, deny_label = "false", "true"
            else:
                run.violation("C10.RESTART", q, gnode.ast,
                              f"restart guard is not equivalent to `limit is None or {ctr} < limit` "
                              f"(canonical form {got})", node=gnode.ast, file=fn.file)
                continue
        run.ok("C10.RESTART", f"{q}: guard `{gnode.label}` == limit is None or {ctr} < limit")
        allow = [m for m, lab in cfg.succ[gnode.id] if lab == allow_label]
        deny = [m for m, lab in cfg.succ[gnode.id] if lab == deny_label]
        # (a) a restart happens only through the allow edge
        wit = None
        for t0 in e_targets:
            wit = cfg.path(t0, run_nodes,
                           edge_ok=lambda a, b, lab: not (a == gnode.id and lab == allow_label))
            if wit:
                break
        run.check(wit is None, "C10.RESTART", q, gnode.ast,
                  "a path from the Exception handler re-invokes _run() without passing the "
                  "restart-limit guard on its allowing side", node=gnode.ast, file=fn.file,
                  path=_fmt(cfg, wit), instance=f"{q}: restart only via allowing side of the guard")
        # (b) allowed => really restarts: no raise statement / exit before _run()
        allow_reach = cfg.reachable(allow, avoid=run_nodes, edge_ok=normal_edge)
        stray = [x for x in allow_reach if x == cfg.exit
                 or isinstance(cfg.nodes[x].ast, ast.Raise)]
        wit = cfg.path(allow[0], stray, avoid=run_nodes, edge_ok=normal_edge) \
            if stray and allow else None
        reaches_run = bool(allow) and any(
            any(m in run_nodes for m, _ in cfg.succ[x]) for x in allow_reach)
        run.check(not stray and reaches_run, "C10.RESTART", q, gnode.ast,
                  "with restarts left, a failing _run() is not (always) re-invoked: the allowing "
                  "side of the guard can reach `raise`/exit or never reaches _run()",
                  node=gnode.ast, file=fn.file, path=_fmt(cfg, wit),
                  instance=f"{q}: allowed restart always re-invokes _run()")
        # (c) denied => raises
        deny_reach = cfg.reachable(deny)
        bad_targets = [x for x in deny_reach if x == cfg.exit or x in run_nodes]
        wit = cfg.path(deny[0], bad_targets) if bad_targets and deny else None
        run.check(bool(deny) and not bad_targets, "C10.RESTART", q, gnode.ast,
                  "with the restart limit reached the exception must propagate, but a path "
                  "reaches exit or _run()", node=gnode.ast, file=fn.file, path=_fmt(cfg, wit),
                  instance=f"{q}: limit reached => exception propagates")
        # (d) counter incremented exactly once (by 1) on every restart path
        incs = []
        for x in handler_side | set(allow_reach):
            a = cfg.nodes[x].ast
            if isinstance(a, (ast.AugAssign, ast.Assign, ast.AnnAssign)) and any(
                    u(w) == ctr for w in node_writes(cfg, x)):
                incs.append(x)
        by_one = all(_is_plus_one(cfg.nodes[x].ast, ctr) for x in incs)
        wit = None
        for t0 in e_targets:
            wit = cfg.path(t0, run_nodes, avoid=incs)
            if wit:
                break
        run.check(bool(incs) and wit is None and by_one, "C10.RESTART", q,
                  f"increment of {ctr}",
                  f"a restart path does not increment `{ctr}` by exactly 1 before re-invoking "
                  "_run() (restart limit would not be honoured)", node=gnode.ast, file=fn.file,
                  path=_fmt(cfg, wit), instance=f"{q}: every restart path increments {ctr} by 1")
        twice = None
        for x in incs:
            twice = cfg.path(x, incs, avoid=run_nodes, include_src=False, edge_ok=normal_edge)
            if twice:
                break
        run.check(twice is None, "C10.RESTART", q, f"second increment of {ctr}",
                  f"`{ctr}` can be incremented twice for one failure", node=gnode.ast,
                  file=fn.file, path=_fmt(cfg, twice),
                  instance=f"{q}: {ctr} incremented at most once per failure")
        # (e) the delay lies between the restart decision and the next _run()
        is_delay = lambda c: method_call(c, "self", "_delay_if_restart")  # noqa: E731
        delay_nodes = nodes_with_call(cfg, is_delay)
        wit = cfg.path(allow[0], run_nodes, avoid=delay_nodes, edge_ok=normal_edge) \
            if allow else None
        ok_arg = all(
            [u(a) for a in c.args] == [ctr]
            for d in delay_nodes for part in own_parts(cfg.nodes[d])
            for c in find_calls(part, is_delay))
        run.check(bool(delay_nodes) and wit is None and ok_arg, "C10.RESTART", q,
                  "restart delay",
                  f"a restart path reaches _run() without awaiting _delay_if_restart({ctr})",
                  node=gnode.ast, file=fn.file, path=_fmt(cfg, wit),
                  instance=f"{q}: every restart passes _delay_if_restart({ctr}) before _run()")
        # initial value of the counter is 0
        init = [cfg.nodes[x].ast for x in cfg.reachable([cfg.entry], avoid=run_nodes)
                if isinstance(cfg.nodes[x].ast, (ast.Assign, ast.AnnAssign))
                and any(u(w) == ctr for w in node_writes(cfg, x))]
        ok_init = bool(init) and all(
            isinstance(getattr(s, "value", None), ast.Constant) and s.value.value == 0  # type: ignore[union-attr]
            for s in init if not _is_plus_one(s, ctr))
        run.check(ok_init, "C10.RESTART", q, f"{ctr} initialisation",
                  f"`{ctr}` is not (re)set to 0 when the run loop starts — the restart budget and "
                  "the restart delay would carry over from an earlier start()", node=fn.node,
                  file=fn.file,
                  instance=f"{q}: {ctr} starts at 0")

    # ---- handler order: the first handler able to catch a cancellation must not be able to loop
    # (covered semantically by C10.CANCEL above through the exc:C edge)

    # ---- _delay_if_restart really delays for iteration > 0
    dfn = prog.func(f"{ACTOR}._delay_if_restart")
    run.analysed(dfn.qual)
    dcfg = _cfg(dfn)
    param = dfn.params[1] if len(dfn.params) > 1 else None
    sleeps = [x for x in nodes_with_call(dcfg, lambda c: dotted(c.func) == "asyncio.sleep")
              if dcfg.is_await(x)]
    ok = False
    detail = "no awaited asyncio.sleep found"
    if sleeps and param:
        ok = True
        for stest in [t for t in dcfg.nodes if t.kind == "test"]:
            assert stest.ast is not None
            c = canon_total(stest.ast)
            if param in stest.label:
                good = c in (("<", "0", param), ("<=", "1", param), ("!=", frozenset({param, "0"})),
                             ("truthy", param))
                t_succ = [m for m, lab in dcfg.succ[stest.id] if lab == "true"]
                reach_t = dcfg.reachable(t_succ)
                f_succ = [m for m, lab in dcfg.succ[stest.id] if lab == "false"]
                reach_f = dcfg.reachable(f_succ)
                if not (good and any(s in reach_t for s in sleeps)
                        and not any(s in reach_f for s in sleeps)):
                    ok = False
                    detail = f"delay guard `{stest.label}` is not `{param} > 0`"
        # the sleep argument derives from RESTART_DELAY
        src_ok = "RESTART_DELAY" in ast.unparse(dfn.node)
        if not src_ok:
            ok = False
            detail = "sleep duration does not derive from RESTART_DELAY"
    run.check(ok, "C10.RESTART", dfn.qual, "restart delay guard", detail, node=dfn.node,
              file=dfn.file, instance=f"{dfn.qual}: sleeps RESTART_DELAY iff iteration > 0")


def _is_plus_one(stmt: ast.AST | None, name: str) -> bool:
    if isinstance(stmt, ast.AugAssign):
        return (isinstance(stmt.op, ast.Add) and isinstance(stmt.value, ast.Constant)
                and stmt.value.value == 1 and u(stmt.target) == name)
    if isinstance(stmt, ast.Assign) and isinstance(stmt.value, ast.BinOp) \
            and isinstance(stmt.value.op, ast.Add):
        parts = {u(stmt.value.left), u(stmt.value.right)}
        return parts == {name, "1"} and u(stmt.targets[0]) == name
    return False


# ---------------------------------------------------------------------------------------------
def check_single(run: Run, prog: Program) -> None:
    """who-may-call: _run only awaited from _run_loop; _run_loop only spawned from start()."""
    actor = prog.cls(ACTOR)
    actor_family = {c.qual for c in [actor] + prog.subclasses(actor)}
    n_run = 0
    for fn in prog.all_functions():
        owner = fn.cls
        if owner is None or owner.qual not in actor_family:
            continue
        for call in (x for x in ast.walk(fn.node) if isinstance(x, ast.Call)):
            if method_call(call, "self", "_run"):
                n_run += 1
                run.check(fn.qual == f"{ACTOR}._run_loop", "C10.SINGLE", fn.qual, call,
                          "Actor._run() invoked outside Actor._run_loop (a second, unsupervised "
                          "run of the actor's logic)", node=call, file=fn.file)
            elif isinstance(call.func, ast.Attribute) and call.func.attr == "_run" \
                    and u(call.func.value) != "self" and not is_super_call(call, "_run"):
                pass
            # passing the bound method somewhere (run_forever(self._run), create_task(self._run()))
            for arg in list(call.args) + [k.value for k in call.keywords]:
                if u(arg) == "self._run":
                    n_run += 1
                    run.violation("C10.SINGLE", fn.qual, call,
                                  "Actor._run handed to another runner: it may run concurrently "
                                  "with the supervised run", node=call, file=fn.file)
            if method_call(call, "self", "_run_loop"):
                run.check(fn.qual == f"{ACTOR}.start", "C10.SINGLE", fn.qual, call,
                          "_run_loop spawned outside Actor.start", node=call, file=fn.file)
    if n_run < 1:
        raise AnalysisError("C10.SINGLE: no call of self._run() found in the Actor family")
    # Actor subclasses must not override start/_run_loop/_delay_if_restart/wait/cancel silently
    for sub in prog.subclasses(actor):
        for name in ("start", "_run_loop", "_delay_if_restart"):
            if name in sub.methods:
                m = sub.methods[name]
                calls_super = has_call(m.node, lambda c, n=name: is_super_call(c, n))
                run.check(calls_super and name == "start", "C10.SINGLE", m.qual, m.node.name,
                          f"Actor subclass overrides {name}() — the restart supervision of "
                          "Actor._run_loop is bypassed", node=m.node, file=m.file)
    # start(): guard and registration
    st = prog.func(f"{ACTOR}.start")
    run.analysed(st.qual)
    cfg = _cfg(st)
    spawn = some(nodes_with_call(cfg, lambda c: method_call(c, "self", "_run_loop")),
                 "spawn of _run_loop in Actor.start")
    for s in spawn:
        n = cfg.nodes[s]
        assert n.ast is not None
        txt = u(n.ast)
        registered = "self._tasks.add(" in txt and "create_task(" in txt
        run.check(registered, "C10.SINGLE", st.qual, n.ast,
                  "the _run_loop task is not registered in self._tasks (stop()/wait() would miss it)",
                  node=n.ast, file=st.file)
        # guard-dominance: every path entry -> spawn passes the is_running test on its false side
        guards = [t.id for t in cfg.nodes if t.kind == "test" and t.ast is not None
                  and canon(t.ast) in (("truthy", "self.is_running"),
                                       ("not", ("truthy", "self.is_running")))]
        wit = cfg.path(cfg.entry, [s], avoid=guards) if guards else cfg.path(cfg.entry, [s])
        ok = bool(guards) and wit is None
        if ok:
            for gid in guards:
                gn = cfg.nodes[gid]
                assert gn.ast is not None
                running_label = "true" if canon(gn.ast)[0] == "truthy" else "false"
                bad = cfg.path(gid, [s], edge_ok=lambda a, b, lab, g=gid, rl=running_label:
                               not (a == g and lab != rl), include_src=True)
                # path from the guard through its "running" side to the spawn must not exist
                tgt_running = [m for m, lab in cfg.succ[gid] if lab == running_label]
                if any(s in cfg.reachable([m]) for m in tgt_running):
                    ok = False
                    wit = cfg.path(tgt_running[0], [s])
        run.check(ok, "C10.SINGLE", st.qual, "is_running guard",
                  "start() can spawn a second _run_loop while the actor is running (guard "
                  "`if self.is_running: return` missing or bypassable)", node=n.ast, file=st.file,
                  path=_fmt(cfg, wit), instance=f"{st.qual}: spawn dominated by `not is_running`")
    # is_running: any(not task.done() for task in self._tasks)
    ir = prog.func(f"{BGS}.is_running")
    run.analysed(ir.qual)
    rets = [n for n in body_walk(ir.node) if isinstance(n, ast.Return) and n.value is not None]
    ok = False
    if len(rets) == 1:
        v = rets[0].value
        if isinstance(v, ast.Call) and u(v.func) == "any" and v.args \
                and isinstance(v.args[0], ast.GeneratorExp):
            ge = v.args[0]
            gen = ge.generators[0]
            ok = (len(ge.generators) == 1 and not gen.ifs and u(gen.iter) == "self._tasks"
                  and canon(ge.elt) == ("not", ("truthy", f"{u(gen.target)}.done()")))
    run.check(ok, "C10.SINGLE", ir.qual, rets[0] if rets else "return",
              "is_running is not `any(not task.done() for task in self._tasks)` — start() "
              "idempotence relies on it", node=ir.node, file=ir.file)


# ---------------------------------------------------------------------------------------------
def check_stop(run: Run, prog: Program) -> None:
    # cancel(): every task is cancelled
    cn = prog.func(f"{BGS}.cancel")
    run.analysed(cn.qual)
    cfg = _cfg(cn)
    loops = [n for n in cfg.nodes if n.kind == "for" and u(n.ast.iter) == "self._tasks"]  # type: ignore[union-attr]
    ok = False
    wit = None
    if len(loops) == 1:
        h = loops[0]
        cancels = nodes_with_call(cfg, lambda c: method_call(c, u(h.ast.target), "cancel"))  # type: ignore[union-attr]
        body_first = [m for m, lab in cfg.succ[h.id] if lab == "iter"]
        # every iteration passes a cancel node before returning to the header / leaving
        wit = cfg.path(body_first[0], [h.id, cfg.exit], avoid=cancels) if body_first else None
        if body_first and body_first[0] in cancels:
            wit = None
        ok = bool(cancels) and wit is None
        # the loop is reached on every path from entry
        if ok and cfg.path(cfg.entry, [cfg.exit], avoid=[h.id]) is not None:
            ok = False
            wit = cfg.path(cfg.entry, [cfg.exit], avoid=[h.id])
    run.check(ok, "C10.STOP", cn.qual, "for task in self._tasks: task.cancel(msg)",
              "cancel() does not cancel every task in self._tasks on every path",
              node=cn.node, file=cn.file, path=_fmt(cfg, wit))

    # stop(): cancel precedes wait; only the non-cancellation remainder is re-raised
    st = prog.func(f"{BGS}.stop")
    run.analysed(st.qual)
    cfg = _cfg(st)
    waits = [x for x in nodes_with_call(cfg, lambda c: method_call(c, "self", "wait"))
             if cfg.is_await(x)]
    cancels = nodes_with_call(cfg, lambda c: method_call(c, "self", "cancel"))
    ok = bool(waits) and bool(cancels)
    wit = None
    if ok:
        wit = cfg.path(cfg.entry, waits, avoid=cancels)
        ok = wit is None
    run.check(ok, "C10.STOP", st.qual, "self.cancel(msg) before await self.wait()",
              "stop() can wait for the tasks without having cancelled them first",
              node=st.node, file=st.file, path=_fmt(cfg, wit))
    # early exits before wait() only when there are no tasks
    if waits:
        wit = cfg.path(cfg.entry, [cfg.exit], avoid=waits)
        ok = True
        if wit is not None:
            # the path must go through a test `not self._tasks` on its true side
            ok = False
            for (nid, _lab), (nxt, lab2) in zip(wit, wit[1:]):
                n = cfg.nodes[nid]
                if n.kind == "test" and n.ast is not None:
                    c = canon(n.ast)
                    if (c == ("not", ("truthy", "self._tasks")) and lab2 == "true") or (
                            c == ("truthy", "self._tasks") and lab2 == "false"):
                        ok = True
        run.check(ok, "C10.STOP", st.qual, "return without waiting",
                  "stop() can return without awaiting wait() although tasks exist",
                  node=st.node, file=st.file, path=_fmt(cfg, wit),
                  instance=f"{st.qual}: returns early only when self._tasks is empty")
    # exception group filtering
    handlers = [n for n in cfg.nodes if n.kind == "handler"]
    grp = [h for h in handlers if "BaseExceptionGroup" in h.label]
    ok = False
    detail = "no `except BaseExceptionGroup` handler around await self.wait()"
    if len(grp) == 1 and waits:
        h = grp[0]
        assert isinstance(h.ast, ast.ExceptHandler)
        exc_name = h.ast.name
        hreach = cfg.reachable([h.id])
        splits = [x for x in hreach if cfg.nodes[x].kind == "stmt" and node_has_call(
            cfg, x, lambda c: method_call(c, exc_name, "split")
            and [u(a).split(".")[-1] for a in c.args] == ["CancelledError"])]
        detail = "the handler does not split off asyncio.CancelledError"
        if len(splits) == 1:
            sp = cfg.nodes[splits[0]].ast
            rest_name = None
            if isinstance(sp, ast.Assign) and isinstance(sp.targets[0], ast.Tuple) \
                    and len(sp.targets[0].elts) == 2:
                rest_name = u(sp.targets[0].elts[1])
            raises = [x for x in hreach if isinstance(cfg.nodes[x].ast, ast.Raise)]
            detail = "the non-cancellation remainder of the group is not re-raised"
            if rest_name and raises:
                good_raise = all(u(cfg.nodes[x].ast.exc) == rest_name for x in raises)  # type: ignore[union-attr]
                # raise is reached exactly when rest is not None
                tests = [x for x in hreach if cfg.nodes[x].kind == "test" and cfg.nodes[x].ast is not None
                         and canon(cfg.nodes[x].ast) in (
                             ("isnot", frozenset({rest_name, "None"})),
                             ("is", frozenset({rest_name, "None"})),
                             ("truthy", rest_name))]
                if good_raise and len(tests) == 1:
                    tn = cfg.nodes[tests[0]]
                    c = canon(tn.ast)  # type: ignore[arg-type]
                    some_label = "false" if c[0] == "is" else "true"
                    none_label = "true" if c[0] == "is" else "false"
                    some_side = cfg.reachable([m for m, lab in cfg.succ[tn.id] if lab == some_label])
                    none_side = cfg.reachable([m for m, lab in cfg.succ[tn.id] if lab == none_label])
                    ok = (cfg.exit not in some_side and any(r in some_side for r in raises)
                          and not any(r in none_side for r in raises) and cfg.exit in none_side)
                    detail = ("the remainder is not raised exactly when it is not None "
                              "(errors swallowed or cancellations surfaced)")
                elif not good_raise:
                    detail = "stop() re-raises something other than the non-cancellation remainder"
    run.check(ok, "C10.STOP", st.qual, "except BaseExceptionGroup: split(CancelledError); raise rest",
              detail, node=st.node, file=st.file)

    # wait()
    wt = prog.func(f"{BGS}.wait")
    run.analysed(wt.qual)
    cfg = _cfg(wt)
    loops = [n for n in cfg.nodes if n.kind == "while"]
    ok = len(loops) == 1 and canon(loops[0].ast.test) == ("truthy", "self._tasks")  # type: ignore[union-attr]
    run.check(ok, "C10.STOP", wt.qual, "while self._tasks",
              "wait() does not loop until self._tasks is empty", node=wt.node, file=wt.file)
    if ok:
        h = loops[0]
        # normal exit only through the loop test being false
        preds = cfg.pred[cfg.exit]
        only = all(a == h.id and lab == "false" for a, lab in preds)
        wit = None
        if not only:
            other = [a for a, lab in preds if not (a == h.id and lab == "false")]
            wit = cfg.path(cfg.entry, other)
        run.check(only, "C10.STOP", wt.qual, "return only when no task is left",
                  "wait() can return while tasks remain (exit not through `while self._tasks`)",
                  node=wt.node, file=wt.file, path=_fmt(cfg, wit))
        # the awaited set is self._tasks and only done tasks are removed
        aw = [x for x in nodes_with_call(cfg, lambda c: dotted(c.func) == "asyncio.wait")
              if cfg.is_await(x)]
        done_name = None
        good_wait = False
        for x in aw:
            s = cfg.nodes[x].ast
            if isinstance(s, ast.Assign) and isinstance(s.targets[0], ast.Tuple) \
                    and isinstance(s.value, ast.Await) and isinstance(s.value.value, ast.Call):
                call = s.value.value
                if [u(a) for a in call.args] == ["self._tasks"] and not [
                        k for k in call.keywords if k.arg == "return_when"
                        and "ALL_COMPLETED" not in u(k.value)] and not [
                            k for k in call.keywords if k.arg == "timeout"]:
                    done_name = u(s.targets[0].elts[0])
                    good_wait = True
        run.check(good_wait, "C10.STOP", wt.qual, "await asyncio.wait(self._tasks)",
                  "wait() does not await completion of all of self._tasks", node=wt.node,
                  file=wt.file)
        if good_wait and done_name:
            writes = [n.ast for n in cfg.nodes if n.ast is not None and any(
                u(w) == "self._tasks" for w in node_writes(cfg, n.id))]
            ok_w = bool(writes) and all(
                isinstance(s, ast.Assign) and u(s.value) in (
                    f"self._tasks - {done_name}", f"self._tasks.difference({done_name})")
                or (isinstance(s, ast.AugAssign) and isinstance(s.op, ast.Sub)
                    and u(s.value) == done_name)
                for s in writes)
            mut = find_calls(wt.node, lambda c: isinstance(c.func, ast.Attribute)
                             and u(c.func.value) == "self._tasks"
                             and c.func.attr in ("clear", "pop", "remove", "discard",
                                                 "difference_update", "intersection_update"))
            ok_m = all(c.func.attr == "difference_update" and [u(a) for a in c.args] == [done_name]  # type: ignore[union-attr]
                       for c in mut)
            run.check((ok_w or (not writes and mut)) and ok_m, "C10.STOP", wt.qual,
                      "self._tasks = self._tasks - done",
                      "wait() removes tasks other than the finished ones from self._tasks",
                      node=wt.node, file=wt.file)
            # every done task's result is collected under a handler that catches everything
            fors = [n for n in cfg.nodes if n.kind == "for" and u(n.ast.iter) == done_name]  # type: ignore[union-attr]
            ok_r = False
            wit = None
            detail = "no loop over the finished tasks"
            if len(fors) == 1:
                f = fors[0]
                tv = u(f.ast.target)  # type: ignore[union-attr]
                res = nodes_with_call(cfg, lambda c: method_call(c, tv, "result"))
                detail = "task.result() is not read for every finished task"
                first = [m for m, lab in cfg.succ[f.id] if lab == "iter"]
                if res and first:
                    wit = None if first[0] in res else cfg.path(first[0], [f.id, cfg.exit], avoid=res)
                    if wit is None:
                        ok_r = True
                        for x in res:
                            for m, lab in cfg.succ[x]:
                                if lab.startswith("exc:") and cfg.nodes[m].kind != "handler":
                                    ok_r = False
                                    detail = (f"an error of a finished task ({lab}) escapes "
                                              "wait() uncollected — remaining tasks are not "
                                              "reported")
                            for m, lab in cfg.succ[x]:
                                if lab.startswith("exc:") and cfg.nodes[m].kind == "handler":
                                    hn = cfg.nodes[m]
                                    name = hn.ast.name  # type: ignore[union-attr]
                                    hreach = cfg.reachable([m], avoid=[f.id])
                                    app = [y for y in hreach if cfg.nodes[y].kind == "stmt"
                                           and node_has_call(cfg, y, lambda c: isinstance(
                                               c.func, ast.Attribute) and c.func.attr == "append"
                                               and [u(a) for a in c.args] == [name])]
                                    if not app:
                                        ok_r = False
                                        detail = "a task error is caught but not collected"
            run.check(ok_r, "C10.STOP", wt.qual, "collect task.result() of every finished task",
                      detail, node=wt.node, file=wt.file, path=_fmt(cfg, wit))
            # raise group iff any error
            raises = [n for n in cfg.nodes if isinstance(n.ast, ast.Raise)
                      and "BaseExceptionGroup" in u(n.ast.exc)]
            ok_g = False
            if len(raises) == 1:
                rn = raises[0]
                lst = u(rn.ast.exc.args[1]) if isinstance(rn.ast.exc, ast.Call) and len(rn.ast.exc.args) > 1 else None  # type: ignore[union-attr]
                tests = [n for n in cfg.nodes if n.kind == "test" and n.ast is not None
                         and canon(n.ast) == ("truthy", lst)]
                if lst and len(tests) == 1:
                    t = tests[0]
                    t_true = [m for m, lab in cfg.succ[t.id] if lab == "true"]
                    ok_g = t_true == [rn.id] and all(
                        a == t.id for a, _ in cfg.pred[rn.id])
            run.check(ok_g, "C10.STOP", wt.qual, "raise BaseExceptionGroup iff errors were collected",
                      "wait() does not surface the collected task errors exactly when there are any",
                      node=wt.node, file=wt.file)

    # __aexit__ stops, __await__ waits
    ax = prog.func(f"{BGS}.__aexit__")
    run.analysed(ax.qual)
    cfg = _cfg(ax)
    stops = [x for x in nodes_with_call(cfg, lambda c: method_call(c, "self", "stop"))
             if cfg.is_await(x)]
    wit = cfg.path(cfg.entry, [cfg.exit], avoid=stops)
    run.check(bool(stops) and wit is None, "C10.STOP", ax.qual, "await self.stop()",
              "leaving the async context does not stop the service on every path",
              node=ax.node, file=ax.file, path=_fmt(cfg, wit))


# ---------------------------------------------------------------------------------------------
def check_subclasses(run: Run, prog: Program) -> None:
    """C10.SUPER: overrides keep the base discipline; every created task is registered."""
    bgs = prog.cls(BGS)
    subs = prog.subclasses(bgs)
    if len(subs) < 10:
        raise AnalysisError(f"C10.SUPER: only {len(subs)} BackgroundService subclasses found")
    for sub in subs:
        for name in ("stop", "cancel", "wait"):
            if name not in sub.methods:
                continue
            m = sub.methods[name]
            run.analysed(m.qual)
            cfg = _cfg(m)
            sup = nodes_with_call(cfg, lambda c, n=name: is_super_call(c, n))
            if m.is_async:
                sup = [x for x in sup if cfg.is_await(x)]
            wit = cfg.path(cfg.entry, [cfg.exit], avoid=sup)
            run.check(bool(sup) and wit is None, "C10.SUPER", m.qual, f"super().{name}()",
                      f"override of {name}() has a normal path that skips the base implementation "
                      "(tasks of the service are not cancelled/awaited)", node=m.node, file=m.file,
                      path=_fmt(cfg, wit))
        if "start" in sub.methods:
            m = sub.methods["start"]
            run.analysed(m.qual)
            for call in find_calls(m.node, lambda c: (dotted(c.func) or "").endswith("create_task")):
                # the created task must flow into self._tasks
                registered = False
                for node in body_walk(m.node):
                    if isinstance(node, ast.Call) and method_call(node, "self._tasks", "add") \
                            and any(call is x for a in node.args for x in ast.walk(a)):
                        registered = True
                if not registered:
                    # via a local name
                    for node in body_walk(m.node):
                        if isinstance(node, ast.Assign) and node.value is call:
                            nm = u(node.targets[0])
                            for n2 in body_walk(m.node):
                                if isinstance(n2, ast.Call) and method_call(n2, "self._tasks", "add") \
                                        and [u(a) for a in n2.args] == [nm]:
                                    registered = True
                run.check(registered, "C10.SUPER", m.qual, call,
                          "a task created in start() is not added to self._tasks, so stop()/wait() "
                          "neither cancel nor await it", node=call, file=m.file)
        # nobody rebinds or clears the task set outside the base class (except Actor.start's reset)
        for m in sub.methods.values():
            for node in body_walk(m.node):
                bad = False
                if isinstance(node, (ast.Assign, ast.AugAssign, ast.AnnAssign)) and any(
                        u(w) == "self._tasks" for w in writes_of(node)):
                    bad = True
                if isinstance(node, ast.Call) and isinstance(node.func, ast.Attribute) \
                        and u(node.func.value) == "self._tasks" and node.func.attr in (
                            "clear", "pop", "remove", "discard"):
                    bad = not (m.qual == f"{ACTOR}.start" and node.func.attr == "clear")
                    if not bad:
                        # Actor.start clears only after the is_running guard (all tasks done)
                        run.ok("C10.SUPER", f"{m.qual}: self._tasks.clear() only behind the "
                               "is_running guard")
                if bad:
                    run.violation("C10.SUPER", m.qual, node,
                                  "a subclass drops tasks from self._tasks: stop()/wait() would "
                                  "no longer cancel/await them", node=node, file=m.file)
    # Actor.start: the clear() is dominated by the is_running guard as well
    st = prog.func(f"{ACTOR}.start")
    cfg = _cfg(st)
    clears = nodes_with_call(cfg, lambda c: method_call(c, "self._tasks", "clear"))
    guards = [t.id for t in cfg.nodes if t.kind == "test" and t.ast is not None
              and "is_running" in t.label]
    for c in clears:
        wit = cfg.path(cfg.entry, [c], avoid=guards)
        run.check(bool(guards) and wit is None, "C10.SUPER", st.qual, cfg.nodes[c].ast,
                  "self._tasks.clear() reachable without the is_running guard: running tasks "
                  "would be forgotten", node=cfg.nodes[c].ast, file=st.file, path=_fmt(cfg, wit))


# ---------------------------------------------------------------------------------------------
def check_run_utils(run: Run, prog: Program) -> None:
    fn = prog.func("actor._run_utils:run")
    run.analysed(fn.qual)
    cfg = _cfg(fn)
    q = fn.qual
    param = fn.node.args.vararg.arg if fn.node.args.vararg else None
    if not param:
        raise AnalysisError(f"{q}: *actors parameter not found")
    # one wait task per actor, no filter
    ok = False
    pend = None
    for n in cfg.nodes:
        s = n.ast
        if isinstance(s, ast.Assign) and isinstance(s.value, (ast.SetComp, ast.ListComp)):
            comp = s.value
            gen = comp.generators[0]
            if len(comp.generators) == 1 and u(gen.iter) == param and not gen.ifs \
                    and has_call(comp.elt, lambda c: method_call(c, u(gen.target), "wait")) \
                    and has_call(comp.elt, lambda c: (dotted(c.func) or "").endswith("create_task")):
                ok = True
                pend = u(s.targets[0])
    run.check(ok, "C10.RUN", q, "one wait() task per actor",
              "run() does not create a waiting task for every actor passed in", node=fn.node,
              file=fn.file)
    if not ok or pend is None:
        return
    loops = [n for n in cfg.nodes if n.kind == "while" and canon(n.ast.test) == ("truthy", pend)]  # type: ignore[union-attr]
    run.check(len(loops) == 1, "C10.RUN", q, f"while {pend}",
              "run() does not loop until no waiting task is pending", node=fn.node, file=fn.file)
    if len(loops) != 1:
        return
    h = loops[0]
    preds = cfg.pred[cfg.exit]
    body = cfg.reachable([m for m, lab in cfg.succ[h.id] if lab == "true"], avoid=[h.id])
    leaving = [(a, lab) for a in body for m, lab in cfg.succ[a]
               if m not in body and m != h.id and not lab.startswith("exc:")]
    run.check(not leaving, "C10.RUN", q, "no early exit from the wait loop",
              "run() can leave its wait loop (break/return) while actors are still running",
              node=fn.node, file=fn.file,
              path=[f"{fn.file}:{cfg.nodes[a].lineno} {cfg.nodes[a].text()}" for a, _ in leaving])
    # pending is re-assigned from asyncio.wait(pending, ...)[1] and nowhere else in the loop
    writes = [cfg.nodes[x].ast for x in body if cfg.nodes[x].ast is not None and any(
        u(w) == pend for w in node_writes(cfg, x))]
    ok = len(writes) == 1
    if ok:
        s = writes[0]
        ok = (isinstance(s, ast.Assign) and isinstance(s.targets[0], ast.Tuple)
              and len(s.targets[0].elts) == 2 and u(s.targets[0].elts[1]) == pend
              and isinstance(s.value, ast.Await) and isinstance(s.value.value, ast.Call)
              and dotted(s.value.value.func) == "asyncio.wait"
              and [u(a) for a in s.value.value.args][:1] == [pend])
    run.check(ok, "C10.RUN", q, f"_, {pend} = await asyncio.wait({pend}, ...)",
              "the pending set is not exactly what asyncio.wait reports as still pending",
              node=fn.node, file=fn.file)
    # actors that are not running get started
    starts = nodes_with_call(cfg, lambda c: isinstance(c.func, ast.Attribute)
                             and c.func.attr == "start")
    fors = [n for n in cfg.nodes if n.kind == "for" and u(n.ast.iter) == param]  # type: ignore[union-attr]
    ok = False
    wit = None
    if fors and starts:
        f = fors[0]
        first = [m for m, lab in cfg.succ[f.id] if lab == "iter"]
        # a path through the body that neither starts the actor nor saw is_running true
        running_tests = [n.id for n in cfg.nodes if n.kind == "test" and "is_running" in n.label]
        ok = True
        for t in running_tests:
            tn = cfg.nodes[t]
            c = canon(tn.ast)  # type: ignore[arg-type]
            not_running = "false" if c[0] == "truthy" else "true"
            side = [m for m, lab in cfg.succ[t] if lab == not_running]
            wit = cfg.path(side[0], [f.id], avoid=starts) if side else None
            if side and side[0] in starts:
                wit = None
            if wit is not None:
                ok = False
        if not running_tests:
            wit = cfg.path(first[0], [f.id], avoid=starts) if first and first[0] not in starts else None
            ok = wit is None
    run.check(ok, "C10.RUN", q, "start every actor that is not running",
              "run() can skip starting an actor that is not running", node=fn.node, file=fn.file,
              path=_fmt(cfg, wit))


# ---------------------------------------------------------------------------------------------
CONTROLS = [
    ("continue in the cancel handler", "actor._actor",
     "                _logger.info(\"Actor %s: Cancelled.\", self)\n                raise\n",
     "                _logger.info(\"Actor %s: Cancelled.\", self)\n                continue\n",
     "C10.CANCEL"),
    ("break moved inside try", "actor._actor",
     "                _logger.info(\"Actor %s: _run() returned without error.\", self)\n",
     "                self._on_return()\n", "C10.RET"),
    ("restart guard off by one", "actor._actor",
     "n_restarts < self._restart_limit", "n_restarts <= self._restart_limit", "C10.RESTART"),
    ("is_running guard dropped", "actor._actor",
     "        if self.is_running:\n            return\n", "", "C10.SINGLE"),
    ("except Exception in wait()", "actor._background_service",
     "except BaseException as error:", "except Exception as error:", "C10.STOP"),
    ("super().stop() skipped", "microgrid._power_distributing.power_distributing",
     "        await super().stop(msg)\n", "        pass\n", "C10.SUPER"),
]


def run_rules(run: Run, prog: Program) -> None:
    check_run_loop(run, prog)
    check_single(run, prog)
    check_stop(run, prog)
    check_subclasses(run, prog)
    check_run_utils(run, prog)


def check(run: Run, prog: Program, tier: str) -> str:
    run.rule("C10.RET", "after a normal return of _run() no path re-invokes it; the loop exits")
    run.rule("C10.CANCEL", "a cancellation of _run() always propagates and never restarts")
    run.rule("C10.BASE", "a non-Exception BaseException of _run() always propagates, never restarts")
    run.rule("C10.RESTART", "an Exception restarts iff `limit is None or n < limit`, with exactly one "
             "increment and the restart delay before the next _run(); otherwise it propagates")
    run.rule("C10.SINGLE", "_run is only awaited in _run_loop; _run_loop only spawned by start() "
             "behind the is_running guard and registered in self._tasks")
    run.rule("C10.STOP", "cancel() cancels all tasks; stop() cancels then waits and re-raises only "
             "non-cancellation errors; wait() loops until no task is left, collecting every error")
    run.rule("C10.SUPER", "BackgroundService subclasses call the base stop/cancel/wait and register "
             "every task they create in self._tasks")
    run.rule("C10.RUN", "run() starts stopped actors, awaits one task per actor, loops until none pending")
    run_rules(run, prog)
    run.floor("C10.RESTART", 8)
    run.floor("C10.STOP", 8)
    run.floor("C10.SUPER", 8)
    run.floor("C10.SINGLE", 6)
    from ..engine.controls import run_controls

    run_controls(run, CONTROLS, run_rules, tier)
    run.assume("logging calls do not raise; context managers do not swallow exceptions")
    run.assume("asyncio semantics: CancelledError is a BaseException and surfaces only at await "
               "points and Task.result()/exception()")
    run.undecided("real timing of the restart delay; fairness of the event loop")
    run.sample({"cfg": "Actor._run_loop", "nodes": len(_cfg(prog.func(f'{ACTOR}._run_loop')).nodes)})
    return ("Path rules over the exception-aware CFGs of Actor._run_loop/start, BackgroundService."
            "cancel/stop/wait/__aexit__, run() and every BackgroundService subclass override: "
            "decides the restart policy (which exception kinds loop back, guard, counter, delay), "
            "single-run discipline (who may call _run/_run_loop), and stop/wait completeness. "
            "It does not decide timing.")
