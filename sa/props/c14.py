"""C14  Power requests for a component group are applied one at a time, latest wins.

Path / who-may-call rules on PowerDistributingActor._run, _process_request and
_handle_task_completion (the done-callback lambda is followed).
"""
from __future__ import annotations

import ast

from ..engine.cfg import CFG
from ..engine.report import AnalysisError, Run
from ..engine.resolver import Program, body_walk, contains_await
from ..engine.util import (
    canon, find_calls, method_call, node_calls, node_has_call, node_writes, nodes_with_call, u,
)

MOD = "microgrid._power_distributing.power_distributing"
ACTOR = f"{MOD}:PowerDistributingActor"
PROC = "self._processing_tasks"
PEND = "self._pending_requests"


def check_only(run: Run, prog: Program) -> None:
    cls = prog.cls(ACTOR)
    n = 0
    for m in cls.methods.values():
        for c in find_calls(m.node, lambda c: isinstance(c.func, ast.Attribute)
                            and c.func.attr == "distribute_power"):
            n += 1
            run.check(m.name == "_process_request" and u(c.func.value) == "self._component_manager",
                      "C14.ONLY", m.qual, c,
                      "the component manager's distribute_power is invoked outside _process_request: "
                      "a distribution could run without being registered as in flight",
                      node=c, file=m.file)
        for c in find_calls(m.node, lambda c: method_call(c, "self", "_process_request")):
            run.check(m.name in ("_run", "_handle_task_completion"), "C14.ONLY", m.qual, c,
                      "_process_request is called from somewhere else than the request loop and the "
                      "completion handler", node=c, file=m.file)
    if n != 1:
        raise AnalysisError(f"C14.ONLY: expected one distribute_power call site, found {n}")
    # nobody else touches the two dictionaries
    for m in cls.methods.values():
        if m.name in ("__init__", "_run", "_handle_task_completion", "_process_request"):
            continue
        txt = u(m.node)
        run.check(PROC not in txt and PEND not in txt, "C14.ONLY", m.qual, m.name,
                  "the in-flight / pending bookkeeping is touched outside the three cooperating "
                  "functions", node=m.node, file=m.file)


def check_reg(run: Run, prog: Program) -> None:
    fn = prog.func(f"{ACTOR}._process_request")
    run.analysed(fn.qual)
    run.check(not fn.is_async and not contains_await(fn.node), "C14.REG", fn.qual, "synchronous",
              "_process_request is not synchronous: registering the task is no longer atomic with "
              "respect to other requests", node=fn.node, file=fn.file)
    cfg = CFG(fn.node, fn.file)
    creates = nodes_with_call(cfg, lambda c: u(c.func).endswith("create_task"))
    if len(creates) != 1:
        raise AnalysisError(f"{fn.qual}: expected one create_task")
    s = cfg.nodes[creates[0]].ast
    tname = u(s.targets[0]) if isinstance(s, ast.Assign) else None
    key, req = fn.params[1], fn.params[2]
    call = node_calls(cfg, creates[0], lambda c: u(c.func).endswith("create_task"))[0]
    inner = call.args[0] if call.args else None
    ok = isinstance(inner, ast.Call) and u(inner.func) == "self._component_manager.distribute_power" \
        and [u(a) for a in inner.args] == [req]
    run.check(ok, "C14.REG", fn.qual, call, "the task does not distribute exactly the given request",
              node=call, file=fn.file)
    # done callback -> _handle_task_completion(req_id, request, task)
    cbs = nodes_with_call(cfg, lambda c: method_call(c, tname, "add_done_callback"))
    ok = False
    if len(cbs) == 1:
        cb = node_calls(cfg, cbs[0], lambda c: method_call(c, tname, "add_done_callback"))[0]
        if cb.args and isinstance(cb.args[0], ast.Lambda):
            lam = cb.args[0]
            body = lam.body
            lp = [a.arg for a in lam.args.args]
            ok = isinstance(body, ast.Call) and method_call(body, "self", "_handle_task_completion") \
                and [u(a) for a in body.args] == [key, req] + lp[:1]
        elif cb.args and isinstance(cb.args[0], ast.Call) and u(cb.args[0].func).endswith("partial"):
            a = cb.args[0].args
            ok = len(a) == 3 and u(a[0]) == "self._handle_task_completion" and [u(x) for x in a[1:]] == [key, req]
    run.check(ok, "C14.REG", fn.qual, "task.add_done_callback(... _handle_task_completion(req_id, request, t))",
              "the distribution task has no completion callback for its own (group, request): a "
              "pending request would never be started", node=fn.node, file=fn.file)
    stores = [n.id for n in cfg.nodes if n.kind == "stmt" and any(
        u(w) == f"{PROC}[{key}]" for w in node_writes(cfg, n.id))]
    wit = cfg.path(cfg.entry, [cfg.exit], avoid=stores)
    ok = bool(stores) and wit is None and all(
        isinstance(cfg.nodes[x].ast, ast.Assign) and u(cfg.nodes[x].ast.value) == tname for x in stores)  # type: ignore[union-attr]
    run.check(ok, "C14.REG", fn.qual, f"{PROC}[{key}] = {tname}",
              "the created task is not registered as the group's in-flight task on every path",
              node=fn.node, file=fn.file, path=cfg.describe_path(wit))
    for nodes, what in ((creates, "create the task"), (cbs, "attach the callback")):
        wit = cfg.path(cfg.entry, [cfg.exit], avoid=nodes)
        run.check(wit is None, "C14.REG", fn.qual, what, f"a path through _process_request does not {what}",
                  node=fn.node, file=fn.file, path=cfg.describe_path(wit))


def check_run(run: Run, prog: Program) -> None:
    fn = prog.func(f"{ACTOR}._run")
    run.analysed(fn.qual)
    cfg = CFG(fn.node, fn.file)
    loops = [n for n in cfg.nodes if n.kind == "for" and u(n.ast.iter) == "self._requests_receiver"]  # type: ignore[union-attr]
    if len(loops) != 1:
        raise AnalysisError(f"{fn.qual}: request loop not found")
    h = loops[0]
    rv = u(h.ast.target)  # type: ignore[union-attr]
    body = cfg.reachable([m for m, lab in cfg.succ[h.id] if lab == "iter"], avoid=[h.id])
    # KEY
    keydefs = [cfg.nodes[x].ast for x in body if isinstance(cfg.nodes[x].ast, ast.Assign)
               and u(cfg.nodes[x].ast.value) == f"frozenset({rv}.component_ids)"]  # type: ignore[union-attr]
    if len(keydefs) != 1:
        run.violation("C14.KEY", fn.qual, "req_id = frozenset(request.component_ids)",
                      "the group key is not the frozenset of the request's component ids",
                      node=fn.node, file=fn.file)
        return
    key = u(keydefs[0].targets[0])
    run.ok("C14.KEY", f"{fn.qual}: key = frozenset({rv}.component_ids)")
    # the in-flight guard
    guards = [t for t in (cfg.nodes[x] for x in body) if t.kind == "test" and t.ast is not None
              and canon(t.ast) in (("in", key, PROC), ("notin", key, PROC))]
    other_tests = [t for t in (cfg.nodes[x] for x in body) if t.kind == "test" and t.ast is not None
                   and "_processing_tasks" in t.label and t not in guards]
    if len(guards) != 1 or other_tests:
        run.violation("C14.ATOM", fn.qual, (other_tests or guards or [h])[0].ast,
                      f"the in-flight guard is not exactly `{key} in {PROC}`: the decision between "
                      "'park as pending' and 'start now' no longer coincides with the registration "
                      "made by _process_request / cleared by the completion handler",
                      node=fn.node, file=fn.file)
        return
    g = guards[0]
    in_lab = "true" if canon(g.ast)[0] == "in" else "false"  # type: ignore[arg-type]
    out_lab = "false" if in_lab == "true" else "true"
    busy = cfg.reachable([m for m, lab in cfg.succ[g.id] if lab == in_lab], avoid=[h.id])
    free = cfg.reachable([m for m, lab in cfg.succ[g.id] if lab == out_lab], avoid=[h.id])
    procs = nodes_with_call(cfg, lambda c: method_call(c, "self", "_process_request"))
    pend_writes = [x for x in body if any(u(w).startswith(PEND) for w in node_writes(cfg, x))]
    # busy side: park, never start
    run.check(not any(p in busy for p in procs), "C14.ATOM", fn.qual, "busy -> park only",
              "a request is started although a task for the same group is in flight",
              node=g.ast, file=fn.file)
    wit = cfg.path([m for m, lab in cfg.succ[g.id] if lab == in_lab][0], [h.id], avoid=pend_writes) \
        if pend_writes else [(g.id, "")]
    if pend_writes and [m for m, lab in cfg.succ[g.id] if lab == in_lab][0] in pend_writes:
        wit = None
    run.check(wit is None, "C14.LATEST", fn.qual, f"{PEND}[{key}] = {rv}",
              "while a task is in flight an incoming request can be dropped without being recorded "
              "as the pending one", node=g.ast, file=fn.file, path=cfg.describe_path(wit),
              instance=f"{fn.qual}: in flight -> the incoming request is recorded as pending on every path")
    # free side: start now, with this request
    wit = cfg.path([m for m, lab in cfg.succ[g.id] if lab == out_lab][0], [h.id], avoid=procs)
    if [m for m, lab in cfg.succ[g.id] if lab == out_lab][0] in procs:
        wit = None
    run.check(wit is None and not any(p in free for p in pend_writes), "C14.ATOM", fn.qual,
              "free -> start now", "with no task in flight the request is not started immediately",
              node=g.ast, file=fn.file, path=cfg.describe_path(wit))
    for p in procs:
        c = node_calls(cfg, p, lambda c: method_call(c, "self", "_process_request"))[0]
        run.check([u(a) for a in c.args] == [key, rv], "C14.KEY", fn.qual, c,
                  "the request is started under a different key / with a different request",
                  node=c, file=fn.file)
    # LATEST: the only writes are plain overwrites with the incoming request
    for x in pend_writes:
        s = cfg.nodes[x].ast
        ok = isinstance(s, ast.Assign) and u(s.targets[0]) == f"{PEND}[{key}]" and u(s.value) == rv
        run.check(ok, "C14.LATEST", fn.qual, s,
                  "the pending slot is not overwritten with the incoming request", node=s, file=fn.file)
    for c in find_calls(fn.node, lambda c: isinstance(c.func, ast.Attribute) and u(c.func.value) == PEND):
        run.check(c.func.attr == "get", "C14.LATEST", fn.qual, c,  # type: ignore[union-attr]
                  f"`{u(c)}` mutates or conditionally fills the pending slot: an older pending request "
                  "can survive a newer one", node=c, file=fn.file)
    # ATOM: no await between the guard and the bookkeeping (both sides), nor between key and guard
    region = (busy | free | {g.id}) - {h.id}
    aw = [x for x in region if cfg.is_await(x)]
    run.check(not aw, "C14.ATOM", fn.qual, cfg.nodes[aw[0]].ast if aw else "no await in the critical section",
              "an await lies between the in-flight test and the pending/start bookkeeping: a "
              "completion callback can run in between and the request is lost or started twice",
              node=cfg.nodes[aw[0]].ast if aw else g.ast, file=fn.file)
    pre = cfg.reachable([m for m, lab in cfg.succ[h.id] if lab == "iter"], avoid=[g.id, h.id])
    aw = [x for x in pre if cfg.is_await(x) and x not in region]
    run.check(not aw, "C14.ATOM", fn.qual, "no await between receiving a request and the guard",
              "an await lies between receiving the request and testing for an in-flight task",
              node=cfg.nodes[aw[0]].ast if aw else g.ast, file=fn.file)


def check_handler(run: Run, prog: Program) -> None:
    fn = prog.func(f"{ACTOR}._handle_task_completion")
    run.analysed(fn.qual)
    run.check(not fn.is_async and not contains_await(fn.node), "C14.NEXT", fn.qual, "synchronous",
              "the completion handler is not synchronous", node=fn.node, file=fn.file)
    cfg = CFG(fn.node, fn.file)
    key = fn.params[1]
    res = nodes_with_call(cfg, lambda c: isinstance(c.func, ast.Attribute) and c.func.attr == "result" and not c.args)
    tests = [t for t in cfg.nodes if t.kind == "test" and t.ast is not None and canon(t.ast) == ("in", key, PEND)]
    if len(tests) != 1:
        run.violation("C14.NEXT", fn.qual, "if req_id in self._pending_requests",
                      "the pending/clear decision is not a membership test on the pending requests",
                      node=fn.node, file=fn.file)
        return
    t = tests[0]
    # totality: from entry, and from every exception handler of task.result(), the decision is reached
    wit = cfg.path(cfg.entry, [cfg.exit], avoid=[t.id])
    run.check(wit is None, "C14.NEXT", fn.qual, "decision reached on every normal path",
              "the completion handler can return without deciding between 'start the pending "
              "request' and 'clear the in-flight entry' — a parked request would never be applied",
              node=fn.node, file=fn.file, path=cfg.describe_path(wit))
    for r in res:
        for m, lab in cfg.succ[r]:
            if lab == "exc:E":
                run.check(cfg.nodes[m].kind == "handler", "C14.NEXT", fn.qual, cfg.nodes[r].ast,
                          "an exception of the finished distribution escapes the completion handler: "
                          "the group stays marked as in flight forever", node=cfg.nodes[r].ast, file=fn.file)
                if cfg.nodes[m].kind == "handler":
                    wit = cfg.path(m, [cfg.exit], avoid=[t.id])
                    run.check(wit is None, "C14.NEXT", fn.qual, cfg.nodes[m].ast,
                              "after a failed distribution the handler skips the pending/clear "
                              "decision: the request that arrived meanwhile is never started",
                              node=cfg.nodes[m].ast, file=fn.file, path=cfg.describe_path(wit))
    # pending side: pop and start under the same key
    yes = [m for m, lab in cfg.succ[t.id] if lab == "true"]
    no = [m for m, lab in cfg.succ[t.id] if lab == "false"]
    procs = nodes_with_call(cfg, lambda c: method_call(c, "self", "_process_request"))
    ok = bool(procs) and yes[:1] == procs[:1]
    if ok:
        c = node_calls(cfg, procs[0], lambda c: method_call(c, "self", "_process_request"))[0]
        ok = [u(a).replace(" ", "") for a in c.args] == [key, f"{PEND}.pop({key})"]
    run.check(ok, "C14.NEXT", fn.qual, f"self._process_request({key}, {PEND}.pop({key}))",
              "the pending request is not consumed (pop) and started under its own key",
              node=fn.node, file=fn.file)
    # in-flight entry deleted only when nothing is pending
    dels = [n.id for n in cfg.nodes if isinstance(n.ast, ast.Delete) and PROC in u(n.ast)] + \
        nodes_with_call(cfg, lambda c: method_call(c, PROC, "pop"))
    yes_side = cfg.reachable(yes)
    run.check(bool(dels) and not any(d in yes_side for d in dels) and all(d in cfg.reachable(no) for d in dels),
              "C14.NEXT", fn.qual, f"del {PROC}[{key}] only when nothing is pending",
              "the in-flight marker is cleared although a pending request is about to be started "
              "(or is never cleared): two requests of one group could then run concurrently",
              node=fn.node, file=fn.file)
    for d in dels:
        run.check(f"[{key}]" in u(cfg.nodes[d].ast) or f"({key}" in u(cfg.nodes[d].ast), "C14.KEY", fn.qual,
                  cfg.nodes[d].ast, "the cleared in-flight entry is not this group's", node=cfg.nodes[d].ast,
                  file=fn.file)
    if any(lab == "exc:C" for r in res for _m, lab in cfg.succ[r]):
        run.note("a *cancelled* distribution task makes task.result() raise CancelledError, which "
                 "`except Exception` does not catch: outside the property's quantifier (informational)")


CONTROLS = [
    ("await inside the critical section", MOD,
     "                self._pending_requests[req_id] = request\n",
     "                await asyncio.sleep(0)\n                self._pending_requests[req_id] = request\n", "C14.ATOM"),
    ("get instead of pop", MOD, "self._pending_requests.pop(req_id)", "self._pending_requests.get(req_id)", "C14.NEXT"),
    ("return in the except arm", MOD,
     "            _logger.exception(\"Failed power request: %s\", request)\n",
     "            _logger.exception(\"Failed power request: %s\", request)\n            return\n", "C14.NEXT"),
    ("callback dropped", MOD,
     "        task.add_done_callback(\n            lambda t: self._handle_task_completion(req_id, request, t)\n        )\n", "",
     "C14.REG"),
    ("older pending request kept", MOD, "                self._pending_requests[req_id] = request\n",
     "                self._pending_requests.setdefault(req_id, request)\n", "C14.LATEST"),
    ("guard looks at task.done()", MOD, "            if req_id in self._processing_tasks:\n",
     "            if req_id in self._processing_tasks and not self._processing_tasks[req_id].done():\n", "C14.ATOM"),
]


def run_rules(run: Run, prog: Program) -> None:
    check_only(run, prog)
    check_reg(run, prog)
    check_run(run, prog)
    check_handler(run, prog)


def check(run: Run, prog: Program, tier: str) -> str:
    run.rule("C14.ONLY", "distribute_power only inside _process_request; _process_request only from the "
             "request loop and the completion handler; bookkeeping dicts touched nowhere else")
    run.rule("C14.REG", "_process_request is synchronous and on every path creates the task, attaches "
             "the completion callback for (group, request) and registers the task under the group key")
    run.rule("C14.ATOM", "the in-flight guard is exactly `key in _processing_tasks`; no await between "
             "receiving a request, the guard and the bookkeeping")
    run.rule("C14.LATEST", "the pending slot is only ever overwritten with the incoming request")
    run.rule("C14.NEXT", "the completion handler reaches the pending/clear decision on the normal and on "
             "every Exception path, pops+starts the pending request, clears the marker only otherwise")
    run.rule("C14.KEY", "all bookkeeping is keyed by frozenset(request.component_ids)")
    run_rules(run, prog)
    run.floor("C14.ONLY", 4)
    run.floor("C14.REG", 6)
    run.floor("C14.ATOM", 4)
    run.floor("C14.LATEST", 3)
    run.floor("C14.NEXT", 6)
    from ..engine.controls import run_controls

    run_controls(run, CONTROLS, run_rules, tier)
    run.assume("asyncio is cooperative: between two awaits of _run no other task or done-callback runs")
    run.undecided("fairness/latency of the event loop; behaviour when a distribution task is cancelled")
    return ("Path rules on the exception-aware CFGs of the request loop, the (synchronous) registration "
            "function and the completion handler: guard exactness, await-freedom of the critical "
            "section, overwrite-only pending slot, handler totality over Exception paths, and "
            "who-may-call discipline.")
