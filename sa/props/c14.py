"""C14  Power requests for a component group are applied one at a time, latest wins.

Per-path rules on PowerDistributingActor._run (one iteration of the request loop),
_process_request and _handle_task_completion (the done-callback is followed).  Every path of the
three functions is walked symbolically with locals substituted away and private helpers read into
their call sites (sa/props/_c14_util.py), so the rules talk about *roles*:

  key        frozenset(<loop variable>.component_ids) in _run; in the two callees the parameter that is
             used as the key of the two maps
  request    the loop variable of `async for ... in self._requests_receiver`; the starter's parameter that
             is handed to distribute_power, the handler's remaining one
  task       the value of the one `...create_task(...)` call of _process_request; the handler's parameter
             whose `.result()` is asked for
             (parameters are bound by what the body does with them -- Ctx.roles -- and calls are read
             through the signature, so order, names and positional / keyword spelling do not matter; the
             historical order key, request, task only settles what the uses leave open)
  in flight  membership of the key in self._processing_tasks
  pending    membership of the key in self._pending_requests

Names relied on: the attributes of the shared state (`_processing_tasks`, `_pending_requests`,
`_requests_receiver`, `_component_manager`), the anchored functions, and the callees
`distribute_power`, `create_task`, `add_done_callback`, `result`, dict `get` / `pop` / `keys`.
"""
from __future__ import annotations

import ast
from typing import Any

from ..engine.normalize import positional
from ..engine.report import AnalysisError, Run
from ..engine.resolver import FuncInfo, Program, contains_await, walk_no_nested
from ..engine.sympath import Effect, Path, SymUnsupported
from ..engine.util import u
from ._c14_util import (HelperGraph, Signature, Walk, assign_roles, callback_target, caught_by, closure_reads,
                        effect_target, param_uses, rebound_after, seg, splice)

MOD = "microgrid._power_distributing.power_distributing"
ACTOR = f"{MOD}:PowerDistributingActor"
PROC = "self._processing_tasks"
PEND = "self._pending_requests"
RECV = "self._requests_receiver"
MANAGER = "self._component_manager"
STARTER_HINT, HANDLER_HINT = "_process_request", "_handle_task_completion"   # names are only a hint
STATE_ATTRS = ("_processing_tasks", "_pending_requests")


# --------------------------------------------------------------------------------------------- helpers
def _nospace(e: ast.AST | str | None) -> str:
    return (e if isinstance(e, str) else u(e)).replace(" ", "")


def _mentions(x: Any, attr: str) -> bool:
    return attr in (x if isinstance(x, str) else str(x))


def _membership(key: Any, coll: str, k: str, popping: bool = False) -> bool | None:
    """Does the canonical condition `key` (positive form) say "k is / is not a key of coll"?
    True: it holds iff k is present; False: it holds iff k is absent; None: something else.
    Sound for dictionaries whose values are never None / always truthy (tasks, Request objects)."""
    if key in (("in", k, coll), ("in", k, f"{coll}.keys()")):
        return True
    lookups = [f"{coll}.get({k})", f"{coll}.get({k}, None)"] + ([f"{coll}.pop({k}, None)"] if popping else [])
    for lk in lookups:
        if key == ("is", frozenset({lk, "None"})):
            return False
        if key == ("truthy", lk):
            return True
    return None


def _decision(p: Path, coll: str, attr: str, k: str, popping: bool = False) -> tuple[bool | None, list[str]]:
    """(is k present in coll on this path, conditions on coll that are not a membership test of k)."""
    present: bool | None = None
    odd: list[str] = []
    for key, outcome, atom, _ln, _o in p.conds:
        if not _mentions(key, attr):
            continue
        m = _membership(key, coll, k, popping)
        if m is None:
            odd.append(u(atom))
        elif present is None:
            present = outcome == m
    return present, odd


def _is_self_call(c: ast.AST, attr: str) -> bool:
    return isinstance(c, ast.Call) and isinstance(c.func, ast.Attribute) and c.func.attr == attr \
        and u(c.func.value) == "self"


def _calls_on(p: Path, recv: str) -> list[Effect]:
    """Method calls whose receiver is the given attribute (or a subscript / attribute of it)."""
    out = []
    for e in p.calls():
        f = e.node.func  # type: ignore[attr-defined]
        if isinstance(f, ast.Attribute) and (u(f.value) == recv or u(f.value).startswith((recv + "[", recv + "."))):
            out.append(e)
    return out


def _writes(p: Path, attr: str) -> list[tuple[str, str, Effect]]:
    return [(*effect_target(e), e) for e in p.effects if e.kind == "write" and _mentions(effect_target(e)[0], attr)]


def _dels(p: Path, attr: str) -> list[Effect]:
    return [e for e in p.effects if e.kind == "del" and _mentions(u(e.node), attr)]


def bind_roles(prog: Program) -> tuple[str, str]:
    """(starter, handler): the two private methods of the actor the rules are about, bound by role.

    starter  the method that -- itself or through private helpers it calls -- creates a task around
             `<manager>.distribute_power(...)` and stores it into self._processing_tasks[...]; of
             several such methods the innermost one (the completion handler and the request loop reach
             the same code *through* it).  The done-callback is attached by the starter or, when it
             hands the task back, by its callers: that is not part of the role.
    handler  the method the `add_done_callback(...)` argument of the starter (or of a method that
             calls the starter) ends up calling.
    The historical names decide only when the structure leaves a choice."""
    cls = prog.cls(ACTOR)
    feats: dict[str, set[str]] = {}
    calls: dict[str, set[str]] = {}
    cb_args: dict[str, list[tuple[ast.AST, dict[str, ast.FunctionDef]]]] = {}
    for m in cls.methods.values():
        f: set[str] = set()
        nested = {n.name: n for n in ast.walk(m.node) if isinstance(n, ast.FunctionDef) and n is not m.node}
        for n in walk_no_nested(m.node):
            if isinstance(n, ast.Call):
                last = u(n.func).split(".")[-1]
                if last in ("distribute_power", "create_task", "add_done_callback"):
                    f.add(last)
                if last == "add_done_callback" and len(n.args) + len(n.keywords) == 1:
                    cb_args.setdefault(m.name, []).append(((n.args + [k.value for k in n.keywords])[0], nested))
                if isinstance(n.func, ast.Attribute) and isinstance(n.func.value, ast.Name) \
                        and n.func.value.id in ("self", "cls", cls.name) and n.func.attr in cls.methods:
                    calls.setdefault(m.name, set()).add(n.func.attr)
            elif isinstance(n, ast.Subscript) and isinstance(n.ctx, ast.Store) and u(n.value) == PROC:
                f.add("register")
        feats[m.name] = f

    def closure(name: str) -> set[str]:
        out, work = {name}, [name]
        while work:
            for c in calls.get(work.pop(), ()):
                if c not in out:
                    out.add(c)
                    work.append(c)
        return out

    want = {"distribute_power", "create_task", "register"}

    def score(m: str) -> int:
        have = set().union(*(feats[x] for x in closure(m)))
        return len(have & want) if "distribute_power" in have else 0

    # the methods that show most of the role (all three features on a tree where the property holds; on a
    # defective tree the role is still bound, so that the defect is reported as such), innermost first
    pool = [m for m in cls.methods if m not in ("_run", "__init__") and score(m) > 0]
    best = max((score(m) for m in pool), default=0)
    cands = [m for m in pool if score(m) == best]
    inner = [m for m in cands if not any(o != m and o in closure(m) for o in cands)]
    if STARTER_HINT in cands:
        starter = STARTER_HINT
    elif len(inner) == 1:
        starter = inner[0]
    else:
        raise AnalysisError(f"{ACTOR}: {len(inner)} methods play the role of {STARTER_HINT} (create the distribution "
                            "task, attach its done-callback and register it as in flight)")
    def targets_in(ms: Any) -> set[str]:
        return {t for m in ms for cb, nested in cb_args.get(m, [])
                for t in [callback_target(cb, nested, cls.methods, 0, cls.module.functions)] if t in cls.methods}

    targets = targets_in(closure(starter))
    if not targets:     # the starter hands the task back: its callers attach the callback
        targets = targets_in(m for m in cls.methods if m != "__init__" and starter in closure(m))
    restart = {m for m in cls.methods if m not in ("__init__", starter) and starter in calls.get(m, ())
               and m not in closure("_run")}     # restarts requests, but is not part of the request loop
    if len(targets) == 1:
        handler = next(iter(targets))
    elif HANDLER_HINT in cls.methods and (not targets or HANDLER_HINT in targets):
        handler = HANDLER_HINT
    elif not targets and len(restart) == 1:
        handler = next(iter(restart))       # no callback left: the one other method that starts requests
    else:
        raise AnalysisError(f"{ACTOR}: {len(targets)} methods play the role of {HANDLER_HINT} (the done-callback of the "
                            "distribution task)")
    if handler == starter:
        raise AnalysisError(f"{ACTOR}: the distribution task's done-callback is the starter itself")
    return starter, handler


FINISHED = "<the finished task>"


def _offset(source: str, lineno: int, col: int) -> int:
    lines = source.splitlines(keepends=True)
    return sum(len(x) for x in lines[:lineno - 1]) + len(lines[lineno - 1].encode("utf-8")[:col].decode("utf-8"))


def _callback_ok(cb: ast.AST, nested: dict[str, ast.FunctionDef], handler: str, hsig: Signature, hr: dict[str, str],
                 key: str, req: str, where: str) -> bool:
    """The callable `cb` (as the walker sees it: locals substituted, default arguments folded into the
    body) calls <handler> with its key parameter bound to `key`, its request parameter to `req` and its
    task parameter to the finished task the event loop passes in (`hr`: role -> parameter of the handler)."""
    if isinstance(cb, ast.Lambda):
        la = cb.args
        if len(la.args) + len(la.posonlyargs) != 1 or la.vararg or la.kwarg or la.kwonlyargs:
            return False
        tpar = (la.posonlyargs + la.args)[0].arg
        body: ast.AST | None = cb.body
    elif isinstance(cb, ast.Name) and cb.id in nested:
        d = nested[cb.id]
        da = d.args
        stmts = [s for s in d.body if not (isinstance(s, ast.Expr) and isinstance(s.value, ast.Constant))]
        if len(da.args) + len(da.posonlyargs) != 1 or da.vararg or da.kwarg or da.kwonlyargs or len(stmts) != 1 \
                or not isinstance(stmts[0], (ast.Expr, ast.Return)) or d.decorator_list:
            return False
        tpar = (da.posonlyargs + da.args)[0].arg
        body = stmts[0].value
    elif isinstance(cb, ast.Call) and u(cb.func).split(".")[-1] == "partial" and cb.args \
            and u(cb.args[0]) == f"self.{handler}":
        # partial(f, *a, **kw)(t) == f(*a, t, **kw)
        a = hsig.bind(ast.Call(func=cb.args[0], args=cb.args[1:] + [ast.Name(id=FINISHED, ctx=ast.Load())],
                               keywords=cb.keywords))
        return a == {hr["key"]: key, hr["request"]: req, hr["task"]: FINISHED}
    elif isinstance(cb, (ast.Name, ast.Call)):
        # a callable built somewhere the walker could not read (a multi-statement closure, an
        # unknown factory): nothing can be said about it
        raise AnalysisError(f"{where}: the done-callback `{u(cb)[:80]}` is not a callable the walker can read")
    else:
        return False
    if body is None or not _is_self_call(body, handler):
        return False
    return hsig.bind(body) == {hr["key"]: key, hr["request"]: req, hr["task"]: tpar}


def _done_callbacks(p: Path) -> list[Effect]:
    return p.calls(lambda c: isinstance(c.func, ast.Attribute) and c.func.attr == "add_done_callback")


def _cb_arg(call: ast.AST) -> ast.AST | None:
    assert isinstance(call, ast.Call)
    if len(call.args) + len(call.keywords) != 1:
        return None
    return positional(call, ["fn"]).get("fn") or positional(call, ["callback"]).get("callback")


def check_attach(fn: FuncInfo, w: Walk, paths: list[Path], ctx: "Ctx", prog: Program,
                 bad: dict[str, list[tuple[Path, Any]]]) -> None:
    """The callers' side of "every distribution task has exactly one completion callback, for its own
    (group, request)".  When the starter hands the created task back without a callback (ctx.deferred),
    every start in the caller must be followed, on the same path, by exactly one
    `<that task>.add_done_callback(<handler>(<the started key>, <the started request>, finished task))`;
    when the starter attaches the callback itself, a caller must not attach another one."""
    hsig, hr = ctx.roles(ctx.handler)
    ssig, sr = ctx.roles(ctx.starter)
    nested = {n.name: n for n in ast.walk(w.tree) if isinstance(n, ast.FunctionDef) and n is not w.tree}
    for p in paths:
        order = {id(e): i for i, e in enumerate(p.effects)}
        cbs = _done_callbacks(p)
        for st in p.calls(lambda c: _is_self_call(c, ctx.starter)):
            a = ssig.bind(st.node)
            slot = f"{PROC}[{a[sr['key']]}]" if a is not None and sr["key"] in a else None
            mine = [e for e in cbs if order[id(e)] > order[id(st)] and (
                u(e.node.func.value) == u(st.node) or (slot is not None and u(e.node.func.value) == slot))]  # type: ignore[attr-defined]
            if not ctx.deferred:
                for e in mine:
                    bad["cb_twice"].append((p, e.node))
                continue
            if len(mine) != 1:
                bad["cb_site"].append((p, f"{len(mine)} completion callback(s) on the task returned by "
                                       f"{u(st.node)[:80]}"))
                continue
            arg = _cb_arg(mine[0].node)
            if a is None or set(a) != set(sr.values()) or arg is None \
                    or not _callback_ok(arg, nested, ctx.handler, hsig, hr, a[sr["key"]], a[sr["request"]], fn.qual):
                bad["cbarg_site"].append((p, mine[0].node))


def report_attach(run: Run, fn: FuncInfo, ctx: "Ctx", bad: dict[str, list[tuple[Path, Any]]]) -> None:
    if ctx.deferred:
        _agg(run, "C14.REG", fn, "every started task gets its completion callback at the call site",
             "the starter hands the created task back without a completion callback and this caller does not "
             "attach exactly one to it on every path: the in-flight marker is never cleared and a pending "
             "request never started (or the completion is handled twice)", bad["cb_site"])
        _agg(run, "C14.REG", fn, "callback at the call site = _handle_task_completion(started key, started request, "
             "finished task)",
             "the completion callback attached to the returned task is not the handler for the (group, request) "
             "that was just started: the completion is booked against another group / request", bad["cbarg_site"])
    else:
        _agg(run, "C14.REG", fn, "no second completion callback at the call site",
             "a second completion callback is attached to a task the starter already gave one: the completion "
             "is handled twice (the follow-up request's in-flight marker is cleared while it runs)",
             bad["cb_twice"])


class Ctx:
    def __init__(self, prog: Program) -> None:
        self.deferred = False               # the starter returns the task, its callers attach the callback
        self.unfollowed: set[str] = set()
        self.read_in: set[str] = set()      # helpers spliced / followed into the anchored functions
        self.starter, self.handler = bind_roles(prog)
        self.anchors: tuple[str, ...] = ("_run", self.handler, self.starter)
        self.prog = prog
        self._walks: dict[str, Walk] = {}
        self._roles: dict[str, tuple[Signature, dict[str, str]]] = {}

    def walk(self, fn: FuncInfo) -> Walk:
        if fn.qual not in self._walks:
            w = Walk(self.prog, fn, anchors=self.anchors)
            self.unfollowed |= w.ex.unfollowed
            self.read_in |= w.spliced | w.ex.followed
            self._walks[fn.qual] = w
        return self._walks[fn.qual]

    def roles(self, method: str) -> tuple[Signature, dict[str, str]]:
        """(signature, role -> parameter) of the starter (key, request) / the handler (key, request, task):
        a parameter plays the role its uses on the walked paths show -- key of the two maps, handed to
        distribute_power, asked for its result -- whatever its position or name."""
        if method not in self._roles:
            fn = self.prog.func(f"{ACTOR}.{method}")
            sig = Signature(fn)
            want = ["key", "request"] + (["task"] if method == self.handler else [])
            r = assign_roles(sig.names, param_uses(self.walk(fn).paths, sig.names, (PROC, PEND)), want)
            if r is None:
                raise AnalysisError(f"{fn.qual}: parameters for ({', '.join(want)}) not found")
            self._roles[method] = (sig, r)
        return self._roles[method]


def _walk(prog: Program, fn: FuncInfo, ctx: Ctx) -> Walk:
    return ctx.walk(fn)


def _agg(run: Run, rule: str, fn: FuncInfo, what: str, msg: str, bad: list[tuple[Path, Any]], **kw: Any) -> None:
    """One obligation over all paths; each offending (path, construct) pair is reported."""
    if not bad:
        run.ok(rule, kw.get("instance") or f"{fn.qual} :: {what}")
        return
    seen = set()
    for p, construct in bad:
        c = what if construct is None else construct
        k = u(c) if isinstance(c, ast.AST) else str(c)
        if k in seen:
            continue
        seen.add(k)
        run.violation(rule, fn.qual, c, msg, node=fn.node, file=fn.file, path=p.describe())


# --------------------------------------------------------------------------------------------- REG
def check_reg(run: Run, prog: Program, ctx: Ctx) -> None:  # noqa: C901
    fn = prog.func(f"{ACTOR}.{ctx.starter}")
    run.analysed(fn.qual)
    _ssig, sr = ctx.roles(ctx.starter)
    hsig, hr = ctx.roles(ctx.handler)
    key, req = sr["key"], sr["request"]
    w = _walk(prog, fn, ctx)
    run.check(not fn.is_async and not contains_await(w.tree), "C14.REG", fn.qual, "synchronous",
              "_process_request is not synchronous: registering the task is no longer atomic with "
              "respect to other requests", node=fn.node, file=fn.file)
    nested = {n.name: n for n in ast.walk(w.tree) if isinstance(n, ast.FunctionDef) and n is not w.tree}
    slot = f"{PROC}[{key}]"

    bad: dict[str, list[tuple[Path, Any]]] = {k: [] for k in ("create", "coro", "cb", "cbarg", "reg", "writes")}
    handed_back: list[bool] = []
    pending_cb: list[tuple[Path, Any]] = []
    for p in w.paths:
        creates = p.calls(lambda c: u(c.func).split(".")[-1] == "create_task")
        if len(creates) != 1 or p.exit == "raise":
            bad["create"].append((p, f"{len(creates)} create_task call(s) on a path"))
            continue
        call = creates[0].node
        assert isinstance(call, ast.Call)
        task = u(call)
        coro = positional(call, ["coro"]).get("coro")
        ok = isinstance(coro, ast.Call) and u(coro.func) == f"{MANAGER}.distribute_power" \
            and [u(a) for a in coro.args] + [u(k.value) for k in coro.keywords if k.arg is not None] == [req] \
            and not any(k.arg is None for k in coro.keywords)
        if not ok:
            bad["coro"].append((p, call))
        # registration: PROC[key] = task ; nothing else is written to the in-flight map
        ws = _writes(p, "_processing_tasks")
        registered = [e for t, v, e in ws if t == slot and v == task]
        if not registered:
            bad["reg"].append((p, f"{slot} = <the created task>"))
        odd = [e for t, v, e in ws if not (t == slot and v == task)] + _dels(p, "_processing_tasks") + [
            e for e in _calls_on(p, PROC) if e.node.func.attr not in ("get", "keys", "add_done_callback")]  # type: ignore[attr-defined]
        for e in odd:
            bad["writes"].append((p, e.orig if e.kind != "call" and e.orig is not None else e.node))
        # the completion callback, attached to this very task (or left to the callers: the task is handed back)
        cbs = _done_callbacks(p)
        returned = p.exit == "return" and p.ret is not None and (
            u(p.ret) == task or (u(p.ret) == slot and bool(registered)))
        handed_back.append(returned and not cbs)
        if returned and not cbs:
            pending_cb.append((p, "task.add_done_callback(... _handle_task_completion(req_id, request, t))"))
            continue

        order = {id(e): i for i, e in enumerate(p.effects)}

        def on_task(e: Effect) -> bool:
            recv = u(e.node.func.value)  # type: ignore[attr-defined]
            return recv == task or (recv == slot and any(order[id(r)] < order[id(e)] for r in registered))

        mine = [e for e in cbs if on_task(e)]
        if len(mine) != 1 or len(cbs) != 1:
            bad["cb"].append((p, "task.add_done_callback(... _handle_task_completion(req_id, request, t))"))
            continue
        arg = _cb_arg(mine[0].node)
        if arg is None or not _callback_ok(arg, nested, ctx.handler, hsig, hr, key, req, fn.qual):
            bad["cbarg"].append((p, "task.add_done_callback(... _handle_task_completion(req_id, request, t))"))
    # every path hands the bare task back: attaching the callback is the callers' obligation (check_attach);
    # some do and some do not: the ones that do not are paths without a callback
    ctx.deferred = bool(handed_back) and all(handed_back)
    if not ctx.deferred:
        bad["cb"].extend(pending_cb)
    _agg(run, "C14.REG", fn, "create the task", "a path through _process_request does not create exactly one "
         "distribution task", bad["create"])
    _agg(run, "C14.REG", fn, "the task distributes exactly the given request",
         "the task does not distribute exactly the given request", bad["coro"])
    _agg(run, "C14.REG", fn, "attach the callback (or hand the bare task back on every path)",
         "the distribution task has no completion callback on some path: a "
         "pending request would never be started", bad["cb"])
    _agg(run, "C14.REG", fn, "callback = _handle_task_completion(key, request, finished task)",
         "the distribution task has no completion callback for its own (group, request): a "
         "pending request would never be started", bad["cbarg"])
    _agg(run, "C14.REG", fn, f"{slot} = <the created task> on every path",
         "the created task is not registered as the group's in-flight task on every path", bad["reg"])
    _agg(run, "C14.REG", fn, "the in-flight map only receives the registration",
         "_process_request changes the in-flight map other than by registering the created task under "
         "the group key", bad["writes"])


# --------------------------------------------------------------------------------------------- _run
def check_run(run: Run, prog: Program, ctx: Ctx) -> None:  # noqa: C901
    fn = prog.func(f"{ACTOR}._run")
    run.analysed(fn.qual)
    w = _walk(prog, fn, ctx)
    ssig, sr = ctx.roles(ctx.starter)
    loops: dict[int, tuple[ast.AsyncFor, Path]] = {}
    for p in w.paths:
        for e in p.effects:
            if e.kind == "loop" and isinstance(e.orig, (ast.AsyncFor, ast.For)) and u(e.node) == RECV:
                loops.setdefault(id(e.orig), (e.orig, p))  # type: ignore[arg-type]
    if len(loops) != 1:
        raise AnalysisError(f"{fn.qual}: request loop not found")
    loop, p0 = next(iter(loops.values()))
    if not isinstance(loop, ast.AsyncFor) or not isinstance(loop.target, ast.Name):
        raise AnalysisError(f"{fn.qual}: request loop is not `async for <name> in {RECV}`")
    rv = loop.target.id
    env = {k: v for k, v in p0.env.items() if not (isinstance(v, ast.Name) and v.id.startswith("<")) and k != rv}
    try:
        body = w.ex.block_paths(loop.body, env)
    except SymUnsupported as exc:
        raise AnalysisError(f"{fn.qual}: {exc}") from exc
    ctx.unfollowed |= w.ex.unfollowed
    ctx.read_in |= w.ex.followed
    if not body:
        raise AnalysisError(f"{fn.qual}: the request loop has no path")
    K = f"frozenset({rv}.component_ids)"

    bad: dict[str, list[tuple[Path, Any]]] = {k: [] for k in (
        "leave", "key", "guard", "undecided", "touch", "busy_start", "busy_park", "free_start", "free_park",
        "args", "overwrite", "pendcall", "await", "cb_site", "cbarg_site", "cb_twice")}
    look = ("get", "keys") + (("add_done_callback",) if ctx.deferred else ())   # callers attach to the registered task
    check_attach(fn, w, [p for p, _st in body], ctx, prog, bad)
    n_busy = n_free = 0
    for p, st in body:
        if st not in ("next", "continue"):
            bad["leave"].append((p, f"{st} inside the request loop"))
        # ---- the in-flight guard
        present: bool | None = None
        for key, outcome, atom, _ln, _o in p.conds:
            if not _mentions(key, "_processing_tasks"):
                continue
            m = _membership(key, PROC, K)
            if m is not None:
                if present is None:
                    present = outcome == m
            elif isinstance(key, tuple) and key[:1] == ("in",) and key[2:] in ((PROC,), (f"{PROC}.keys()",)):
                bad["key"].append((p, atom))
            else:
                bad["guard"].append((p, atom))
        if present is None:
            bad["undecided"].append((p, None))
        # the in-flight map is only looked at, and only by the guard
        for t, _v, e in _writes(p, "_processing_tasks"):
            bad["touch"].append((p, e.orig or t))
        for e in _dels(p, "_processing_tasks"):
            bad["touch"].append((p, e.orig or e.node))
        for e in _calls_on(p, PROC):
            if not ((e.node.func.attr in ("get", "keys") and u(e.node.func.value) == PROC)  # type: ignore[attr-defined]
                    or (e.node.func.attr in look and u(e.node.func.value).startswith(PROC + "["))):  # type: ignore[attr-defined]
                bad["touch"].append((p, e.node))
        # ---- bookkeeping of this path
        starts = p.calls(lambda c: _is_self_call(c, ctx.starter))
        pend_w = _writes(p, "_pending_requests")
        overwrites = [e for t, v, e in pend_w if t == f"{PEND}[{K}]" and v == rv]
        for t, v, e in pend_w:
            if not (t == f"{PEND}[{K}]" and v == rv):
                bad["overwrite"].append((p, f"{t} = {v}"))
        for e in _dels(p, "_pending_requests"):
            bad["overwrite"].append((p, f"del {u(e.node)}"))
        for e in _calls_on(p, PEND):
            if not (e.node.func.attr in ("get", "keys") and u(e.node.func.value) == PEND):  # type: ignore[attr-defined]
                bad["pendcall"].append((p, e.node))
        for e in starts:
            if ssig.bind(e.node) != {sr["key"]: K, sr["request"]: rv}:
                bad["args"].append((p, e.node))
        if present is True:
            n_busy += 1
            if starts:
                bad["busy_start"].append((p, starts[0].node))
            if not overwrites:
                bad["busy_park"].append((p, f"{PEND}[{K}] = {rv}"))
        elif present is False:
            n_free += 1
            if len(starts) != 1:
                bad["free_start"].append((p, f"{len(starts)} start(s) of the request with no task in flight"))
            if pend_w:
                bad["free_park"].append((p, pend_w[0][2].orig or pend_w[0][0]))
        for e in p.effects:
            if e.kind == "await":
                bad["await"].append((p, e.node))
    if not n_busy or not n_free:
        if not (bad["guard"] or bad["key"] or bad["undecided"]):
            raise AnalysisError(f"{fn.qual}: the request loop has no in-flight / no free path")
    _agg(run, "C14.KEY", fn, f"key = frozenset({rv}.component_ids)",
         "the group key is not the frozenset of the request's component ids", bad["key"],
         instance=f"{fn.qual}: key = frozenset(<request>.component_ids)")
    _agg(run, "C14.ATOM", fn, "guard is exactly `key in self._processing_tasks`",
         f"the in-flight guard is not exactly `<key> in {PROC}`: the decision between "
         "'park as pending' and 'start now' no longer coincides with the registration "
         "made by _process_request / cleared by the completion handler", bad["guard"])
    _agg(run, "C14.ATOM", fn, "every iteration tests the in-flight map",
         "an iteration of the request loop does its bookkeeping without testing whether a task for the "
         "group is in flight", bad["undecided"])
    _agg(run, "C14.ATOM", fn, "the request loop only looks at the in-flight map",
         "the request loop changes the in-flight map itself (registration belongs to _process_request, "
         "clearing to the completion handler)", bad["touch"])
    _agg(run, "C14.ATOM", fn, "busy -> park only",
         "a request is started although a task for the same group is in flight", bad["busy_start"])
    _agg(run, "C14.LATEST", fn, f"{PEND}[key] = request",
         "while a task is in flight an incoming request can be dropped without being recorded "
         "as the pending one", bad["busy_park"],
         instance=f"{fn.qual}: in flight -> the incoming request is recorded as pending on every path")
    _agg(run, "C14.ATOM", fn, "free -> start now",
         "with no task in flight the request is not started immediately (exactly once)", bad["free_start"])
    _agg(run, "C14.ATOM", fn, "free -> nothing parked",
         "with no task in flight the request is (also) parked as pending", bad["free_park"])
    _agg(run, "C14.KEY", fn, "self._process_request(key, request)",
         "the request is started under a different key / with a different request", bad["args"])
    report_attach(run, fn, ctx, bad)
    _agg(run, "C14.LATEST", fn, "pending slot: plain overwrite with the incoming request",
         "the pending slot is not overwritten with the incoming request", bad["overwrite"])
    _agg(run, "C14.LATEST", fn, "pending map otherwise only read (get)",
         "the call mutates or conditionally fills the pending slot: an older pending request "
         "can survive a newer one", bad["pendcall"])
    _agg(run, "C14.LATEST", fn, "every iteration returns to the receiver",
         "an iteration leaves the request loop: later requests are never recorded nor started",
         bad["leave"])
    _agg(run, "C14.ATOM", fn, "no await on any path of an iteration",
         "an await lies between receiving a request, the in-flight test and the pending/start "
         "bookkeeping: a completion callback can run in between and the request is lost or started twice",
         bad["await"])
    aw = [s for s in loop.body if contains_await(s)]
    run.check(not aw, "C14.ATOM", fn.qual, aw[0] if aw else "no await in the critical section",
              "an await lies between the in-flight test and the pending/start bookkeeping: a "
              "completion callback can run in between and the request is lost or started twice",
              node=aw[0] if aw else loop, file=fn.file)


# --------------------------------------------------------------------------------------------- handler
def check_handler(run: Run, prog: Program, ctx: Ctx) -> None:  # noqa: C901
    fn = prog.func(f"{ACTOR}.{ctx.handler}")
    run.analysed(fn.qual)
    ssig, sr = ctx.roles(ctx.starter)
    key = ctx.roles(ctx.handler)[1]["key"]
    w = _walk(prog, fn, ctx)
    run.check(not fn.is_async and not contains_await(w.tree), "C14.NEXT", fn.qual, "synchronous",
              "the completion handler is not synchronous", node=fn.node, file=fn.file)
    slot = f"{PROC}[{key}]"
    bad: dict[str, list[tuple[Path, Any]]] = {k: [] for k in (
        "raise", "decide", "odd", "escape", "start", "nostart", "clear_pending", "clear", "keyed", "write",
        "partial", "cb_site", "cbarg_site", "cb_twice")}
    look = ("get", "keys") + (("add_done_callback",) if ctx.deferred else ())
    check_attach(fn, w, [p for p in w.paths if p.exit != "raise"], ctx, prog, bad)
    only_exception = False
    n_yes = n_no = 0
    for p in w.paths:
        if p.exit == "raise":
            bad["raise"].append((p, f"raise {u(p.ret)}".strip()))
            continue
        pending, odd = _decision(p, PEND, "_pending_requests", key, popping=True)
        for o in odd:
            bad["odd"].append((p, o))
        if pending is None:
            failed = any(isinstance(k, tuple) and k[:1] == ("except",) for k, *_ in p.conds)
            bad["decide"].append((p, "after a failed distribution" if failed else "decision reached on every normal path"))
        # exceptions of the finished distribution stay inside the handler
        for e in p.calls(lambda c: isinstance(c.func, ast.Attribute) and c.func.attr == "result"
                         and not c.args and not c.keywords):
            g = getattr(e, "guarded", "")
            if not g:
                bad["escape"].append((p, e.node))
            only_exception |= g == "E"
        starts = p.calls(lambda c: _is_self_call(c, ctx.starter))
        dels = [(u(e.node), e) for e in _dels(p, "_processing_tasks")]
        pops = [e for e in _calls_on(p, PROC) if e.node.func.attr == "pop" and u(e.node.func.value) == PROC]  # type: ignore[attr-defined]
        cleared = [e for t, e in dels if t == slot] + [
            e for e in pops if e.node.args and u(e.node.args[0]) == key]  # type: ignore[attr-defined]
        for t, e in dels:
            if t != slot:
                bad["keyed"].append((p, e.orig or e.node))
        for e in pops:
            if not (e.node.args and u(e.node.args[0]) == key):  # type: ignore[attr-defined]
                bad["keyed"].append((p, e.node))
        for t, _v, e in _writes(p, "_processing_tasks"):
            bad["write"].append((p, e.orig or t))
        for e in _calls_on(p, PROC):
            if e not in pops and not (e.node.func.attr in ("get", "keys") and u(e.node.func.value) == PROC) \
                    and not (e.node.func.attr in look and u(e.node.func.value).startswith(PROC + "[")):  # type: ignore[attr-defined]
                bad["write"].append((p, e.node))
        # nothing that is evaluated before the hand-over / the clearing can raise on the shape of the exception
        # the distribution ended with (the handler must be total over *every* exception, not the usual ones)
        order = {id(e): i for i, e in enumerate(p.effects)}
        duties = starts + [e for _t, e in dels] + pops + [
            e for e in _calls_on(p, PEND) if e.node.func.attr == "pop" and u(e.node.func.value) == PEND]  # type: ignore[attr-defined]
        for h in p.effects:
            if h.kind != "mayraise":
                continue
            tries, fins, _f = getattr(h, "where", ((), (), ()))
            lost = []
            for d in duties:
                if order[id(d)] < order[id(h)]:
                    continue
                d_tries, _dfins, d_final = getattr(d, "where", ((), (), ()))
                inside = {t for t, _names in d_tries}
                # the error is caught by a try that the duty lies behind, or the duty is the `finally` of a try
                # the operation lies in: then it is carried out all the same
                kept = any(t not in inside and caught_by(h.errors, names) for t, names in tries) \
                    or bool(set(fins) & set(d_final))                       # type: ignore[attr-defined]
                if not kept:
                    lost.append(d)
            if lost:
                bad["partial"].append((p, f"`{w.ex.show(h.node)[:100]}` (line {h.lineno}) can raise "
                                       f"{' / '.join(h.errors)}: {h.why}"))                 # type: ignore[attr-defined]
        if pending is True:
            n_yes += 1
            ok = len(starts) == 1
            if ok:
                a = ssig.bind(starts[0].node)
                kp, rp = sr["key"], sr["request"]
                consumed = a is not None and set(a) == {kp, rp} and a[kp] == key and (
                    _nospace(a[rp]) in (_nospace(f"{PEND}.pop({key})"), _nospace(f"{PEND}.pop({key}, None)"))
                    or (_nospace(a[rp]) == _nospace(f"{PEND}[{key}]")
                        and any(u(e.node) == f"{PEND}[{key}]" for e in _dels(p, "_pending_requests"))))
                ok = bool(consumed)
            if not ok:
                bad["start"].append((p, f"self._process_request({key}, {PEND}.pop({key}))"))
            if cleared or dels or pops:
                bad["clear_pending"].append((p, f"del {slot} only when nothing is pending"))
        elif pending is False:
            n_no += 1
            if starts:
                bad["nostart"].append((p, starts[0].node))
            absent = p.outcome(("in", key, PROC)) is False or p.outcome(("in", key, f"{PROC}.keys()")) is False
            if not cleared and not absent:
                bad["clear"].append((p, f"del {slot} only when nothing is pending"))
    if not (n_yes and n_no) and not (bad["decide"] or bad["odd"] or bad["raise"]):
        raise AnalysisError(f"{fn.qual}: no pending / no not-pending path found")
    _agg(run, "C14.NEXT", fn, "no exception is raised by the handler itself",
         "the completion handler raises: the pending/clear decision is skipped and the group stays "
         "marked as in flight forever", bad["raise"])
    _agg(run, "C14.NEXT", fn, "decision reached on every normal and every Exception path",
         "the completion handler can return without deciding between 'start the pending "
         "request' and 'clear the in-flight entry' — a parked request would never be applied "
         "(after a failed distribution: the request that arrived meanwhile is never started)", bad["decide"])
    _agg(run, "C14.NEXT", fn, "decision = membership of the key in the pending requests",
         "the pending/clear decision is not a membership test of the group key on the pending requests",
         bad["odd"])
    _agg(run, "C14.NEXT", fn, "nothing evaluated before the hand-over can raise on the shape of the caught exception",
         "an operation on the exception the distribution ended with (or on a value derived from it), evaluated "
         "before the pending/clear decision is carried out, raises for some exceptions -- one built without "
         "arguments (`asyncio.TimeoutError()`, a bare `raise ValueError`), with an empty message, of a class "
         "without that attribute, with a cause of None ...  Raised inside the done-callback, it aborts the handler: "
         "the waiting request is not handed over and the finished task stays in _processing_tasks, so the group is "
         "blocked for good (every later request is parked behind a task that is gone).  The same holds for any "
         "subscript of `.args` / of the message, attributes that not every exception has, unpacking of `.args`, "
         "`str.format` / `%` / f-string format specs over the exception, `', '.join(exc.args)`, int() / float() / "
         "next() / min() on such values, `task.exception().<attr>` without a None test.  Use total operations "
         "(`str(exc)`, `repr(exc)`, `type(exc).__name__`, `exc.args`, `exc.args[0] if exc.args else ...`, getattr "
         "with a default, lazy %-arguments of the logger), catch the error around the operation, or carry out the "
         "decision in a `finally`", bad["partial"])
    _agg(run, "C14.NEXT", fn, "task.result() inside try/except Exception",
         "an exception of the finished distribution escapes the completion handler: "
         "the group stays marked as in flight forever", bad["escape"])
    _agg(run, "C14.NEXT", fn, "pending -> pop and start under the same key",
         "the pending request is not consumed (pop) and started under its own key", bad["start"])
    _agg(run, "C14.NEXT", fn, "nothing pending -> nothing started",
         "a request is started although nothing is pending", bad["nostart"])
    _agg(run, "C14.NEXT", fn, "pending -> the in-flight marker stays",
         "the in-flight marker is cleared although a pending request is about to be started: two "
         "requests of one group could then run concurrently", bad["clear_pending"])
    _agg(run, "C14.NEXT", fn, "nothing pending -> the in-flight marker is cleared",
         "the in-flight marker is never cleared on a path with nothing pending: every later request "
         "of the group is parked forever", bad["clear"])
    _agg(run, "C14.KEY", fn, f"del {slot}", "the cleared in-flight entry is not this group's", bad["keyed"])
    _agg(run, "C14.NEXT", fn, "the handler only clears the in-flight map",
         "the completion handler writes the in-flight map itself (registration belongs to _process_request)",
         bad["write"])
    report_attach(run, fn, ctx, bad)
    if only_exception:
        run.note("a *cancelled* distribution task makes task.result() raise CancelledError, which "
                 "`except Exception` does not catch: outside the property's quantifier (informational)")


# --------------------------------------------------------------------------------------------- BIND
def completion_closures(prog: Program, handler: str) -> list[tuple[FuncInfo, ast.AST, list[ast.AST] | None]]:
    """(function, closure, the handler call's arguments) for every lambda / nested def in the actor's
    methods and the module's functions that calls self.<handler>(...): the callables a finished
    distribution task can be answered with, however they are handed to add_done_callback."""
    cls = prog.cls(ACTOR)
    out: list[tuple[FuncInfo, ast.AST, list[ast.AST] | None]] = []
    for m in list(cls.methods.values()) + list(cls.module.functions.values()):
        for n in ast.walk(m.node):
            if n is m.node or not isinstance(n, (ast.Lambda, ast.FunctionDef, ast.AsyncFunctionDef)):
                continue
            body = [n.body] if isinstance(n, ast.Lambda) else n.body
            calls = [c for b in body for c in ast.walk(b) if isinstance(c, ast.Call)
                     and isinstance(c.func, ast.Attribute) and c.func.attr == handler
                     and isinstance(c.func.value, ast.Name)]
            if not calls:
                continue
            # an enclosing def that merely contains the real closure is not itself the callback
            inner = [x for x in ast.walk(n) if x is not n and isinstance(x, (ast.Lambda, ast.FunctionDef))
                     and any(c in ast.walk(x) for c in calls)]
            if inner:
                continue
            # a one-expression callable: only what flows into the handler call matters; otherwise everything it reads
            args = [a for c in calls for a in list(c.args) + [k.value for k in c.keywords]] \
                if isinstance(n, ast.Lambda) else None
            out.append((m, n, args))
    return out


def check_bind(run: Run, prog: Program, ctx: Ctx) -> None:
    """A completion is booked for the (group, request) the callback was *created* for: what the callback
    passes to the handler is fixed when it is created -- default arguments, functools.partial, or free
    variables that are never bound again afterwards (parameters / single-assignment locals of the function
    the callback is created in).  A closure over a variable that is re-bound before the task completes
    (the loop variable of the request loop, the key computed per iteration, a local reused for the next
    request) sees the *latest* value: the completion of one request is then handled as if the most recently
    received one had finished."""
    closures = completion_closures(prog, ctx.handler)
    for m, c, args in closures:
        names = closure_reads(c, args)
        hits = rebound_after(m.node, c, names)
        what = u(c) if isinstance(c, ast.Lambda) else f"def {c.name}(...)"  # type: ignore[attr-defined]
        if not hits:
            run.ok("C14.BIND", f"{m.qual} :: `{what[:90]}` reads only variables that are not bound again after its creation")
            continue
        by_var: dict[str, list[str]] = {}
        for name, owner, site in hits:
            ln = getattr(site, "lineno", 0)
            kind = "loop variable" if any(
                isinstance(x, (ast.For, ast.AsyncFor)) and any(t is site for t in ast.walk(x.target))
                for x in ast.walk(owner)) else "re-bound"
            by_var.setdefault(name, []).append(f"{kind} at line {ln}")
        detail = "; ".join(f"`{k}` ({', '.join(sorted(set(v)))})" for k, v in sorted(by_var.items()))
        run.violation(
            "C14.BIND", m.qual, what,
            f"the completion callback closes over {detail} of {m.name}: the variable is bound again after the "
            "callback is created and before the task completes, and a closure sees the latest value (late "
            "binding) -- the completion of this request is handled for the group / request received most "
            "recently: another group's in-flight marker is cleared while its distribution still runs (two "
            "requests of that group then run concurrently) and this group stays marked in flight, so its later "
            "requests are parked and never applied.  Bind the arguments when the callback is created: default "
            "arguments, functools.partial, or create it in a function whose parameters it closes over",
            node=c, file=m.file)
    run.check(bool(closures) or _partial_only(prog, ctx), "C14.BIND", f"{ACTOR}.{ctx.starter}",
              "a completion callback exists", "no callable that calls the completion handler was found",
              node=prog.func(f"{ACTOR}.{ctx.starter}").node, file=prog.func(f"{ACTOR}.{ctx.starter}").file,
              instance=f"{ACTOR} :: the completion callback is a closure or a partial of the handler")


def _partial_only(prog: Program, ctx: Ctx) -> bool:
    """The handler is handed out as a bound method / through partial (arguments evaluated at creation)."""
    cls = prog.cls(ACTOR)
    return any(isinstance(n, ast.Attribute) and n.attr == ctx.handler and isinstance(n.value, ast.Name)
               and isinstance(n.ctx, ast.Load) for m in cls.methods.values() for n in ast.walk(m.node))


# --------------------------------------------------------------------------------------------- ONLY
def check_only(run: Run, prog: Program, ctx: Ctx) -> None:
    cls = prog.cls(ACTOR)
    graph = HelperGraph(cls, ctx.anchors + ("__init__",))   # helpers of the constructor belong to the constructor

    def home(m: FuncInfo) -> set[str] | None:
        """The anchored functions the code of `m` belongs to (itself, or where it is read into)."""
        return graph.absorbed_by(m.name, ctx.unfollowed)

    n = 0
    for m in cls.methods.values():
        for c in [x for x in ast.walk(m.node) if isinstance(x, ast.Call)]:
            if isinstance(c.func, ast.Attribute) and c.func.attr == "distribute_power":
                n += 1
                run.check(home(m) == {ctx.starter} and u(c.func.value) == MANAGER,
                          "C14.ONLY", m.qual, c,
                          "the component manager's distribute_power is invoked outside _process_request: "
                          "a distribution could run without being registered as in flight",
                          node=c, file=m.file)
            if _is_self_call(c, ctx.starter):
                h = home(m)
                run.check(h is not None and h <= {"_run", ctx.handler}, "C14.ONLY", m.qual, c,
                          "_process_request is called from somewhere else than the request loop and the "
                          "completion handler", node=c, file=m.file)
        for who, is_call in graph.refs.get(ctx.starter, []):
            if who == m.name and not is_call:
                run.violation("C14.ONLY", m.qual, f"self.{ctx.starter} passed around",
                              "_process_request is handed out as a callable: it can be invoked outside the "
                              "request loop and the completion handler", node=m.node, file=m.file)
    if n != 1 and not any(v.rule == "C14.ONLY" for v in run.violations):
        raise AnalysisError(f"C14.ONLY: expected one distribute_power call site, found {n}")
    for name in sorted(ctx.read_in):      # module-level helpers read into the anchored functions
        if name in cls.module.functions:
            run.analysed(cls.module.functions[name].qual)
    # nobody else touches the two dictionaries
    for m in cls.methods.values():
        if m.name in ("__init__",) + ctx.anchors:
            continue
        touches = any(isinstance(x, ast.Attribute) and x.attr in STATE_ATTRS for x in ast.walk(m.node))
        if home(m) is not None:
            run.analysed(m.qual)    # a private helper read into the anchored functions: part of what was decided
        if touches and home(m) is None and graph.absorbed_by(m.name, set()) is not None:
            raise AnalysisError(f"{m.qual} touches the in-flight / pending bookkeeping and is called from the "
                                "anchored functions in a way the path walker cannot follow")
        run.check(not touches or home(m) is not None, "C14.ONLY", m.qual, m.name,
                  "the in-flight / pending bookkeeping is touched outside the three cooperating "
                  "functions", node=m.node, file=m.file)


# --------------------------------------------------------------------------------------------- initial state
def check_init(run: Run, prog: Program, ctx: Ctx) -> None:
    """The shared state the other rules reason about exists and starts empty: on every path of
    __init__ that constructs the actor both maps are bound to an empty dict (and nothing else is done
    to them), the request receiver and the component manager are bound."""
    fn = prog.func(f"{ACTOR}.__init__")
    run.analysed(fn.qual)
    w = _walk(prog, fn, ctx)
    bad: dict[str, list[tuple[Path, Any]]] = {k: [] for k in ("proc", "pend", "odd", "recv", "manager")}
    built = 0
    for p in w.paths:
        if p.exit == "raise":
            continue
        built += 1
        for attr, coll, slot in (("_processing_tasks", PROC, "proc"), ("_pending_requests", PEND, "pend")):
            ws = _writes(p, attr)
            if not any(t == coll and v in ("{}", "dict()") for t, v, _e in ws):
                bad[slot].append((p, f"{coll} = {{}}"))
            for t, v, _e in ws:
                if not (t == coll and v in ("{}", "dict()")):
                    bad["odd"].append((p, f"{t} = {v}"))
            for e in _dels(p, attr):
                bad["odd"].append((p, f"del {u(e.node)}"))
            for e in _calls_on(p, coll):
                bad["odd"].append((p, e.node))
        for coll, slot in ((RECV, "recv"), (MANAGER, "manager")):
            if not any(effect_target(e)[0] == coll for e in p.effects if e.kind == "write"):
                bad[slot].append((p, f"{coll} = ..."))
    if not built:
        raise AnalysisError(f"{fn.qual}: no constructing path found")
    _agg(run, "C14.ONLY", fn, f"{PROC} starts as an empty dict",
         "the in-flight map is not initialised to an empty dict: the first request of a group finds no map "
         "(or a stale in-flight marker) and is never started", bad["proc"])
    _agg(run, "C14.ONLY", fn, f"{PEND} starts as an empty dict",
         "the pending map is not initialised to an empty dict: parking a request fails (or a stale request "
         "is started after the first completion)", bad["pend"])
    _agg(run, "C14.ONLY", fn, "the constructor only initialises the bookkeeping maps",
         "the constructor fills or rebinds the in-flight / pending bookkeeping beyond creating it empty",
         bad["odd"])
    _agg(run, "C14.ONLY", fn, f"{RECV} is bound by the constructor",
         "the request receiver the request loop iterates over is never bound: no request is ever received",
         bad["recv"])
    _agg(run, "C14.ONLY", fn, f"{MANAGER} is bound on every constructing path",
         "the component manager _process_request hands the request to is not bound on some constructing path",
         bad["manager"])


# --------------------------------------------------------------------------------------------- controls
CONTROLS = [
    ("await inside the critical section", MOD,
     "                self._pending_requests[req_id] = request\n",
     "                await asyncio.sleep(0)\n                self._pending_requests[req_id] = request\n", "C14.ATOM"),
    ("get instead of pop", MOD, "self._pending_requests.pop(req_id)", "self._pending_requests.get(req_id)", "C14.NEXT"),
    ("return in the except arm", MOD,   # anchored to the handler by the decision that follows
     "            _logger.exception(\"Failed power request: %s\", request)\n\n        if req_id in self._pending_requests:\n",
     "            _logger.exception(\"Failed power request: %s\", request)\n            return\n\n"
     "        if req_id in self._pending_requests:\n", "C14.NEXT"),
    ("callback dropped", MOD,
     "        task.add_done_callback(\n            lambda t: self._handle_task_completion(req_id, request, t)\n        )\n", "",
     "C14.REG"),
    ("older pending request kept", MOD, "                self._pending_requests[req_id] = request\n",
     "                self._pending_requests.setdefault(req_id, request)\n", "C14.LATEST"),
    ("guard looks at task.done()", MOD, "            if req_id in self._processing_tasks:\n",
     "            if req_id in self._processing_tasks and not self._processing_tasks[req_id].done():\n", "C14.ATOM"),
]


def structural_controls(prog: Program) -> list[tuple[str, str, str, str, str]]:  # noqa: C901
    """The same kinds of defects as CONTROLS, located by structure in the tree under analysis (whole
    source replacements), so that they apply to every shape of the anchored code."""
    mod = prog.module(MOD)
    src = mod.source
    cls = prog.cls(ACTOR)
    out: list[tuple[str, str, str, str, str]] = []
    ssig = hsig = None
    sr: dict[str, str] = {}
    hr: dict[str, str] = {}
    try:
        ctx = Ctx(prog)
        starter, handler = ctx.starter, ctx.handler
        try:
            (ssig, sr), (hsig, hr) = ctx.roles(starter), ctx.roles(handler)
        except AnalysisError:
            ssig = hsig = None      # the controls that need the parameters' roles are not built
    except AnalysisError:
        starter, handler = STARTER_HINT, HANDLER_HINT

    def add(name: str, edits: list[tuple[ast.AST, str]], rule: str) -> None:
        if edits:
            out.append((f"[structural] {name}", MOD, src, splice(src, edits), rule))

    def ind(n: ast.AST) -> str:
        return " " * n.col_offset  # type: ignore[attr-defined]

    def sub_of(t: ast.AST, attr: str) -> bool:
        return isinstance(t, ast.Subscript) and isinstance(t.value, ast.Attribute) and t.value.attr == attr \
            and u(t.value.value) == "self"

    methods = list(cls.methods.values())
    every = [(m, n) for m in methods for n in ast.walk(m.node)]
    # an await between the in-flight test and the bookkeeping (else: between receiving and the test)
    run_fn = cls.methods.get("_run")
    if run_fn is not None:
        loops = [n for n in ast.walk(run_fn.node) if isinstance(n, ast.AsyncFor) and u(n.iter) == RECV]
        if len(loops) == 1:
            guards = [s for s in loops[0].body if isinstance(s, ast.If) and "_processing_tasks" in u(s.test)]
            first = guards[0].body[0] if guards else loops[0].body[0]
            add("await inside the critical section",
                [(first, f"await asyncio.sleep(0)\n{ind(first)}{seg(src, first)}")], "C14.ATOM")
    # the pending request is started but stays pending
    pops = [n.func for m, n in every if isinstance(n, ast.Call) and isinstance(n.func, ast.Attribute)
            and n.func.attr == "pop" and u(n.func.value) == PEND]
    add("get instead of pop", [(f, f"{PEND}.get") for f in pops], "C14.NEXT")
    # the except arm around task.result() leaves the handler (return in the handler, raise in a helper);
    # not a defect when the decision is taken in a `finally`
    for m, n in every:
        if isinstance(n, ast.Try) and n.handlers and not n.finalbody and any(
                isinstance(c, ast.Call) and isinstance(c.func, ast.Attribute) and c.func.attr == "result" and not c.args
                for b in n.body for c in ast.walk(b)):
            last = n.handlers[0].body[-1]
            word = "return" if m.name == handler else "raise"
            add(f"{word} in the except arm", [(last, f"{seg(src, last)}\n{ind(last)}{word}")], "C14.NEXT")
            break
    # the except arm around task.result() looks into the exception it caught before the decision is taken: a
    # subscript of its arguments / an attribute that not every exception has (not a defect when the decision is
    # taken in a `finally`)
    for m, n in every:
        if isinstance(n, ast.Try) and n.handlers and any(
                isinstance(c, ast.Call) and isinstance(c.func, ast.Attribute) and c.func.attr == "result" and not c.args
                for b in n.body for c in ast.walk(b)) and not any(
                isinstance(t, ast.Try) and t.finalbody and any(x is n for x in ast.walk(t)) for t in ast.walk(m.node)):
            h = n.handlers[0]
            first = h.body[0]
            name = h.name or "c14_exc"
            kind = seg(src, h.type) if h.type is not None else "BaseException"
            body = src[_offset(src, first.lineno, first.col_offset):_offset(src, h.end_lineno, h.end_col_offset)]  # type: ignore[arg-type]
            for title, probe in (("the except arm subscripts the arguments of the caught exception", f"{name}.args[0]"),
                                 ("the except arm reads an attribute that not every exception has", f"{name}.errno"),
                                 ("the except arm formats the caught exception with a field lookup",
                                  f"'{{0.code}}'.format({name})")):
                add(title, [(h, f"except {kind} as {name}:\n{ind(first)}c14_detail = {probe}\n{ind(first)}{body}")],
                    "C14.NEXT")
            break
    cbs = [n for m, n in every if isinstance(n, ast.Expr) and isinstance(n.value, ast.Call)
           and isinstance(n.value.func, ast.Attribute) and n.value.func.attr == "add_done_callback"]
    # (the receiver stays: when the callers attach the callback, it is the start of the request)
    add("callback dropped", [(s.value, seg(src, s.value.func.value)) for s in cbs], "C14.REG")  # type: ignore[attr-defined]
    # ---- late binding of the completion callback
    def stmt_of(fn_node: ast.AST, inner: ast.AST) -> ast.stmt | None:
        """The innermost statement of a body list that contains `inner`."""
        best: ast.stmt | None = None
        for n in ast.walk(fn_node):
            for field in ("body", "orelse", "finalbody"):
                suite = getattr(n, field, None)
                if isinstance(suite, list):
                    for st in suite:
                        if isinstance(st, ast.stmt) and any(x is inner for x in ast.walk(st)):
                            best = st       # ast.walk is breadth-first: deeper suites come later
        return best

    rebinds: list[tuple[ast.AST, str]] = []
    for m, c, args in completion_closures(prog, handler):
        if m.cls is not cls:
            continue
        # what flows into the handler's key parameter (else: everything the callback reads)
        key_arg: list[ast.AST] | None = None
        if hsig is not None and isinstance(c, ast.Lambda) and _is_self_call(c.body, handler):
            bound = hsig.bind_nodes(c.body)
            key_arg = [bound[hr["key"]]] if bound is not None and hr["key"] in bound else None
        reads = sorted(closure_reads(c, key_arg if key_arg is not None else args[:1] if args else None)
                       - {"self", "cls"})
        st = stmt_of(m.node, c)
        if reads and st is not None and not isinstance(st, (ast.Return, ast.Raise)):
            rebinds.append((st, f"{seg(src, st)}\n{ind(st)}{reads[0]} = frozenset()"))
    add("key re-bound after the completion callback was created", rebinds, "C14.BIND")
    # the seed's shape: the starter hands the task back, the callers attach a lambda over their own locals --
    # in the request loop those are re-bound with every request
    s_fn = cls.methods.get(starter)
    h_fn = cls.methods.get(handler)
    if s_fn is not None and h_fn is not None and ssig is not None and hsig is not None and s_fn.node.body \
            and not isinstance(s_fn.node.body[-1], (ast.Return, ast.Raise)):
        kp, rp = sr["key"], sr["request"]

        def own(n: ast.AST) -> bool:
            """`<task>.add_done_callback(lambda t: self.<handler>(key=<key param>, request=<request param>, task=t))`
            in whatever spelling of the arguments."""
            if not (isinstance(n, ast.Expr) and isinstance(n.value, ast.Call) and isinstance(n.value.func, ast.Attribute)
                    and n.value.func.attr == "add_done_callback" and isinstance(n.value.func.value, ast.Name)
                    and len(n.value.args) == 1 and not n.value.keywords and isinstance(n.value.args[0], ast.Lambda)):
                return False
            lam = n.value.args[0]
            la = lam.args
            if len(la.args) != 1 or la.posonlyargs or la.kwonlyargs or la.vararg or la.kwarg or la.defaults:
                return False
            return _is_self_call(lam.body, handler) and hsig.bind(lam.body) == {
                hr["key"]: kp, hr["request"]: rp, hr["task"]: la.args[0].arg}

        def site_args(n: ast.AST) -> tuple[ast.AST, ast.AST] | None:
            b = ssig.bind_nodes(n)
            return (b[kp], b[rp]) if b is not None and set(b) == {kp, rp} else None

        own_cb = [n for n in s_fn.node.body if own(n)]
        sites = [(m, n) for m, n in every if m.name != starter and isinstance(n, ast.Expr)
                 and _is_self_call(n.value, starter) and site_args(n.value) is not None]

        def in_loop_over(m: FuncInfo, st: ast.stmt) -> bool:
            """Both arguments are locals the enclosing loop of the same function binds anew."""
            a = site_args(st.value)  # type: ignore[attr-defined]
            assert a is not None
            if not all(isinstance(x, ast.Name) for x in a):
                return False
            for lp in walk_no_nested(m.node):
                if isinstance(lp, (ast.For, ast.AsyncFor, ast.While)) and any(x is st for b in lp.body for x in ast.walk(b)):
                    stored = {x.id for x in ast.walk(lp) if isinstance(x, ast.Name) and isinstance(x.ctx, ast.Store)}
                    if any(x.id in stored for x in a):
                        return True
            return False

        if len(own_cb) == 1 and sites and any(in_loop_over(m, n) for m, n in sites):
            task_name = u(own_cb[0].value.func.value)  # type: ignore[attr-defined]
            last = s_fn.node.body[-1]
            edits: list[tuple[ast.AST, str]] = [(own_cb[0], "pass")] if own_cb[0] is not last else []
            edits.append((last, (f"{seg(src, last)}" if own_cb[0] is not last else "pass") + f"\n{ind(last)}return {task_name}"))
            for m, n in sites:
                nodes = site_args(n.value)  # type: ignore[attr-defined]
                assert nodes is not None
                a0, a1 = (seg(src, x) for x in nodes)
                pre = ""
                if not all(isinstance(x, ast.Name) for x in nodes):
                    pre = f"c14_key = {a0}\n{ind(n)}c14_request = {a1}\n{ind(n)}"
                    a0, a1 = "c14_key", "c14_request"
                start = ssig.render({kp: a0, rp: a1})
                done = hsig.render({hr["key"]: a0, hr["request"]: a1, hr["task"]: "c14_t"})
                edits.append((n, f"{pre}self.{starter}({start}).add_done_callback(\n{ind(n)}    "
                                 f"lambda c14_t: self.{handler}({done}))"))
            add("callback attached by the callers, closing over the request loop's variables", edits, "C14.BIND")
    pend_w = [n for m, n in every if isinstance(n, ast.Assign) and len(n.targets) == 1
              and sub_of(n.targets[0], "_pending_requests")]
    add("older pending request kept",
        [(s, f"{PEND}.setdefault({seg(src, s.targets[0].slice)}, {seg(src, s.value)})") for s in pend_w],  # type: ignore[attr-defined]
        "C14.LATEST")
    tests = [n for m, n in every if m.name not in (handler, starter, "__init__")
             and isinstance(n, ast.Compare) and len(n.ops) == 1 and isinstance(n.ops[0], (ast.In, ast.NotIn))
             and u(n.comparators[0]) == PROC]
    edits = []
    for c in tests:
        k = seg(src, c.left)
        edits.append((c, f"({k} in {PROC} and not {PROC}[{k}].done())" if isinstance(c.ops[0], ast.In)
                      else f"({k} not in {PROC} or {PROC}[{k}].done())"))
    add("guard looks at task.done()", edits, "C14.ATOM")
    regs = [n for m, n in every if isinstance(n, (ast.Assign, ast.AnnAssign)) and n.value is not None
            and any(sub_of(t, "_processing_tasks") for t in (n.targets if isinstance(n, ast.Assign) else [n.target]))]
    add("registration dropped", [(s, "pass") for s in regs], "C14.REG")
    clears = [n for m, n in every if (isinstance(n, ast.Delete) and any(sub_of(t, "_processing_tasks") for t in n.targets))
              or (isinstance(n, ast.Expr) and isinstance(n.value, ast.Call) and isinstance(n.value.func, ast.Attribute)
                  and n.value.func.attr == "pop" and u(n.value.func.value) == PROC)]
    # ... or cleared by a pop whose value is looked at (`if d.pop(k, None) is None: ...`): look without removing
    held = {id(s.value) for s in clears if isinstance(s, ast.Expr)}
    peeks = [(n.func, f"{PROC}.get") for m, n in every if isinstance(n, ast.Call) and id(n) not in held
             and isinstance(n.func, ast.Attribute) and n.func.attr == "pop" and u(n.func.value) == PROC
             and len(n.args) == 2 and not n.keywords]
    add("in-flight marker never cleared", [(s, "pass") for s in clears] + peeks, "C14.NEXT")
    keys = [n for m, n in every if m.name not in (handler, starter, "__init__")
            and isinstance(n, ast.Call) and u(n.func) == "frozenset" and len(n.args) == 1
            and isinstance(n.args[0], ast.Attribute) and n.args[0].attr == "component_ids"]
    add("key is not the component set", [(c, "frozenset()") for c in keys], "C14.KEY")
    init = cls.methods.get("__init__")
    if init is not None:
        for attr, what in (("_processing_tasks", "in-flight"), ("_pending_requests", "pending")):
            binds = [n for n in ast.walk(init.node) if isinstance(n, (ast.Assign, ast.AnnAssign)) and n.value is not None
                     and any(isinstance(t, ast.Attribute) and t.attr == attr and u(t.value) == "self"
                             for t in (n.targets if isinstance(n, ast.Assign) else [n.target]))]
            add(f"{what} map never created", [(b, "pass") for b in binds], "C14.ONLY")
            add(f"{what} map starts non-empty", [(b.value, "{frozenset(): None}") for b in binds], "C14.ONLY")  # type: ignore[misc]
    return out


def run_rules(run: Run, prog: Program) -> None:
    ctx = Ctx(prog)
    check_reg(run, prog, ctx)
    check_run(run, prog, ctx)
    check_handler(run, prog, ctx)
    check_bind(run, prog, ctx)
    check_init(run, prog, ctx)
    check_only(run, prog, ctx)


def check(run: Run, prog: Program, tier: str) -> str:
    run.rule("C14.ONLY", "distribute_power only inside _process_request; _process_request only from the "
             "request loop and the completion handler; bookkeeping dicts touched nowhere else (private "
             "helpers read into these functions count as part of them); the constructor creates both "
             "dicts empty and binds the receiver and the component manager")
    run.rule("C14.REG", "_process_request is synchronous and on every path creates the task, attaches "
             "the completion callback for (group, request) and registers the task under the group key; when it "
             "hands the bare task back instead, every caller attaches exactly that callback to the returned task")
    run.rule("C14.BIND", "what a completion callback passes to the handler (group key, request) is fixed when the "
             "callback is created: default arguments, functools.partial, or free variables that are not bound again "
             "after its creation -- never a closure over the request loop's variables (late binding)")
    run.rule("C14.ATOM", "the in-flight guard is exactly `key in _processing_tasks`; no await between "
             "receiving a request, the guard and the bookkeeping; in flight -> never started, free -> started "
             "exactly once")
    run.rule("C14.LATEST", "the pending slot is only ever overwritten with the incoming request, on every "
             "in-flight path")
    run.rule("C14.NEXT", "the completion handler reaches the pending/clear decision on the normal and on "
             "every Exception path, pops+starts the pending request, clears the marker only otherwise; nothing "
             "evaluated before the decision is carried out can raise on the shape of the exception the task ended "
             "with (may-raise analysis of the operations on the caught exception: subscripts of .args / the "
             "message, attributes not every exception has, unpacking, format fields and specs, ...), unless the "
             "error is caught before the decision or the decision is taken in a `finally`")
    run.rule("C14.KEY", "all bookkeeping is keyed by frozenset(request.component_ids)")
    run_rules(run, prog)
    run.floor("C14.ONLY", 9)
    run.floor("C14.REG", 6)
    run.floor("C14.BIND", 1)
    run.floor("C14.ATOM", 4)
    run.floor("C14.LATEST", 3)
    run.floor("C14.NEXT", 6)
    from ..engine.controls import run_controls

    run_controls(run, CONTROLS + structural_controls(prog), run_rules, tier, base_prog=prog)
    run.assume("asyncio is cooperative: between two awaits of _run no other task or done-callback runs")
    run.assume("values of the in-flight map are tasks and values of the pending map are Request objects "
               "(never None, always truthy): `d.get(k) is None` is read as `k not in d`")
    run.undecided("fairness/latency of the event loop; behaviour when a distribution task is cancelled")
    return ("Every path of one iteration of the request loop, of the (synchronous) registration function "
            "and of the completion handler is walked symbolically (locals substituted, private helpers "
            "followed): guard exactness, await-freedom of the critical section, overwrite-only pending "
            "slot, handler totality over Exception paths, and who-may-call discipline.")
